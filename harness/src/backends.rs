//! construction of every input backend for one logical sequence
use std::collections::VecDeque;
pub use tevec::export::ndarray::{s, Array1, ArrayView1};

/// VecDeque whose ring-buffer head is rotated by `k` (contents = v)
pub fn deque_rot<T: Clone>(v: &[T], k: usize) -> VecDeque<T> {
    let mut dq: VecDeque<T> = VecDeque::with_capacity(v.len().max(1));
    if v.is_empty() {
        return dq;
    }
    let cap = dq.capacity();
    let k = k % cap;
    for _ in 0..k {
        dq.push_back(v[0].clone());
    }
    for _ in 0..k {
        dq.pop_front();
    }
    for x in v {
        dq.push_back(x.clone());
    }
    assert!(dq.capacity() == cap, "deque reallocated");
    dq
}

/// base array such that `base.slice(s![..;step])` is the logical sequence `v`
pub fn nd_base<T: Clone>(v: &[T], step: isize, filler: T) -> Array1<T> {
    let n = v.len();
    if n == 0 {
        return Array1::from_vec(vec![]);
    }
    let st = step.unsigned_abs();
    let l = (n - 1) * st + 1;
    let mut b = vec![filler; l];
    for (i, x) in v.iter().enumerate() {
        let pos = if step > 0 { i * st } else { l - 1 - i * st };
        b[pos] = x.clone();
    }
    Array1::from_vec(b)
}

/// bind `$view` to a reference to backend `$b` holding the sequence `$v: Vec<T>`
/// backends: vec slice arc deque<k> arcdeque<k> nd ndv<step> ndvm arr
#[macro_export]
macro_rules! with_view {
    ($b:expr, $v:expr, $filler:expr, $view:ident => $body:expr) => {{
        let __b: &str = $b;
        if __b == "vec" || __b.is_empty() {
            let $view = &$v;
            let __r = $body;
            __r
        } else if __b == "slice" {
            let $view: &[_] = &$v[..];
            let __r = $body;
            __r
        } else if __b == "arc" {
            let __a = std::sync::Arc::new($v.clone());
            let $view = &__a;
            let __r = $body;
            __r
        } else if let Some(k) = __b.strip_prefix("deque") {
            let __d = $crate::backends::deque_rot(&$v, k.parse().unwrap_or(0));
            let $view = &__d;
            let __r = $body;
            __r
        } else if let Some(k) = __b.strip_prefix("arcdeque") {
            let __d = std::sync::Arc::new($crate::backends::deque_rot(&$v, k.parse().unwrap_or(0)));
            let $view = &__d;
            let __r = $body;
            __r
        } else if __b == "nd" {
            let __a = $crate::backends::Array1::from_vec($v.clone());
            let $view = &__a;
            let __r = $body;
            __r
        } else if __b == "ndvm" {
            let mut __a = $crate::backends::Array1::from_vec($v.clone());
            let __vm = __a.view_mut();
            let $view = &__vm;
            let __r = $body;
            __r
        } else if let Some(st) = __b.strip_prefix("ndv") {
            let st: isize = st.parse().unwrap_or(1);
            let __base = $crate::backends::nd_base(&$v, st, $filler);
            let __vw = __base.slice($crate::backends::s![..;st]);
            let $view = &__vw;
            let __r = $body;
            __r
        } else if __b == "arr" {
            macro_rules! __arr { ($n:literal) => {{ let __a: [_; $n] = $v.clone().try_into().ok().unwrap(); let $view = &__a; let __r = $body; __r }} }
            match $v.len() {
                0 => __arr!(0), 1 => __arr!(1), 2 => __arr!(2), 3 => __arr!(3), 4 => __arr!(4),
                5 => __arr!(5), 6 => __arr!(6), 7 => __arr!(7), 8 => __arr!(8),
                _ => { let $view = &$v; let __r = $body; __r },
            }
        } else {
            panic!("unknown backend {}", __b)
        }
    }};
}

/// same as `with_view!` without the unsized `[T]` backend (the `ts_*` extension traits need `Self: Sized`)
#[macro_export]
macro_rules! with_view_sized {
    ($b:expr, $v:expr, $filler:expr, $view:ident => $body:expr) => {{
        let __b: &str = $b;
        if __b == "vec" || __b.is_empty() {
            let $view = &$v;
            let __r = $body;
            __r
        } else if __b == "arc" {
            let __a = std::sync::Arc::new($v.clone());
            let $view = &__a;
            let __r = $body;
            __r
        } else if let Some(k) = __b.strip_prefix("deque") {
            let __d = $crate::backends::deque_rot(&$v, k.parse().unwrap_or(0));
            let $view = &__d;
            let __r = $body;
            __r
        } else if let Some(k) = __b.strip_prefix("arcdeque") {
            let __d = std::sync::Arc::new($crate::backends::deque_rot(&$v, k.parse().unwrap_or(0)));
            let $view = &__d;
            let __r = $body;
            __r
        } else if __b == "nd" {
            let __a = $crate::backends::Array1::from_vec($v.clone());
            let $view = &__a;
            let __r = $body;
            __r
        } else if __b == "ndvm" {
            let mut __a = $crate::backends::Array1::from_vec($v.clone());
            let __vm = __a.view_mut();
            let $view = &__vm;
            let __r = $body;
            __r
        } else if let Some(st) = __b.strip_prefix("ndv") {
            let st: isize = st.parse().unwrap_or(1);
            let __base = $crate::backends::nd_base(&$v, st, $filler);
            let __vw = __base.slice($crate::backends::s![..;st]);
            let $view = &__vw;
            let __r = $body;
            __r
        } else if __b == "arr" {
            macro_rules! __arr { ($n:literal) => {{ let __a: [_; $n] = $v.clone().try_into().ok().unwrap(); let $view = &__a; let __r = $body; __r }} }
            match $v.len() {
                0 => __arr!(0), 1 => __arr!(1), 2 => __arr!(2), 3 => __arr!(3), 4 => __arr!(4),
                5 => __arr!(5), 6 => __arr!(6), 7 => __arr!(7), 8 => __arr!(8),
                _ => { let $view = &$v; let __r = $body; __r },
            }
        } else {
            panic!("unknown backend {}", __b)
        }
    }};
}


/// same as `with_view!` restricted to backends whose view type is `'static` (needed by
/// `rolling2_custom`, whose callback bound is higher-ranked over the slice lifetime)
#[macro_export]
macro_rules! with_view_static {
    ($b:expr, $v:expr, $filler:expr, $view:ident => $body:expr) => {{
        let __b: &str = $b;
        if __b == "vec" || __b.is_empty() {
            let $view = &$v;
            let __r = $body;
            __r
        } else if __b == "slice" {
            let $view: &[_] = &$v[..];
            let __r = $body;
            __r
        } else if __b == "arc" {
            let __a = std::sync::Arc::new($v.clone());
            let $view = &__a;
            let __r = $body;
            __r
        } else if let Some(k) = __b.strip_prefix("deque") {
            let __d = $crate::backends::deque_rot(&$v, k.parse().unwrap_or(0));
            let $view = &__d;
            let __r = $body;
            __r
        } else if let Some(k) = __b.strip_prefix("arcdeque") {
            let __d = std::sync::Arc::new($crate::backends::deque_rot(&$v, k.parse().unwrap_or(0)));
            let $view = &__d;
            let __r = $body;
            __r
        } else if __b == "nd" {
            let __a = $crate::backends::Array1::from_vec($v.clone());
            let $view = &__a;
            let __r = $body;
            __r
        } else if __b == "arr" {
            macro_rules! __arr { ($n:literal) => {{ let __a: [_; $n] = $v.clone().try_into().ok().unwrap(); let $view = &__a; let __r = $body; __r }} }
            match $v.len() {
                0 => __arr!(0), 1 => __arr!(1), 2 => __arr!(2), 3 => __arr!(3), 4 => __arr!(4),
                5 => __arr!(5), 6 => __arr!(6), 7 => __arr!(7), 8 => __arr!(8),
                _ => { let $view = &$v; let __r = $body; __r },
            }
        } else {
            panic!("unknown backend {}", __b)
        }
    }};
}


pub const BACKENDS_SMALL: &[&str] = &["vec", "slice", "arr", "arc", "deque0", "deque1", "deque3", "arcdeque2", "nd", "ndvm", "ndv1", "ndv2", "ndv3", "ndv-1", "ndv-2"];

pub const BACKENDS_STATIC: &[&str] = &["vec", "slice", "arr", "arc", "deque0", "deque1", "deque3", "arcdeque2", "nd"];

/// backends on which the `ts_*` / mapping extension traits are callable (all but the unsized slice)
pub const BACKENDS_SIZED: &[&str] = &["vec", "arr", "arc", "deque0", "deque1", "deque3", "arcdeque2", "nd", "ndvm", "ndv1", "ndv2", "ndv3", "ndv-1", "ndv-2"];
