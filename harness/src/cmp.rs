//! comparison of an implementation output line with a model/spec output line
use crate::proto::{big_ratio, big_to_f64};

#[derive(Clone, Copy, Debug)]
pub struct Mode {
    pub rel: f64,
    /// floor of the relative tolerance: |a-b| <= rel * max(floor, |b|)
    pub floor: f64,
    pub int_out: bool,
    /// plain integer output: a null is NaN's integer cast (0); false for Option<i32> (None)
    pub null_is_zero: bool,
}

impl Mode {
    pub fn of(o: &str) -> Mode {
        match o {
            "f32" => Mode { rel: 2e-5, floor: 1.0, int_out: false, null_is_zero: false },
            "i32" => Mode { rel: 1e-9, floor: 1.0, int_out: true, null_is_zero: true },
            "oi32" => Mode { rel: 1e-9, floor: 1.0, int_out: true, null_is_zero: false },
            _ => Mode { rel: 1e-9, floor: 1.0, int_out: false, null_is_zero: false },
        }
    }
}

fn parse_rat(tok: &str) -> Option<f64> {
    let ok = |s: &str| !s.is_empty() && s.trim_start_matches('-').bytes().all(|b| b.is_ascii_digit()) && s != "-";
    match tok.split_once('/') {
        None => if ok(tok) { Some(big_to_f64(tok)) } else { None },
        Some((p, q)) => if ok(p) && ok(q) { Some(big_ratio(p, q)) } else { None },
    }
}

/// real value denoted by a model token, if numeric: (value, is_root_square, sign)
enum MTok {
    Null,
    Degen,
    Val(f64),
    Root(i32, f64),
    Lit,
}

fn mtok(t: &str) -> MTok {
    if t == "_" {
        return MTok::Null;
    }
    if t == "!" {
        return MTok::Degen;
    }
    if let Some(rest) = t.strip_prefix("r:") {
        if let Some((s, q)) = rest.split_once(':') {
            if let (Ok(s), Some(q)) = (s.parse::<i32>(), parse_rat(q)) {
                return MTok::Root(s, q);
            }
        }
        return MTok::Lit;
    }
    match parse_rat(t) {
        Some(v) => MTok::Val(v),
        None => MTok::Lit,
    }
}

fn close(a: f64, b: f64, rel: f64) -> bool {
    (a - b).abs() <= rel * 1f64.max(b.abs())
}
fn close_f(a: f64, b: f64, rel: f64, floor: f64) -> bool {
    (a - b).abs() <= rel * floor.max(b.abs())
}

fn int_matches(k: i64, x: f64) -> bool {
    // `as i32` : truncation toward zero, saturating; accept either neighbour at an integer boundary
    let sat = |v: f64| -> i64 { v.trunc().max(i32::MIN as f64).min(i32::MAX as f64) as i64 };
    let d = 1e-9 * 1f64.max(x.abs());
    k == sat(x) || k == sat(x + d) || k == sat(x - d)
}

pub fn tok_eq(impl_t: &str, model_t: &str, m: Mode) -> bool {
    if impl_t == model_t {
        return true;
    }
    let mt = mtok(model_t);
    if m.int_out {
        // integer output: NaN -> 0, values truncated
        if let Ok(k) = impl_t.parse::<i64>() {
            return match mt {
                MTok::Null => m.null_is_zero && k == 0,
                MTok::Degen => k == 0 || k == i32::MAX as i64 || k == i32::MIN as i64,
                MTok::Val(v) => int_matches(k, v),
                MTok::Root(s, q) => int_matches(k, s as f64 * q.sqrt()),
                MTok::Lit => false,
            };
        }
        if impl_t == "_" {
            // Option<i32> output: None
            return matches!(mt, MTok::Null | MTok::Degen);
        }
    }
    if let Some(fs) = impl_t.strip_prefix("f:") {
        let v: f64 = match fs {
            "inf" => f64::INFINITY,
            "-inf" => f64::NEG_INFINITY,
            s => match s.parse() {
                Ok(v) => v,
                Err(_) => return false,
            },
        };
        return match mt {
            MTok::Null => false,
            MTok::Degen => v.is_infinite(),
            // an infinite implementation value against the model's stand-in for it (|x| >= 2^1100 parses as inf)
            MTok::Val(x) if x.is_infinite() => v.is_infinite() && (v > 0.) == (x > 0.),
            MTok::Val(x) => v.is_finite() && close_f(v, x, m.rel, m.floor),
            MTok::Root(s, q) => {
                // either the square matches and the sign is right, or the value itself is within the
                // (possibly history-scaled, DESIGN 5.1) tolerance of sign * sqrt(q)
                v.is_finite()
                    && ((close_f(v * v, q, 2. * m.rel, m.floor * m.floor)
                        && (if s > 0 { v >= 0. } else if s < 0 { v <= 0. } else { v.abs() <= 1e-6 * m.floor }))
                        || close_f(v, s as f64 * q.sqrt(), m.rel, m.floor))
            },
            MTok::Lit => false,
        };
    }
    if impl_t == "_" {
        return matches!(mt, MTok::Degen);
    }
    // exact integers / rationals printed differently (e.g. `2` vs `4/2` never happens; model reduces)
    false
}

/// whole-line comparison: groups `;`, lists `,`
pub fn line_eq(impl_l: &str, model_l: &str, m: Mode) -> bool {
    line_eq_tols(impl_l, model_l, m, None)
}

/// as `line_eq`, with a per-position relative tolerance for the tokens of the first group
/// (conditioning-aware comparison of cancellation-prone closed forms, DESIGN 5.1)
pub fn line_eq_tols(impl_l: &str, model_l: &str, m: Mode, tols: Option<&[f64]>) -> bool {
    let tf: Option<Vec<(f64, f64)>> = tols.map(|t| t.iter().map(|x| (*x, 1.0)).collect());
    line_eq_tf(impl_l, model_l, m, tf.as_deref())
}

/// as `line_eq_tols` with a (relative tolerance, floor) pair per position of the first group
pub fn line_eq_tf(impl_l: &str, model_l: &str, m: Mode, tols: Option<&[(f64, f64)]>) -> bool {
    if impl_l == model_l {
        return true;
    }
    let gi: Vec<&str> = impl_l.split(';').collect();
    let gm: Vec<&str> = model_l.split(';').collect();
    if gi.len() != gm.len() {
        return false;
    }
    for (gi_idx, (a, b)) in gi.iter().zip(gm.iter()).enumerate() {
        let ta: Vec<&str> = crate::proto::split_list(a);
        let tb: Vec<&str> = crate::proto::split_list(b);
        if ta.len() != tb.len() {
            return false;
        }
        for (i, (x, y)) in ta.iter().zip(tb.iter()).enumerate() {
            let mut mm = m;
            if gi_idx == 0 {
                if let Some(t) = tols {
                    if let Some(ti) = t.get(i) {
                        mm.rel = mm.rel.max(ti.0);
                        mm.floor = ti.1;
                    }
                }
            }
            if !tok_eq(x, y, mm) {
                return false;
            }
        }
    }
    true
}

/// model vs spec (both exact tokens): textual equality up to the numeric value of a token
pub fn model_line_eq(a: &str, b: &str) -> bool {
    let gi: Vec<&str> = a.split(';').collect();
    let gm: Vec<&str> = b.split(';').collect();
    if gi.len() != gm.len() {
        return false;
    }
    for (x, y) in gi.iter().zip(gm.iter()) {
        let ta = crate::proto::split_list(x);
        let tb = crate::proto::split_list(y);
        if ta.len() != tb.len() {
            return false;
        }
        for (p, q) in ta.iter().zip(tb.iter()) {
            if p == q {
                continue;
            }
            let num = |t: &str| -> Option<f64> {
                match mtok(t) {
                    MTok::Val(v) => Some(v),
                    MTok::Root(s, q) => Some(s as f64 * q.sqrt()),
                    _ => None,
                }
            };
            match (num(p), num(q)) {
                (Some(u), Some(v)) if close(u, v, 1e-12) => {},
                _ => return false,
            }
        }
    }
    true
}
