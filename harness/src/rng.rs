//! SplitMix64: the single source of randomness (seeded by VERIF_SEED)
#[derive(Clone)]
pub struct Rng(pub u64);
impl Rng {
    pub fn new(seed: u64) -> Rng {
        Rng(seed.wrapping_mul(0x9E3779B97F4A7C15) ^ 0xD1B54A32D192ED03)
    }
    pub fn next(&mut self) -> u64 {
        self.0 = self.0.wrapping_add(0x9E3779B97F4A7C15);
        let mut z = self.0;
        z = (z ^ (z >> 30)).wrapping_mul(0xBF58476D1CE4E5B9);
        z = (z ^ (z >> 27)).wrapping_mul(0x94D049BB133111EB);
        z ^ (z >> 31)
    }
    pub fn below(&mut self, n: usize) -> usize {
        if n == 0 { 0 } else { (self.next() % n as u64) as usize }
    }
    pub fn range(&mut self, lo: i64, hi: i64) -> i64 {
        lo + (self.next() % ((hi - lo + 1) as u64)) as i64
    }
    pub fn chance(&mut self, p: f64) -> bool {
        (self.next() >> 11) as f64 / (1u64 << 53) as f64 <= p
    }
    pub fn pick<'a, T>(&mut self, v: &'a [T]) -> &'a T {
        &v[self.below(v.len())]
    }
}
