mod backends;
mod cmp;
mod engine;
mod logc;
mod cases;
mod catalog;
mod props;
mod proto;
mod rng;
mod rollrun;
mod types;

use std::io::{BufRead, Write};

fn run_stdin() {
    // silence panic messages: panics are outcomes
    std::panic::set_hook(Box::new(|_| {}));
    let stdin = std::io::stdin();
    let stdout = std::io::stdout();
    let mut out = stdout.lock();
    // watchdog: a request that does not answer within the limit is answered `TIMEOUT` (written
    // straight to fd 1: every earlier answer has been flushed) and ends this process; the parent
    // restarts a child on the remaining requests
    static BUSY_SINCE_MS: std::sync::atomic::AtomicU64 = std::sync::atomic::AtomicU64::new(0);
    let limit_ms: u64 = std::env::var("TVH_TIMEOUT_S").ok().and_then(|v| v.parse().ok()).unwrap_or(30u64) * 1000;
    let t0 = std::time::Instant::now();
    std::thread::spawn(move || loop {
        std::thread::sleep(std::time::Duration::from_millis(200));
        let since = BUSY_SINCE_MS.load(std::sync::atomic::Ordering::SeqCst);
        if since != 0 && (t0.elapsed().as_millis() as u64).saturating_sub(since) > limit_ms {
            use std::os::fd::FromRawFd;
            let mut f = unsafe { std::fs::File::from_raw_fd(1) };
            let _ = f.write_all(engine::TIMEOUT.as_bytes());
            let _ = f.write_all(b"\n");
            let _ = f.write_all(engine::RESTART.as_bytes());
            let _ = f.write_all(b"\n");
            let _ = f.flush();
            std::process::exit(3);
        }
    });
    for line in stdin.lock().lines() {
        let line = match line {
            Ok(l) => l,
            Err(_) => break,
        };
        let r = proto::Req::parse(&line);
        BUSY_SINCE_MS.store(t0.elapsed().as_millis() as u64 + 1, std::sync::atomic::Ordering::SeqCst);
        let res = std::panic::catch_unwind(|| props::run(&r));
        BUSY_SINCE_MS.store(0, std::sync::atomic::Ordering::SeqCst);
        let s = match res {
            Ok(Some(s)) => s,
            Ok(None) => "?unknown".to_string(),
            Err(e) => {
                let msg = if let Some(s) = e.downcast_ref::<String>() { s.clone() } else if let Some(s) = e.downcast_ref::<&str>() { s.to_string() } else { String::new() };
                format!("P:{}", msg.replace(|c: char| c == ',' || c == ';' || c == '\n', " "))
            },
        };
        let _ = writeln!(out, "{}", s);
        let _ = out.flush();
        if engine::EXIT_AFTER_ANSWER.load(std::sync::atomic::Ordering::SeqCst) {
            let _ = writeln!(out, "{}", engine::RESTART);
            let _ = out.flush();
            std::process::exit(3);
        }
    }
}

fn main() {
    let args: Vec<String> = std::env::args().collect();
    match args.get(1).map(|s| s.as_str()) {
        Some("run") => run_stdin(),
        Some("gen") => {
            let prop = &args[2];
            let tier = args.get(3).map(|s| s.as_str()).unwrap_or("quick");
            let seed: u64 = args.get(4).and_then(|s| s.parse().ok()).unwrap_or(0);
            let mut rng = rng::Rng::new(seed);
            let (lines, _) = props::generate(prop, tier, &mut rng);
            let stdout = std::io::stdout();
            let mut o = std::io::BufWriter::new(stdout.lock());
            for l in lines {
                let _ = writeln!(o, "{}", l);
            }
        },
        Some("check") => {
            // check <prop> <tier> <seed> <model-exe> <outdir> [corpus-dir]
            let prop = &args[2];
            let tier = &args[3];
            let seed: u64 = args[4].parse().unwrap_or(0);
            let model = &args[5];
            let outdir = &args[6];
            let corpus = args.get(7).map(|s| s.as_str());
            std::process::exit(engine::check(prop, tier, seed, model, outdir, corpus));
        },
        _ => {
            eprintln!("usage: tvh run | gen <prop> <tier> <seed> | check <prop> <tier> <seed> <model> <outdir> [corpus]");
            std::process::exit(2);
        },
    }
}
