//! request-line protocol shared with the Lean model driver (lean/Tv/Proto.lean)
use std::collections::BTreeMap;

#[derive(Clone, Debug)]
pub struct Req {
    pub f: String,
    pub kv: BTreeMap<String, String>,
    pub order: Vec<String>,
}

impl Req {
    pub fn parse(line: &str) -> Req {
        let mut it = line.split_whitespace();
        let f = it.next().unwrap_or("").to_string();
        let mut kv = BTreeMap::new();
        let mut order = vec![];
        for t in it {
            if let Some((k, v)) = t.split_once('=') {
                kv.insert(k.to_string(), v.to_string());
                order.push(k.to_string());
            }
        }
        Req { f, kv, order }
    }
    pub fn line(&self) -> String {
        let mut s = self.f.clone();
        for k in &self.order {
            s.push(' ');
            s.push_str(k);
            s.push('=');
            s.push_str(&self.kv[k]);
        }
        s
    }
    pub fn s(&self, k: &str) -> &str {
        self.kv.get(k).map(|s| s.as_str()).unwrap_or("")
    }
    pub fn has(&self, k: &str) -> bool {
        self.kv.contains_key(k)
    }
    pub fn usize(&self, k: &str) -> usize {
        self.s(k).parse().unwrap_or(0)
    }
    pub fn i64(&self, k: &str) -> i64 {
        self.s(k).parse().unwrap_or(0)
    }
    pub fn i32(&self, k: &str) -> i32 {
        self.s(k).parse().unwrap_or(0)
    }
    pub fn opt_usize(&self, k: &str) -> Option<usize> {
        self.s(k).parse().ok()
    }
    pub fn f64(&self, k: &str) -> f64 {
        rat_to_f64(self.s(k)).unwrap_or(f64::NAN)
    }
    pub fn opt_f64(&self, k: &str) -> Option<f64> {
        if self.has(k) { rat_to_f64(self.s(k)) } else { None }
    }
    pub fn bool(&self, k: &str) -> bool {
        self.s(k) == "1"
    }
    pub fn list(&self, k: &str) -> Vec<&str> {
        split_list(self.s(k))
    }
    /// series as Option<f64> (exact: generators only emit dyadic rationals)
    pub fn series(&self, k: &str) -> Vec<Option<f64>> {
        self.list(k).into_iter().map(rat_to_f64).collect()
    }
    pub fn set(&mut self, k: &str, v: String) {
        if !self.kv.contains_key(k) {
            self.order.push(k.to_string());
        }
        self.kv.insert(k.to_string(), v);
    }
}

pub fn split_list(s: &str) -> Vec<&str> {
    if s.is_empty() || s == "[]" { vec![] } else { s.split(',').collect() }
}

/// `p/q`, `p`, `_` → f64 (None for `_`)
pub fn rat_to_f64(s: &str) -> Option<f64> {
    if s == "_" || s.is_empty() {
        return None;
    }
    // the two infinities (order-only request streams; the model reads them as +-2^1100)
    if s == "inf" {
        return Some(f64::INFINITY);
    }
    if s == "-inf" {
        return Some(f64::NEG_INFINITY);
    }
    match s.split_once('/') {
        None => Some(big_to_f64(s)),
        Some((p, q)) => Some(big_ratio(p, q)),
    }
}

/// decimal integer string → (mantissa, exp10) using the leading 18 digits
fn big_parts(s: &str) -> (f64, i32) {
    let (neg, digits) = match s.strip_prefix('-') {
        Some(d) => (true, d),
        None => (false, s),
    };
    let take = digits.len().min(18);
    let m: f64 = digits[..take].parse().unwrap_or(f64::NAN);
    let e = (digits.len() - take) as i32;
    (if neg { -m } else { m }, e)
}

pub fn big_to_f64(s: &str) -> f64 {
    if s.trim_start_matches('-').len() <= 300 {
        s.parse().unwrap_or(f64::NAN)
    } else {
        let (m, e) = big_parts(s);
        m * 10f64.powi(e)
    }
}

pub fn big_ratio(p: &str, q: &str) -> f64 {
    if p.len() <= 15 && q.len() <= 15 {
        return p.parse::<f64>().unwrap_or(f64::NAN) / q.parse::<f64>().unwrap_or(f64::NAN);
    }
    let (mp, ep) = big_parts(p);
    let (mq, eq) = big_parts(q);
    if p.trim_start_matches('-').len() <= 15 {
        // a power-of-two denominator (scaled request streams): exact, down to the subnormal range
        let s = (mq.log2() + eq as f64 * 10f64.log2()).round();
        if s >= 1.0 && s <= 1100.0 && crate::cases::pow2_str(s as u32) == q {
            let mut v = p.parse::<f64>().unwrap_or(f64::NAN);
            let mut k = s as i32;
            while k > 0 {
                let step = k.min(512);
                v *= 2f64.powi(-step);
                k -= step;
            }
            return v;
        }
    }
    (mp / mq) * 10f64.powi(ep - eq)
}

pub fn show_list<T, F: Fn(&T) -> String>(v: &[T], f: F) -> String {
    if v.is_empty() { "[]".to_string() } else { v.iter().map(f).collect::<Vec<_>>().join(",") }
}

/// a value as a protocol token on the implementation side
pub trait Tok {
    fn tok(&self) -> String;
}
impl Tok for f64 {
    fn tok(&self) -> String {
        if self.is_nan() {
            "_".into()
        } else if self.is_infinite() {
            if *self > 0. { "f:inf".into() } else { "f:-inf".into() }
        } else {
            format!("f:{:e}", self)
        }
    }
}
impl Tok for f32 {
    fn tok(&self) -> String {
        (*self as f64).tok()
    }
}
macro_rules! tok_int { ($($t:ty),*) => { $( impl Tok for $t { fn tok(&self) -> String { format!("{}", self) } } )* } }
tok_int!(i32, i64, usize, u64, u8, isize);
impl Tok for bool {
    fn tok(&self) -> String {
        if *self { "1".into() } else { "0".into() }
    }
}
impl Tok for String {
    fn tok(&self) -> String {
        self.clone()
    }
}
impl<T: Tok> Tok for Option<T> {
    fn tok(&self) -> String {
        match self {
            None => "_".into(),
            Some(v) => {
                let t = v.tok();
                // Some(NaN) is non-canonical: make it visible
                if t == "_" { "SomeNaN".into() } else { t }
            },
        }
    }
}
pub fn toks<T: Tok>(v: &[T]) -> String {
    show_list(v, |x| x.tok())
}
pub fn toks_iter<T: Tok, I: Iterator<Item = T>>(it: I) -> String {
    let v: Vec<T> = it.collect();
    toks(&v)
}
