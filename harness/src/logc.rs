//! instrumented containers for C10: `LogVec` records every unchecked access made through
//! `Vec1View::{uget, uslice}`, `LogOut` / `LogUninit` record every write into an output buffer.
//! Out-of-bounds requests are recorded and answered with a default value instead of touching
//! memory, so a violation is observed without undefined behaviour.
use std::cell::RefCell;

use tevec::prelude::*;

#[derive(Default, Clone, Debug)]
pub struct Log {
    pub reads: Vec<usize>,
    pub read_oob: Vec<(usize, usize)>,
    pub slices: Vec<(usize, usize)>,
    pub slice_bad: Vec<(usize, usize, usize)>,
    pub write_oob: Vec<(usize, usize)>,
    pub missing: Vec<usize>,
    pub double: Vec<usize>,
    pub exposed: usize,
}

thread_local! {
    pub static LOG: RefCell<Log> = RefCell::new(Log::default());
}

pub fn reset() {
    LOG.with(|l| *l.borrow_mut() = Log::default());
}
pub fn take() -> Log {
    LOG.with(|l| l.borrow().clone())
}

#[derive(Clone, Debug)]
pub struct LogVec<T>(pub Vec<T>);

impl<T> GetLen for LogVec<T> {
    fn len(&self) -> usize {
        self.0.len()
    }
}
impl<T: Clone> TIter<T> for LogVec<T> {
    fn titer(&self) -> impl TIterator<Item = T> + '_ {
        self.0.iter().cloned()
    }
}
impl<T: Clone + Default> Vec1View<T> for LogVec<T> {
    type SliceOutput<'a>
        = &'a [T]
    where
        Self: 'a;

    fn get_backend_name(&self) -> &'static str {
        "logvec"
    }
    fn slice<'a>(&'a self, start: usize, end: usize) -> TResult<&'a [T]>
    where
        T: 'a,
    {
        Ok(&self.0[start..end])
    }
    unsafe fn uslice<'a>(&'a self, start: usize, end: usize) -> TResult<&'a [T]>
    where
        T: 'a,
    {
        let len = self.0.len();
        if start <= end && end <= len {
            LOG.with(|l| l.borrow_mut().slices.push((start, end)));
            Ok(&self.0[start..end])
        } else {
            LOG.with(|l| l.borrow_mut().slice_bad.push((start, end, len)));
            Ok(&self.0[0..0])
        }
    }
    unsafe fn uget(&self, index: usize) -> T {
        if index < self.0.len() {
            LOG.with(|l| l.borrow_mut().reads.push(index));
            self.0[index].clone()
        } else {
            LOG.with(|l| l.borrow_mut().read_oob.push((index, self.0.len())));
            T::default()
        }
    }
}

/// initialised output container
#[derive(Clone, Debug)]
pub struct LogOut<T>(pub Vec<T>);

pub struct LogUninit<T> {
    slots: Vec<Option<T>>,
    writes: Vec<u32>,
}

impl<T> GetLen for LogOut<T> {
    fn len(&self) -> usize {
        self.0.len()
    }
}
impl<T: Clone> TIter<T> for LogOut<T> {
    fn titer(&self) -> impl TIterator<Item = T> + '_ {
        self.0.iter().cloned()
    }
}
impl<T: Clone + Default> Vec1View<T> for LogOut<T> {
    type SliceOutput<'a>
        = &'a [T]
    where
        Self: 'a;
    fn get_backend_name(&self) -> &'static str {
        "logout"
    }
    fn slice<'a>(&'a self, start: usize, end: usize) -> TResult<&'a [T]>
    where
        T: 'a,
    {
        Ok(&self.0[start..end])
    }
    unsafe fn uget(&self, index: usize) -> T {
        self.0[index].clone()
    }
}
impl<T> GetLen for LogUninit<T> {
    fn len(&self) -> usize {
        self.slots.len()
    }
}
impl<T> LogUninit<T> {
    fn put(&mut self, idx: usize, v: T) {
        if idx < self.slots.len() {
            self.slots[idx] = Some(v);
            self.writes[idx] += 1;
        } else {
            let n = self.slots.len();
            LOG.with(|l| l.borrow_mut().write_oob.push((idx, n)));
        }
    }
}
impl<T: Clone + Default> UninitVec<T> for LogUninit<T> {
    type Vec = LogOut<T>;
    unsafe fn assume_init(self) -> LogOut<T> {
        LOG.with(|l| {
            let mut l = l.borrow_mut();
            l.exposed += 1;
            for (i, w) in self.writes.iter().enumerate() {
                if *w == 0 {
                    l.missing.push(i);
                } else if *w > 1 {
                    l.double.push(i);
                }
            }
        });
        LogOut(self.slots.into_iter().map(|s| s.unwrap_or_default()).collect())
    }
    unsafe fn uset(&mut self, idx: usize, v: T) {
        self.put(idx, v)
    }
}
impl<T> UninitRefMut<T> for &mut LogUninit<T> {
    unsafe fn uset(&mut self, idx: usize, v: T) {
        self.put(idx, v)
    }
}
impl<T: Clone + Default> Vec1<T> for LogOut<T> {
    type Uninit = LogUninit<T>;
    type UninitRefMut<'a>
        = &'a mut LogUninit<T>
    where
        T: 'a;
    fn collect_from_iter<I: Iterator<Item = T>>(iter: I) -> Self {
        LogOut(iter.collect())
    }
    fn uninit(len: usize) -> LogUninit<T> {
        LogUninit { slots: (0..len).map(|_| None).collect(), writes: vec![0; len] }
    }
    fn uninit_ref_mut(u: &mut LogUninit<T>) -> &mut LogUninit<T> {
        u
    }
}
