//! shared dispatch for rolling entry points: element type × output type on Vec,
//! every input backend (f64 / Option<f64> → f64), every output container × {returned, out buffer}.
//!
//! `$call` is an expression using `$view` (the input view), `$OC` (output container type),
//! `$U` (output element type) and `$out` (`Option<OC::UninitRefMut>`): typically
//! `$view.ts_xxx_to::<$OC, $U>(w, mp, $out)` — the `#[no_out]`-generated `_to` form returns
//! `Some(result)` when `out` is `None` and writes into the buffer otherwise.

/// tokens of a strided out buffer: the view's slots, plus markers when a slot outside the view was
/// written (`CLOBBERED`) or a slot of the view was left untouched (`UNWRITTEN`)
pub fn strided_tokens(all: &[f64], sent: f64) -> String {
    let vals: Vec<f64> = all.iter().step_by(2).cloned().collect();
    let mut clobber = false;
    for x in all.iter().skip(1).step_by(2) {
        if x.to_bits() != sent.to_bits() { clobber = true; }
    }
    let mut unwritten = false;
    for x in &vals {
        if x.to_bits() == sent.to_bits() { unwritten = true; }
    }
    let mut t = crate::proto::toks(&vals);
    if clobber { t.push_str(";CLOBBERED"); }
    if unwritten { t.push_str(";UNWRITTEN"); }
    t
}

pub fn has_sentinel(all: &[f64], sent: f64) -> bool {
    for x in all {
        if x.to_bits() == sent.to_bits() { return true; }
    }
    false
}

/// a ring buffer of `len` sentinel slots, rotated until its storage is split in two slices (for
/// `len >= 2`) and one step more
pub fn wrapped_uninit(len: usize, sent: f64) -> std::collections::VecDeque<std::mem::MaybeUninit<f64>> {
    use std::mem::MaybeUninit;
    let mut buf: std::collections::VecDeque<MaybeUninit<f64>> = std::collections::VecDeque::with_capacity(len);
    for _ in 0..len {
        buf.push_back(MaybeUninit::new(sent));
    }
    if len >= 2 {
        let mut extra = 1;
        let mut guard = 0;
        while (buf.as_slices().1.is_empty() || extra > 0) && guard < 4 * len + 8 {
            if !buf.as_slices().1.is_empty() {
                extra -= 1;
            }
            buf.pop_front();
            buf.push_back(MaybeUninit::new(sent));
            guard += 1;
        }
    }
    buf
}

/// regime of a request: "types" (Vec in, Vec out, returned: all element/output types),
/// "backend" (b= given), "outpath" (oc= / p= given)
pub fn regime(r: &crate::proto::Req) -> &'static str {
    let b = r.s("b");
    let oc = r.s("oc");
    let p = r.s("p");
    if b == "opt" {
        "backend"
    } else if !(oc.is_empty() || oc == "vec") || p == "out" {
        "outpath"
    } else if !(b.is_empty() || b == "vec") {
        "backend"
    } else {
        "types"
    }
}

#[macro_export]
macro_rules! __roll_finish {
    ($r:expr, $len:expr, $OC:ident, $U:ident, $out:ident, $call:expr) => {{
        if $r.s("p") == "out" {
            let mut __buf = <$OC as Vec1<$U>>::uninit($len);
            {
                let $out = Some(<$OC as Vec1<$U>>::uninit_ref_mut(&mut __buf));
                let __res: Option<$OC> = $call;
                assert!(__res.is_none(), "out path returned a value");
            }
            let __o: $OC = unsafe { __buf.assume_init() };
            $crate::proto::toks_iter(__o.titer())
        } else {
            let $out: Option<<$OC as Vec1<$U>>::UninitRefMut<'_>> = None;
            let __res: Option<$OC> = $call;
            let __o: $OC = __res.expect("returned path gave None");
            $crate::proto::toks_iter(__o.titer())
        }
    }};
}

/// caller buffer that is a *strided* uninitialised ndarray view (every second slot of a base array
/// pre-filled with a sentinel): results must land in the view's slots and nowhere else
#[macro_export]
macro_rules! __roll_finish_strided {
    ($r:expr, $len:expr, $OC:ident, $U:ident, $out:ident, $call:expr) => {{
        use std::mem::MaybeUninit;
        const SENT: f64 = -7.25e300;
        let mut __base = $crate::backends::Array1::<MaybeUninit<f64>>::from_elem(2 * $len, MaybeUninit::new(SENT));
        {
            let __v = __base.slice_mut($crate::backends::s![..;2]);
            let $out: Option<<$OC as Vec1<$U>>::UninitRefMut<'_>> = Some(__v);
            let __res: Option<$OC> = $call;
            assert!(__res.is_none(), "out path returned a value");
        }
        let __all: Vec<f64> = __base.iter().map(|m| unsafe { m.assume_init() }).collect();
        let __t = $crate::rollrun::strided_tokens(&__all, SENT);
        __t
    }};
}

/// caller buffer that is a `VecDeque<MaybeUninit<f64>>` whose ring storage *wraps around* (a deque
/// that has been used as a queue: head offset > 0, two non-empty slices): a perfectly legal
/// `UninitRefMut` of `VecDeque<f64>`; every logical slot must be written
#[macro_export]
macro_rules! __roll_finish_wrapped {
    ($r:expr, $len:expr, $OC:ident, $U:ident, $out:ident, $call:expr) => {{
        const SENT: f64 = -7.25e300;
        let mut __buf = $crate::rollrun::wrapped_uninit($len, SENT);
        {
            let $out: Option<<$OC as Vec1<$U>>::UninitRefMut<'_>> = Some(&mut __buf);
            let __res: Option<$OC> = $call;
            assert!(__res.is_none(), "out path returned a value");
        }
        let __all: Vec<f64> = __buf.iter().map(|m| unsafe { m.assume_init() }).collect();
        let mut __t = $crate::proto::toks(&__all);
        if $crate::rollrun::has_sentinel(&__all, SENT) { __t.push_str(";UNWRITTEN"); }
        __t
    }};
}

/// the option view (`v.opt()`, element type `Option<Inner>`) as input backend — only for null-aware
/// entry points (`yes`); the plain family needs `T: Number`
#[macro_export]
macro_rules! __opt_arm {
    (yes, $r:expr, $v:ident, $len:expr, $view:ident, $OC:ident, $U:ident, $out:ident, $call:expr) => {{
        let __o = $v.opt();
        let $view = &__o;
        $crate::__roll_finish!($r, $len, $OC, $U, $out, $call)
    }};
    (no, $r:expr, $v:ident, $len:expr, $view:ident, $OC:ident, $U:ident, $out:ident, $call:expr) => {{
        let _ = (&$v, $len);
        panic!("the option view is not an input of the plain family")
    }};
}

/// single-series rolling function. `$xsm` = with_xs_all (null-aware) or with_xs_num (plain);
/// `$xsb` = element types used in the backend regime (with_xs_f: f64 + Option<f64>, with_xs_f64: f64).
#[macro_export]
macro_rules! roll1_dispatch {
    ($r:expr, $xsm:ident, $xsb:ident, $opt:ident, |$view:ident, $OC:ident, $U:ident, $out:ident| $call:expr) => {{
        match $crate::rollrun::regime($r) {
            "types" => $crate::$xsm!($r, "xs", __v => $crate::with_out!($r, $U => {
                type $OC = Vec<$U>;
                let $view = &__v;
                let __len = __v.len();
                $crate::__roll_finish!($r, __len, $OC, $U, $out, $call)
            })),
            "backend" => $crate::$xsb!($r, "xs", __v => {
                type $U = f64;
                type $OC = Vec<f64>;
                let __len = __v.len();
                let __fill = <[_]>::first(&__v).map(|x| x.clone()).unwrap_or_default();
                if $r.s("b") == "opt" {
                    $crate::__opt_arm!($opt, $r, __v, __len, $view, $OC, $U, $out, $call)
                } else {
                    $crate::with_view_sized!($r.s("b"), __v, __fill, $view => {
                        $crate::__roll_finish!($r, __len, $OC, $U, $out, $call)
                    })
                }
            }),
            _ => {
                let __v = $crate::types::as_f64(&$r.series("xs"));
                let $view = &__v;
                let __len = __v.len();
                type $U = f64;
                match $r.s("oc") {
                    "deque" => { type $OC = std::collections::VecDeque<f64>; $crate::__roll_finish!($r, __len, $OC, $U, $out, $call) },
                    "nd" => { type $OC = $crate::backends::Array1<f64>; $crate::__roll_finish!($r, __len, $OC, $U, $out, $call) },
                    "nds" => { type $OC = $crate::backends::Array1<f64>; $crate::__roll_finish_strided!($r, __len, $OC, $U, $out, $call) },
                    "dqw" => { type $OC = std::collections::VecDeque<f64>; $crate::__roll_finish_wrapped!($r, __len, $OC, $U, $out, $call) },
                    _ => { type $OC = Vec<f64>; $crate::__roll_finish!($r, __len, $OC, $U, $out, $call) },
                }
            },
        }
    }};
}

/// two-series rolling function: `$view` (first series, backend varies) and `$view2` (second, always Vec)
#[macro_export]
macro_rules! roll2_dispatch {
    ($r:expr, |$view:ident, $view2:ident, $OC:ident, $U:ident, $out:ident| $call:expr) => {{
        match $crate::rollrun::regime($r) {
            "types" => $crate::with_xs_all!($r, "xs", __v => $crate::with_xs_all!($r, "ys", __v2 => $crate::with_out!($r, $U => {
                type $OC = Vec<$U>;
                let $view = &__v;
                let $view2 = &__v2;
                let __len = __v.len();
                $crate::__roll_finish!($r, __len, $OC, $U, $out, $call)
            }))),
            "backend" => $crate::with_xs_f!($r, "xs", __v => {
                type $U = f64;
                type $OC = Vec<f64>;
                let __v2 = $crate::types::as_f64(&$r.series("ys"));
                let $view2 = &__v2;
                let __len = __v.len();
                let __fill = <[_]>::first(&__v).map(|x| x.clone()).unwrap_or_default();
                $crate::with_view_sized!($r.s("b"), __v, __fill, $view => {
                    $crate::__roll_finish!($r, __len, $OC, $U, $out, $call)
                })
            }),
            _ => {
                let __v = $crate::types::as_f64(&$r.series("xs"));
                let __v2 = $crate::types::as_f64(&$r.series("ys"));
                let $view = &__v;
                let $view2 = &__v2;
                let __len = __v.len();
                type $U = f64;
                match $r.s("oc") {
                    "deque" => { type $OC = std::collections::VecDeque<f64>; $crate::__roll_finish!($r, __len, $OC, $U, $out, $call) },
                    "nd" => { type $OC = $crate::backends::Array1<f64>; $crate::__roll_finish!($r, __len, $OC, $U, $out, $call) },
                    "nds" => { type $OC = $crate::backends::Array1<f64>; $crate::__roll_finish_strided!($r, __len, $OC, $U, $out, $call) },
                    "dqw" => { type $OC = std::collections::VecDeque<f64>; $crate::__roll_finish_wrapped!($r, __len, $OC, $U, $out, $call) },
                    _ => { type $OC = Vec<f64>; $crate::__roll_finish!($r, __len, $OC, $U, $out, $call) },
                }
            },
        }
    }};
}

/// the null-aware single-series entry points: `Some(call)` if `$f` names one of them.
/// (arms of merged properties are appended here: one place for every cross-cutting runner)
#[macro_export]
macro_rules! roll1_valid_call {
    ($f:expr, $view:expr, $OC:ty, $U:ty, $out:expr, $w:expr, $mp:expr, $r:expr) => {
        match $f {
            "ts_vsum" => Some($view.ts_vsum_to::<$OC, $U>($w, $mp, $out)),
            "ts_vmean" => Some($view.ts_vmean_to::<$OC, $U>($w, $mp, $out)),
            "ts_vewm" => Some($view.ts_vewm_to::<$OC, $U>($w, $mp, $out)),
            "ts_vwma" => Some($view.ts_vwma_to::<$OC, $U>($w, $mp, $out)),
            "ts_vstd" => Some($view.ts_vstd_to::<$OC, $U>($w, $mp, $out)),
            "ts_vvar" => Some($view.ts_vvar_to::<$OC, $U>($w, $mp, $out)),
            "ts_vskew" => Some($view.ts_vskew_to::<$OC, $U>($w, $mp, $out)),
            "ts_vkurt" => Some($view.ts_vkurt_to::<$OC, $U>($w, $mp, $out)),
            "ts_vmin" => Some($view.ts_vmin_to::<$OC, $U>($w, $mp, $out)),
            "ts_vmax" => Some($view.ts_vmax_to::<$OC, $U>($w, $mp, $out)),
            "ts_vargmin" => Some($view.ts_vargmin_to::<$OC, $U>($w, $mp, $out)),
            "ts_vargmax" => Some($view.ts_vargmax_to::<$OC, $U>($w, $mp, $out)),
            "ts_vrank" => Some($view.ts_vrank_to::<$OC, $U>($w, $mp, $r.bool("pct"), $r.bool("rev"), $out)),
            "ts_vminmaxnorm" => Some($view.ts_vminmaxnorm_to::<$OC, $U>($w, $mp, $out)),
            "ts_vzscore" => Some($view.ts_vzscore_to::<$OC, $U>($w, $mp, $out)),
            "ts_vreg" => Some($view.ts_vreg_to::<$OC, $U>($w, $mp, $out)),
            "ts_vtsf" => Some($view.ts_vtsf_to::<$OC, $U>($w, $mp, $out)),
            "ts_vreg_slope" => Some($view.ts_vreg_slope_to::<$OC, $U>($w, $mp, $out)),
            "ts_vreg_intercept" => Some($view.ts_vreg_intercept_to::<$OC, $U>($w, $mp, $out)),
            "ts_vreg_resid_mean" => Some($view.ts_vreg_resid_mean_to::<$OC, $U>($w, $mp, $out)),
            // ROLL1-VALID-APPEND
            _ => None,
        }
    };
}
pub const ROLL1_VALID: &[&str] = &["ts_vsum", "ts_vmean", "ts_vewm", "ts_vwma", "ts_vstd", "ts_vvar", "ts_vskew", "ts_vkurt",
    "ts_vmin", "ts_vmax", "ts_vargmin", "ts_vargmax", "ts_vrank", "ts_vminmaxnorm", "ts_vzscore",
    "ts_vreg", "ts_vtsf", "ts_vreg_slope", "ts_vreg_intercept", "ts_vreg_resid_mean"];

/// the plain single-series entry points (T: Number)
#[macro_export]
macro_rules! roll1_plain_call {
    ($f:expr, $view:expr, $OC:ty, $U:ty, $out:expr, $w:expr, $mp:expr, $r:expr) => {
        match $f {
            "ts_sum" => Some($view.ts_sum_to::<$OC, $U>($w, $mp, $out)),
            "ts_mean" => Some($view.ts_mean_to::<$OC, $U>($w, $mp, $out)),
            "ts_ewm" => Some($view.ts_ewm_to::<$OC, $U>($w, $mp, $out)),
            "ts_wma" => Some($view.ts_wma_to::<$OC, $U>($w, $mp, $out)),
            "ts_std" => Some($view.ts_std_to::<$OC, $U>($w, $mp, $out)),
            "ts_var" => Some($view.ts_var_to::<$OC, $U>($w, $mp, $out)),
            "ts_skew" => Some($view.ts_skew_to::<$OC, $U>($w, $mp, $out)),
            "ts_kurt" => Some($view.ts_kurt_to::<$OC, $U>($w, $mp, $out)),
            _ => None,
        }
    };
}
pub const ROLL1_PLAIN: &[&str] = &["ts_sum", "ts_mean", "ts_ewm", "ts_wma", "ts_std", "ts_var", "ts_skew", "ts_kurt"];

/// the two-series entry points
#[macro_export]
macro_rules! roll2_call {
    ($f:expr, $view:expr, $view2:expr, $OC:ty, $U:ty, $out:expr, $w:expr, $mp:expr, $r:expr) => {
        match $f {
            "ts_vcov" => Some($view.ts_vcov_to::<$OC, $U, _, _>($view2, $w, $mp, $out)),
            "ts_vcorr" => Some($view.ts_vcorr_to::<$OC, $U, _, _>($view2, $w, $mp, $out)),
            "ts_vregx_alpha" => Some($view.ts_vregx_alpha_to::<$OC, $U, _, _>($view2, $w, $mp, $out)),
            "ts_vregx_beta" => Some($view.ts_vregx_beta_to::<$OC, $U, _, _>($view2, $w, $mp, $out)),
            "ts_vregx_resid_mean" => Some($view.ts_vregx_resid_mean_to::<$OC, $U, _, _>($view2, $w, $mp, $out)),
            "ts_vregx_resid_std" => Some($view.ts_vregx_resid_std_to::<$OC, $U, _, _>($view2, $w, $mp, $out)),
            "ts_vregx_resid_skew" => Some($view.ts_vregx_resid_skew_to::<$OC, $U, _, _>($view2, $w, $mp, $out)),
            // ROLL2-APPEND
            _ => { let _ = (&$view, &$view2, $w, $mp, $out); None::<Option<$OC>> },
        }
    };
}
pub const ROLL2: &[&str] = &["ts_vcov", "ts_vcorr", "ts_vregx_alpha", "ts_vregx_beta", "ts_vregx_resid_mean", "ts_vregx_resid_std", "ts_vregx_resid_skew"];
