//! C05: output length and warm-up mask of every rolling entry point, on every input backend.
//! The request lines are ordinary requests of the function's own property (so the same
//! implementation runner and the same Lean model answer them); only the comparison differs:
//! masks (null / non-null / degenerate) and lengths.
use crate::catalog::*;
use crate::cases::mp_tok;
use crate::proto::Req;
use crate::rng::Rng;

fn mask_of(line: &str, model: bool) -> Vec<char> {
    if line.starts_with('P') || line == crate::engine::ABORT {
        return vec!['P'];
    }
    crate::proto::split_list(line.split(';').next().unwrap_or(""))
        .iter()
        .map(|t| if *t == "_" { 'N' } else if model && *t == "!" { 'D' } else { 'V' })
        .collect()
}

/// relational run `c05_i64 w=.. mp=.. xs=<small integers>`: `ts_vminmaxnorm` on a `Vec<i64>` whose
/// values are 1.7e18 + xs (epoch nanoseconds: above 2^53, neighbours closer than the f64 spacing). The
/// element type has no null, so every position with `min(i + 1, w) >= min_periods` whose window is
/// not constant must carry `(v - min) / (max - min)` computed exactly on the offsets, every other
/// position a null. `OK` | `NE:<position>:<got>:<expected>` | `P`
pub fn run(r: &Req) -> Option<String> {
    if r.f != "c05_i64" {
        return None;
    }
    use tevec::prelude::*;
    let offs: Vec<i64> = r.list("xs").iter().map(|t| t.parse::<i64>().unwrap_or(0)).collect();
    let (w, mp) = (r.usize("w"), r.opt_usize("mp"));
    let base: i64 = 1_700_000_000_000_000_000;
    let data: Vec<i64> = offs.iter().map(|o| base + o).collect();
    let got: Vec<f64> = match std::panic::catch_unwind(|| data.ts_vminmaxnorm::<Vec<f64>, f64>(w, mp)) {
        Ok(g) => g,
        Err(_) => return Some("P".into()),
    };
    if got.len() != offs.len() {
        return Some(format!("NE:len:{}:{}", got.len(), offs.len()));
    }
    let need = mp.unwrap_or(w / 2).min(w);
    for i in 0..offs.len() {
        let lo = (i + 1).saturating_sub(w);
        let win = &offs[lo..=i];
        let (mut mn, mut mx) = (win[0], win[0]);
        for x in win {
            if *x < mn {
                mn = *x;
            }
            if *x > mx {
                mx = *x;
            }
        }
        let want = if win.len() >= need && mx != mn { Some((offs[i] - mn) as f64 / (mx - mn) as f64) } else { None };
        let ok = match want {
            None => got[i].is_nan(),
            Some(x) => (got[i] - x).abs() <= 1e-12,
        };
        if !ok {
            return Some(format!("NE:{}:{:e}:{}", i, got[i], want.map(|x| format!("{:e}", x)).unwrap_or("null".into())));
        }
    }
    Some("OK".into())
}

pub fn compare(r: &Req, imp: &str, model: &str) -> bool {
    if r.f == "c05_i64" {
        return imp == model;
    }
    let a = mask_of(imp, false);
    let b = mask_of(model, true);
    if r.s("o") == "i32" {
        // integer output: a null is NaN's integer cast (0), indistinguishable from a value;
        // what remains observable is the length and the absence of a panic
        return a.len() == b.len() && a != vec!['P'];
    }
    a.len() == b.len() && a.iter().zip(b.iter()).all(|(x, y)| x == y || *y == 'D')
}

pub fn valid_case(r: &Req) -> bool {
    if r.f == "c05_i64" {
        return r.usize("w") >= 1 && r.list("xs").iter().all(|t| t.parse::<i64>().is_ok());
    }
    let Some(f) = find(&r.f) else { return false };
    let w = r.usize("w");
    let len = r.list("xs").len();
    if w < 1 {
        return false;
    }
    if let Some(mp) = r.opt_usize("mp") {
        if mp > w {
            return false;
        }
    } else if f.mp_none_needs_len_ge_w && len < w {
        return false;
    }
    if !f.nullable && r.list("xs").iter().any(|x| *x == "_") {
        return false;
    }
    if f.arity == 2 && r.list("ys").len() != len {
        return false;
    }
    true
}

pub fn generate(tier: &str, _rng: &mut Rng) -> (Vec<String>, bool) {
    let maxlen = if tier == "thorough" { 7 } else { 5 };
    let backends = crate::backends::BACKENDS_SIZED;
    let mut out = vec![];
    let mut k = 0usize;
    // 64-bit integers above 2^53 (relational run): every series over {0,1,3,5} to length 4, windows 1..=len+1
    for len in 1..=4usize {
        for xs in crate::cases::all_series(&["0", "1", "3", "5"], len) {
            for w in 1..=len + 1 {
                for mp in [None, Some(1usize), Some(w)] {
                    out.push(format!("c05_i64 w={} mp={} xs={}", w, mp_tok(mp), crate::cases::join(&xs)));
                }
            }
        }
    }
    for f in ROLL {
        for len in 0..=maxlen {
            // null patterns: every subset of positions (plain family: no nulls)
            let npat: u32 = if f.nullable { 1 << len } else { 1 };
            for pat in 0..npat {
                let xs: Vec<&str> = (0..len).map(|i| if pat >> i & 1 == 1 { "_" } else { VALS_A[i] }).collect();
                // second series: independent null pattern derived from the first
                let pat2 = pat.rotate_left(1) ^ (pat >> 1);
                let ys: Vec<&str> = (0..len).map(|i| if f.nullable && (pat2 >> i & 1 == 1) { "_" } else { VALS_B[i] }).collect();
                for w in 1..=len + 3 {
                    let mut mps: Vec<Option<usize>> = (0..=w).map(Some).collect();
                    if !(f.mp_none_needs_len_ge_w && len < w) {
                        mps.push(None);
                    }
                    if len <= 3 && pat % 3 == 0 {
                        // integer output element type: length / no-panic only
                        let mut l = format!("{} w={} mp={} t=f64 o=i32 xs={}{}", f.name, w, mp_tok(Some(w.min(2))),
                            if xs.is_empty() { "[]".to_string() } else { xs.join(",") }, f.extra);
                        if f.arity == 2 {
                            l.push_str(&format!(" ys={}", if ys.is_empty() { "[]".to_string() } else { ys.join(",") }));
                        }
                        out.push(l);
                    }
                    for mp in mps {
                        k += 1;
                        let b = backends[k % backends.len()];
                        let t = if f.nullable && k % 3 == 0 { "of64" } else { "f64" };
                        let mut l = format!("{} w={} mp={} b={} t={} o=f64 xs={}{}", f.name, w, mp_tok(mp), b, t,
                            if xs.is_empty() { "[]".to_string() } else { xs.join(",") }, f.extra);
                        if f.arity == 2 {
                            l.push_str(&format!(" ys={}", if ys.is_empty() { "[]".to_string() } else { ys.join(",") }));
                        }
                        out.push(l);
                    }
                }
            }
        }
    }
    // the mask must not depend on the scale of the data
    crate::cases::add_scaled(&mut out, 5, &[12, 13, 14, 15, 40], &["xs", "ys"]);
    // constant runs of decimal fractions (not representable in binary: the one-pass power sums
    // keep a rounding residue of either sign): a window of equal observations is still a window
    // of `count` observations, the statistic must not turn null there
    for f in ROLL {
        if f.family == "cmp" {
            continue;
        }
        for (ci, c) in ["1/10", "1/5", "1001/100", "3/10", "-7/10", "33/100"].iter().enumerate() {
            for len in 2..=maxlen + 2 {
                for w in 2..=4usize {
                    for mp in 1..=w {
                        // the constant run, and the run entered from a different level
                        for lead in [false, true] {
                            let mut xs: Vec<String> = (0..len).map(|_| c.to_string()).collect();
                            if lead {
                                xs[0] = "7/2".into();
                            }
                            if f.nullable && (len + w + ci) % 4 == 0 {
                                xs[len / 2] = "_".into();
                            }
                            k += 1;
                            let b = backends[k % backends.len()];
                            let mut l = format!("{} w={} mp={} b={} t=f64 o=f64 xs={}{}", f.name, w, mp_tok(Some(mp)), b, xs.join(","), f.extra);
                            if f.arity == 2 {
                                let ys: Vec<String> = (0..len).map(|i| format!("{}/10", (i * 7 + ci) % 11)).collect();
                                l.push_str(&format!(" ys={}", ys.join(",")));
                            }
                            out.push(l);
                        }
                    }
                }
            }
        }
    }
    (out, true)
}

pub fn rule(tier: &str) -> String {
    format!("relational run c05_i64: ts_vminmaxnorm on Vec<i64> = 1.7e18 + every series over {{0,1,3,5}} to length 4, windows 1..=len+1, min_periods omitted / 1 / w, against the exact value on the offsets (64-bit integers above 2^53; no null exists, so the null pattern is the warm-up and the constant windows). Mask-only comparison (length + null/non-null pattern; zero-denominator positions accept either) of all {} catalogued rolling entry points: exhaustive over len 0..={} (incl. len < w and empty), window 1..=len+3, min_periods 0..=w and omitted (extrema/rank family: omitted only for len >= w), every null subset; the 14 sized input backends rotated round-robin. non-trivial = len >= 2 with a non-null output.", ROLL.len(), if tier == "thorough" { 7 } else { 5 })
}

/// F35: ts_vmin / ts_vmax with an integer output element type panic on a masked slot
/// (`None.cast::<i32>()` calls `i32::none()`)
pub fn known_finding(r: &Req, imp: &str, _spec: &str) -> Option<String> {
    if matches!(r.f.as_str(), "ts_vmin" | "ts_vmax") && r.s("o") == "i32" && imp.starts_with("P:") && imp.contains("none()") {
        return Some("F35".into());
    }
    None
}
