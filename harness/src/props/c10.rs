//! C10: kernels never index out of bounds; every output slot is written exactly once.
//! The property oracle is applied to the logs of the instrumented containers directly.
use crate::catalog::*;
use crate::cases::mp_tok;
use crate::proto::Req;
use crate::rng::Rng;
pub use imp::run;

pub const DRIVERS: &[&str] = &["rolling_apply", "rolling_apply_idx", "rolling2_apply", "rolling2_apply_idx", "rolling_custom", "rolling2_custom"];
pub const KERNELS: &[&str] = &["vrank", "varg_partition", "vpartition", "vquantile"];

pub(crate) fn verdict(l: &crate::logc::Log, outcome_ok: bool, with_reads: bool) -> String {
    let r = if let Some((i, n)) = l.read_oob.first() { format!("R:oob:{}/{}", i, n) } else { "R:ok".to_string() };
    let s = if let Some((a, b, n)) = l.slice_bad.first() { format!("S:bad:{}..{}/{}", a, b, n) } else { "S:ok".to_string() };
    let w = if let Some((i, n)) = l.write_oob.first() {
        format!("W:oob:{}/{}", i, n)
    } else if let Some(i) = l.double.first() {
        format!("W:double:{}", i)
    } else if let Some(i) = l.missing.first() {
        if outcome_ok { format!("W:missing:{}", i) } else { "W:ok".to_string() }
    } else {
        "W:ok".to_string()
    };
    let mut out = format!("{};{};{}", r, s, w);
    if with_reads {
        let mut rd: Vec<usize> = l.reads.clone();
        rd.sort();
        rd.dedup();
        out.push_str(&format!(";rd:{}", if rd.is_empty() { "e".to_string() } else { rd.iter().map(|x| x.to_string()).collect::<Vec<_>>().join(".") }));
    }
    out
}


mod imp {
use tevec::prelude::*;
use super::verdict;

use crate::logc::{self, LogOut, LogVec};
use crate::proto::Req;
use crate::{__roll_finish, roll1_plain_call, roll1_valid_call, roll2_call};

/// run `$body` (which yields a token string of the result) under catch_unwind with fresh logs
macro_rules! observed {
    ($with_reads:expr, $body:expr) => {{
        logc::reset();
        let res = std::panic::catch_unwind(std::panic::AssertUnwindSafe(|| { let _s: String = $body; }));
        let l = logc::take();
        match res {
            Ok(()) => format!("ok;{}", verdict(&l, true, $with_reads)),
            Err(_) => format!("P;{}", verdict(&l, false, $with_reads)),
        }
    }};
}

pub fn run(r: &Req) -> Option<String> {
    if r.f != "C10" {
        return None;
    }
    let f = r.s("f");
    let w = r.usize("w");
    let mp = r.opt_usize("mp");
    let xs = crate::types::as_f64(&r.series("xs"));
    let ys = crate::types::as_f64(&r.series("ys"));
    let len = xs.len();
    let log_in = r.s("in") == "log" || r.s("in").is_empty();
    let deque_in: Option<usize> = r.s("in").strip_prefix("deque").map(|k| k.parse().unwrap_or(0));
    type OC = LogOut<f64>;
    type U = f64;
    macro_rules! on_input {
        ($view:ident, $view2:ident => $body:expr) => {{
            if log_in {
                let __a = LogVec(xs.clone());
                let __b = LogVec(ys.clone());
                let ($view, $view2) = (&__a, &__b);
                $body
            } else if let Some(k) = deque_in {
                // a real VecDeque whose ring buffer is rotated (wrapped when k > 0): its unchecked
                // accessors are observed through the debug-profile precondition checks (abort)
                let __a = crate::backends::deque_rot(&xs, k);
                let __b = crate::backends::deque_rot(&ys, k + 1);
                let ($view, $view2) = (&__a, &__b);
                $body
            } else {
                let ($view, $view2) = (&xs, &ys);
                $body
            }
        }};
    }
    if r.s("p") == "dqw" {
        // the caller's buffer is a VecDeque<MaybeUninit<f64>> whose ring storage WRAPS AROUND: every logical
        // slot must be written (an unchecked write through the first slice aborts under the debug checks)
        type OA = std::collections::VecDeque<f64>;
        let wrapped = |t: String| -> String {
            let w = if t.contains("UNWRITTEN") { "W:missing:wrapped" } else { "W:ok" };
            format!("R:ok;S:ok;{}", w)
        };
        let (view, view2) = (&xs, &ys);
        let res = std::panic::catch_unwind(std::panic::AssertUnwindSafe(|| -> String {
            if super::DRIVERS.contains(&f) {
                match f {
                    "rolling_apply" => crate::__roll_finish_wrapped!(r, len, OA, U, out, view.rolling_apply::<OA, U, _>(w, |_rm, v| v, out)),
                    "rolling_apply_idx" => crate::__roll_finish_wrapped!(r, len, OA, U, out, view.rolling_apply_idx::<OA, U, _>(w, |_s, _e, v| v, out)),
                    "rolling2_apply" => crate::__roll_finish_wrapped!(r, len, OA, U, out, view.rolling2_apply::<OA, U, _, _, _>(view2, w, |_rm, v| v.0 + v.1, out)),
                    "rolling2_apply_idx" => crate::__roll_finish_wrapped!(r, len, OA, U, out, view.rolling2_apply_idx::<OA, U, _, _, _>(view2, w, |_s, _e, v| v.0 + v.1, out)),
                    "rolling_custom" => crate::__roll_finish_wrapped!(r, len, OA, U, out, view.rolling_custom::<OA, U, _>(w, |_sl| 1.0, out)),
                    _ => crate::__roll_finish_wrapped!(r, len, OA, U, out, view.rolling2_custom::<OA, U, _, _, _>(view2, w, |_a, _b| 2.0, out)),
                }
            } else if crate::rollrun::ROLL1_VALID.contains(&f) {
                crate::__roll_finish_wrapped!(r, len, OA, U, out, roll1_valid_call!(f, view, OA, U, out, w, mp, r).unwrap())
            } else if crate::rollrun::ROLL1_PLAIN.contains(&f) {
                crate::__roll_finish_wrapped!(r, len, OA, U, out, roll1_plain_call!(f, view, OA, U, out, w, mp, r).unwrap())
            } else {
                crate::__roll_finish_wrapped!(r, len, OA, U, out, roll2_call!(f, view, view2, OA, U, out, w, mp, r).unwrap())
            }
        }));
        return Some(match res {
            Ok(t) => format!("ok;{}", wrapped(t)),
            Err(_) => "P;R:ok;S:ok;W:ok".to_string(),
        });
    }
    if r.s("p") == "nds" {
        // the caller's buffer is a STRIDED uninitialised ndarray view (every second cell of a sentinel-filled
        // base): every slot of the view must be written, no cell outside it may be
        type OA = crate::backends::Array1<f64>;
        let strided = |t: String| -> String {
            let w = if t.contains("CLOBBERED") { "W:oob:strided" } else if t.contains("UNWRITTEN") { "W:missing:strided" } else { "W:ok" };
            format!("R:ok;S:ok;{}", w)
        };
        let (view, view2) = (&xs, &ys);
        let res = std::panic::catch_unwind(std::panic::AssertUnwindSafe(|| -> String {
            if super::DRIVERS.contains(&f) {
                match f {
                    "rolling_apply" => crate::__roll_finish_strided!(r, len, OA, U, out, view.rolling_apply::<OA, U, _>(w, |_rm, v| v, out)),
                    "rolling_apply_idx" => crate::__roll_finish_strided!(r, len, OA, U, out, view.rolling_apply_idx::<OA, U, _>(w, |_s, _e, v| v, out)),
                    "rolling2_apply" => crate::__roll_finish_strided!(r, len, OA, U, out, view.rolling2_apply::<OA, U, _, _, _>(view2, w, |_rm, v| v.0 + v.1, out)),
                    "rolling2_apply_idx" => crate::__roll_finish_strided!(r, len, OA, U, out, view.rolling2_apply_idx::<OA, U, _, _, _>(view2, w, |_s, _e, v| v.0 + v.1, out)),
                    "rolling_custom" => crate::__roll_finish_strided!(r, len, OA, U, out, view.rolling_custom::<OA, U, _>(w, |_sl| 1.0, out)),
                    _ => crate::__roll_finish_strided!(r, len, OA, U, out, view.rolling2_custom::<OA, U, _, _, _>(view2, w, |_a, _b| 2.0, out)),
                }
            } else if crate::rollrun::ROLL1_VALID.contains(&f) {
                crate::__roll_finish_strided!(r, len, OA, U, out, roll1_valid_call!(f, view, OA, U, out, w, mp, r).unwrap())
            } else if crate::rollrun::ROLL1_PLAIN.contains(&f) {
                crate::__roll_finish_strided!(r, len, OA, U, out, roll1_plain_call!(f, view, OA, U, out, w, mp, r).unwrap())
            } else {
                crate::__roll_finish_strided!(r, len, OA, U, out, roll2_call!(f, view, view2, OA, U, out, w, mp, r).unwrap())
            }
        }));
        return Some(match res {
            Ok(t) => format!("ok;{}", strided(t)),
            Err(_) => "P;R:ok;S:ok;W:ok".to_string(),
        });
    }
    if super::DRIVERS.contains(&f) {
        let with_reads = log_in && !f.contains("custom");
        return Some(on_input!(view, view2 => observed!(with_reads, {
            match f {
                "rolling_apply" => __roll_finish!(r, len, OC, U, out, view.rolling_apply::<OC, U, _>(w, |_rm, v| v, out)),
                "rolling_apply_idx" => __roll_finish!(r, len, OC, U, out, view.rolling_apply_idx::<OC, U, _>(w, |_s, _e, v| v, out)),
                "rolling2_apply" => __roll_finish!(r, len, OC, U, out, view.rolling2_apply::<OC, U, _, _, _>(view2, w, |_rm, v| v.0 + v.1, out)),
                "rolling2_apply_idx" => __roll_finish!(r, len, OC, U, out, view.rolling2_apply_idx::<OC, U, _, _, _>(view2, w, |_s, _e, v| v.0 + v.1, out)),
                "rolling_custom" => __roll_finish!(r, len, OC, U, out, view.rolling_custom::<OC, U, _>(w, |_sl| 1.0, out)),
                _ => __roll_finish!(r, len, OC, U, out, view.rolling2_custom::<OC, U, _, _, _>(view2, w, |_a, _b| 2.0, out)),
            }
        })));
    }
    if crate::rollrun::ROLL1_VALID.contains(&f) {
        return Some(on_input!(view, _v2 => observed!(false, __roll_finish!(r, len, OC, U, out, roll1_valid_call!(f, view, OC, U, out, w, mp, r).unwrap()))));
    }
    if crate::rollrun::ROLL1_PLAIN.contains(&f) {
        return Some(on_input!(view, _v2 => observed!(false, __roll_finish!(r, len, OC, U, out, roll1_plain_call!(f, view, OC, U, out, w, mp, r).unwrap()))));
    }
    if crate::rollrun::ROLL2.contains(&f) {
        return Some(on_input!(view, view2 => observed!(false, __roll_finish!(r, len, OC, U, out, roll2_call!(f, view, view2, OC, U, out, w, mp, r).unwrap()))));
    }
    let kth = r.usize("kth");
    let (sort, rev, pct) = (r.bool("sort"), r.bool("rev"), r.bool("pct"));
    match f {
        "vrank" => Some(on_input!(view, _v2 => observed!(false, {
            let o: OC = view.vrank::<OC, U>(pct, rev);
            crate::proto::toks_iter(o.titer())
        }))),
        // the partition iterators announce a trusted length: write them into an instrumented buffer of
        // exactly that length through the library's own `write_trust_iter` (every slot must be written
        // once; an iterator that runs dry makes the writer panic, which is not an `ok` outcome)
        "varg_partition" => Some(on_input!(view, _v2 => observed!(false, {
            let it = view.varg_partition(kth, sort, rev);
            let n = it.len();
            let mut buf = <LogOut<i32> as Vec1<i32>>::uninit(n);
            { let mut r = <LogOut<i32> as Vec1<i32>>::uninit_ref_mut(&mut buf); it.write(&mut r).unwrap(); }
            let o: LogOut<i32> = unsafe { buf.assume_init() };
            crate::proto::toks_iter(o.titer())
        }))),
        "vpartition" => Some(on_input!(view, _v2 => observed!(false, {
            let it = view.vpartition(kth, sort, rev);
            let n = it.len();
            let mut buf = <OC as Vec1<U>>::uninit(n);
            { let mut r = <OC as Vec1<U>>::uninit_ref_mut(&mut buf); it.write(&mut r).unwrap(); }
            let o: OC = unsafe { buf.assume_init() };
            crate::proto::toks_iter(o.titer())
        }))),
        "vquantile" => Some(on_input!(view, _v2 => observed!(false, {
            let q = r.f64("q");
            let o = view.vquantile(q, QuantileMethod::Linear);
            format!("{:?}", o.map(|x| x.to_bits()).map_err(|_| 0))
        }))),
        _ => None,
    }
}
}

/// impl `outcome;R;S;W[;rd]` vs model `ok|okP;R:ok;S:ok;W:ok[;rd]`
pub fn compare(_r: &Req, imp: &str, model: &str) -> bool {
    if imp == crate::engine::ABORT {
        return false;
    }
    let a: Vec<&str> = imp.split(';').collect();
    let b: Vec<&str> = model.split(';').collect();
    if a.len() < 4 || b.len() < 4 {
        return false;
    }
    let outcome_ok = match b[0] {
        "ok" => a[0] == "ok",
        "okP" => a[0] == "ok" || a[0] == "P",
        "P" => a[0] == "P",
        _ => false,
    };
    if !outcome_ok || a[1] != "R:ok" || a[2] != "S:ok" || a[3] != "W:ok" {
        return false;
    }
    // read set (drivers through the instrumented input only): compared when both sides give one
    if a.len() > 4 && b.len() > 4 && a[0] == "ok" && b[4] != "rd:*" {
        return a[4] == b[4];
    }
    true
}

pub fn valid_case(r: &Req) -> bool {
    r.f == "C10"
}

fn series(len: usize, pat: u32, vals: &[&str], nullable: bool) -> String {
    if len == 0 {
        return "[]".into();
    }
    (0..len).map(|i| if nullable && (pat >> i & 1 == 1) { "_" } else { vals[i % vals.len()] }).collect::<Vec<_>>().join(",")
}

pub fn generate(tier: &str, _rng: &mut Rng) -> (Vec<String>, bool) {
    let maxlen = if tier == "thorough" { 7 } else { 5 };
    let mut out = vec![];
    // raw drivers: every (len, len2, w) incl. w = 0 and a shorter / longer second series
    for f in DRIVERS {
        for len in 0..=maxlen + 1 {
            for w in 0..=len + 3 {
                for input in ["log", "vec", "deque1", "deque2"] {
                    for p in ["ret", "out", "nds", "dqw"] {
                        if (p == "nds" || p == "dqw") && input != "vec" { continue; }
                        let two = f.contains('2');
                        let len2s: Vec<usize> = if two && p != "nds" && p != "dqw" { vec![len, len.saturating_sub(1), len + 1, len + 2, len + 3, 0] } else if two { vec![len, len + 1] } else { vec![len] };
                        for len2 in len2s {
                            // a shorter second series on a real Vec is undefined behaviour caught only by
                            // the debug-profile precondition check (abort): still run it — ABORT is a verdict
                            out.push(format!("C10 f={} in={} p={} w={} mp=- xs={} ys={}", f, input, p, w,
                                series(len, 0, VALS_A, false), series(len2, 0, VALS_B, false)));
                        }
                    }
                }
            }
        }
    }
    // rolling entry points: all null subsets, windows 0..=len+3, every min_periods
    for f in ROLL {
        for len in 0..=maxlen {
            let npat: u32 = if f.nullable { 1 << len } else { 1 };
            for pat in 0..npat {
                for w in 0..=len + 3 {
                    let mut mps: Vec<Option<usize>> = vec![None, Some(0), Some(1), Some(w)];
                    if w >= 2 { mps.push(Some(w / 2)); mps.push(Some(w - 1)); }
                    mps.dedup();
                    for (k, mp) in mps.into_iter().enumerate() {
                        let input = ["log", "vec", "deque1", "log", "vec", "deque3"][(pat as usize + w + k) % 6];
                        let p = if (pat as usize / 2 + w + k) % 2 == 0 { "ret" } else { "out" };
                        // every fifth case on a Vec: the caller's buffer is a strided ndarray view
                        let (input, p) = if input == "vec" && (pat as usize + 2 * w + k) % 5 == 0 { ("vec", "nds") } else { (input, p) };
                        // ... and every fifth case next to those: a VecDeque buffer whose ring storage wraps around
                        let (input, p) = if input == "vec" && p != "nds" && (pat as usize + 2 * w + k) % 5 == 1 { ("vec", "dqw") } else { (input, p) };
                        let mut l = format!("C10 f={} in={} p={} w={} mp={} xs={}{}", f.name, input, p, w, mp_tok(mp), series(len, pat, VALS_A, f.nullable), f.extra);
                        if f.arity == 2 {
                            l.push_str(&format!(" ys={}", series(len, pat.rotate_left(1) ^ (pat >> 1), VALS_B, f.nullable)));
                        }
                        out.push(l);
                    }
                }
            }
        }
    }
    // rank / partition / quantile kernels: ties and nulls everywhere
    let alpha = ["_", "1", "2"];
    for len in 0..=maxlen {
        for s in crate::cases::all_series(&alpha, len) {
            let xs = crate::cases::join(&s);
            for (pct, rev) in [(0, 0), (0, 1), (1, 0), (1, 1)] {
                out.push(format!("C10 f=vrank in=log p=ret pct={} rev={} xs={}", pct, rev, xs));
                if len >= 2 { out.push(format!("C10 f=vrank in=deque1 p=ret pct={} rev={} xs={}", pct, rev, xs)); }
            }
            for kth in 0..=len + 1 {
                for (sort, rev) in [(0, 0), (1, 0), (0, 1), (1, 1)] {
                    out.push(format!("C10 f=varg_partition in=log p=ret kth={} sort={} rev={} xs={}", kth, sort, rev, xs));
                    out.push(format!("C10 f=vpartition in=log p=ret kth={} sort={} rev={} xs={}", kth, sort, rev, xs));
                }
            }
            for q in ["0", "1/4", "1/2", "3/4", "1"] {
                out.push(format!("C10 f=vquantile in=log p=ret q={} xs={}", q, xs));
            }
        }
    }
    (out, true)
}

pub fn rule(tier: &str) -> String {
    let n = if tier == "thorough" { 7 } else { 5 };
    format!("exhaustive: (a) the 6 driver entry points on the instrumented input (LogVec: logs/validates every uget/uslice), on real Vec and on real VecDeque with a rotated (wrapped) ring buffer, returned and caller-buffer paths into the instrumented output (LogOut: counts writes per slot, checked at assume_init), len 0..={}, window 0..=len+3, second series equal / shorter / longer by 1,2,3 / empty, and on a real Vec into a STRIDED uninitialised ndarray view (every second cell of a sentinel-filled base: every slot of the view written, no cell outside it touched); (b) all {} catalogued rolling entry points, every null subset up to len {}, windows 0..=len+3, min_periods in {{omitted,0,1,w/2,w-1,w}} (every fifth Vec case into the strided ndarray view); (c) vrank / varg_partition / vpartition / vquantile over {{null,1,2}}^len (ties, nulls anywhere), kth 0..=len+1, all flags. Oracle applied to the logs: reads < len, 0<=start<=end<=len, every slot written exactly once when the call returns. non-trivial = len >= 2.", n + 1, ROLL.len(), n)
}
