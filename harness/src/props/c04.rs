//! C04: rolling covariance / correlation / regression on x / time-trend regression
use crate::cases::*;
use crate::proto::Req;
use crate::rng::Rng;
pub use imp::run;

/// two-series entry points with one output per position
pub const FNS2: &[&str] = &["ts_vcov", "ts_vcorr", "ts_vregx_alpha", "ts_vregx_beta", "ts_vregx_resid_mean", "ts_vregx_resid_std", "ts_vregx_resid_skew"];
pub const FN_ALL: &str = "ts_vregx_all";
/// single-series trend family
pub const FNS1: &[&str] = &["ts_vreg", "ts_vtsf", "ts_vreg_slope", "ts_vreg_intercept", "ts_vreg_resid_mean"];

/// calls into the repository; the only module that imports the prelude
mod imp {
use std::collections::VecDeque;

use tevec::prelude::*;

use crate::proto::{toks, Req};

/// element types of the first series (f64, Option<f64>, i32, Option<i32>)
macro_rules! with_t1 {
    ($r:expr, $key:expr, $tk:expr, $v:ident => $body:expr) => {{
        let __s = $r.series($key);
        match if $r.s($tk).is_empty() { "f64" } else { $r.s($tk) } {
            "f64" => { let $v = crate::types::as_f64(&__s); $body },
            "of64" => { let $v = crate::types::as_of64(&__s); $body },
            "i32" => { let $v = crate::types::as_i32(&__s); $body },
            "oi32" => { let $v = crate::types::as_oi32(&__s); $body },
            t => panic!("unknown element type {t}"),
        }
    }};
}
/// element types of the second series (f64, Option<f64>)
macro_rules! with_t2 {
    ($r:expr, $key:expr, $tk:expr, $v:ident => $body:expr) => {{
        let __s = $r.series($key);
        match if $r.s($tk).is_empty() { "f64" } else { $r.s($tk) } {
            "f64" => { let $v = crate::types::as_f64(&__s); $body },
            "of64" => { let $v = crate::types::as_of64(&__s); $body },
            t => panic!("unknown second element type {t}"),
        }
    }};
}
macro_rules! with_o {
    ($r:expr, $O:ident => $body:expr) => {{
        match crate::types::out_type($r) {
            "f64" => { type $O = f64; $body },
            "of64" => { type $O = Option<f64>; $body },
            t => panic!("unknown output type {t}"),
        }
    }};
}

fn triple<O: crate::proto::Tok + Clone>(out: &[(O, O, O)]) -> String {
    let a: Vec<O> = out.iter().map(|t| t.0.clone()).collect();
    let b: Vec<O> = out.iter().map(|t| t.1.clone()).collect();
    let c: Vec<O> = out.iter().map(|t| t.2.clone()).collect();
    format!("{};{};{}", toks(&a), toks(&b), toks(&c))
}

/// relational run `c04_big f=<trend fn> n=<len>`: a window of `n` null-free observations (tens of
/// thousands: no exact model value is computed for them). The statistic at the last position of
/// `x[i] = 3 + i/1000 ± 1/2` is compared with a centred two-pass least-squares fit in f64 over the
/// times 1..=n (rel. 1e-6). The integer counters of the kernels (`n`, `n² + n`, `2n + 1` and their
/// products) must not overflow for any window a `usize` length allows in practice. `OK` | `NE:<got>:<want>` | `P`
fn run_big(f: &str, n: usize) -> String {
    let data: Vec<f64> = (0..n).map(|i| 3.0 + 0.001 * i as f64 + if i % 2 == 0 { 0.5 } else { -0.5 }).collect();
    let res = std::panic::catch_unwind(|| -> Option<f64> {
        let out: Vec<f64> = match f {
            "ts_vreg" => data.ts_vreg(n, Some(2)),
            "ts_vtsf" => data.ts_vtsf(n, Some(2)),
            "ts_vreg_slope" => data.ts_vreg_slope(n, Some(2)),
            "ts_vreg_intercept" => data.ts_vreg_intercept(n, Some(2)),
            "ts_vreg_resid_mean" => data.ts_vreg_resid_mean(n, Some(2)),
            _ => return None,
        };
        if out.is_empty() { None } else { Some(out[out.len() - 1]) }
    });
    let got = match res {
        Ok(Some(g)) => g,
        Ok(None) => return "?badcase".into(),
        Err(_) => return "P".into(),
    };
    let nf = n as f64;
    let mut total = 0f64;
    for x in data.iter() {
        total += *x;
    }
    let (mt, mx) = ((nf + 1.) / 2., total / nf);
    let (mut stt, mut stx) = (0f64, 0f64);
    for (i, x) in data.iter().enumerate() {
        let t = (i + 1) as f64 - mt;
        stt += t * t;
        stx += t * (x - mx);
    }
    let slope = stx / stt;
    let intercept = mx - slope * mt;
    let want = match f {
        "ts_vreg" => intercept + slope * nf,
        "ts_vtsf" => intercept + slope * (nf + 1.),
        "ts_vreg_slope" => slope,
        "ts_vreg_intercept" => intercept,
        _ => {
            let mut sse = 0f64;
            for (i, x) in data.iter().enumerate() {
                let e = x - intercept - slope * (i + 1) as f64;
                sse += e * e;
            }
            sse / nf
        },
    };
    if (got - want).abs() <= 1e-6 * want.abs().max(1e-3) { "OK".into() } else { format!("NE:{:e}:{:e}", got, want) }
}

pub fn run(r: &Req) -> Option<String> {
    if r.f == "c04_big" {
        return Some(run_big(r.s("f"), r.usize("n")));
    }
    let w = r.usize("w");
    let mp = r.opt_usize("mp");
    let deque = r.s("b") == "deque";
    let f = r.f.as_str();
    // cross-cutting regimes (every backend / output container / out-buffer path): shared dispatch
    // (also the plain element/output type matrix when both series share one element type `t`)
    if !deque && (crate::rollrun::regime(r) != "types" || !r.has("t2")) {
        if super::FNS1.contains(&f) {
            return Some(crate::roll1_dispatch!(r, with_xs_all, with_xs_f, yes, |view, OC, U, out| crate::roll1_valid_call!(f, view, OC, U, out, w, mp, r).unwrap()));
        }
        if super::FNS2.contains(&f) {
            return Some(crate::roll2_dispatch!(r, |view, view2, OC, U, out| crate::roll2_call!(f, view, view2, OC, U, out, w, mp, r).unwrap()));
        }
    }
    macro_rules! two {
        ($($name:ident),*) => {
            match r.f.as_str() {
                $( stringify!($name) => {
                    if deque {
                        let a: VecDeque<f64> = crate::types::as_f64(&r.series("xs")).into_iter().collect();
                        let b: VecDeque<f64> = crate::types::as_f64(&r.series("ys")).into_iter().collect();
                        let out: Vec<f64> = a.$name(&b, w, mp);
                        return Some(toks(&out));
                    }
                    return Some(with_t1!(r, "xs", "t", a => with_t2!(r, "ys", "t2", b => with_o!(r, O => {
                        let out: Vec<O> = a.$name(&b, w, mp);
                        toks(&out)
                    }))));
                }, )*
                _ => {},
            }
        };
    }
    macro_rules! one {
        ($($name:ident),*) => {
            match r.f.as_str() {
                $( stringify!($name) => {
                    if deque {
                        let a: VecDeque<f64> = crate::types::as_f64(&r.series("xs")).into_iter().collect();
                        let out: Vec<f64> = a.$name(w, mp);
                        return Some(toks(&out));
                    }
                    return Some(with_t1!(r, "xs", "t", a => with_o!(r, O => {
                        let out: Vec<O> = a.$name(w, mp);
                        toks(&out)
                    })));
                }, )*
                _ => {},
            }
        };
    }
    two!(ts_vcov, ts_vcorr, ts_vregx_alpha, ts_vregx_beta, ts_vregx_resid_mean, ts_vregx_resid_std, ts_vregx_resid_skew);
    one!(ts_vreg, ts_vtsf, ts_vreg_slope, ts_vreg_intercept, ts_vreg_resid_mean);
    if r.f == "ts_vregx_all" {
        if deque {
            let a: VecDeque<f64> = crate::types::as_f64(&r.series("xs")).into_iter().collect();
            let b: VecDeque<f64> = crate::types::as_f64(&r.series("ys")).into_iter().collect();
            let out: Vec<(f64, f64, f64)> = a.ts_vregx_all(&b, w, mp);
            return Some(triple(&out));
        }
        return Some(with_t1!(r, "xs", "t", a => with_t2!(r, "ys", "t2", b => with_o!(r, O => {
            let out: Vec<(O, O, O)> = a.ts_vregx_all(&b, w, mp);
            triple(&out)
        }))));
    }
    None
}
}

fn is_two(f: &str) -> bool {
    FNS2.contains(&f) || f == FN_ALL
}

pub fn valid_case(r: &Req) -> bool {
    let f = r.f.as_str();
    if f == "c04_big" {
        return FNS1.contains(&r.s("f")) && r.usize("n") >= 2;
    }
    if !(is_two(f) || FNS1.contains(&f)) {
        return false;
    }
    let w = r.usize("w");
    let xs = r.list("xs");
    let len = xs.len();
    if w < 1 || w > len + 2 {
        return false;
    }
    if let Some(mp) = r.opt_usize("mp") {
        if mp > w {
            return false;
        }
    }
    if is_two(f) && r.list("ys").len() != len {
        return false;
    }
    let t = r.s("t");
    let deque = r.s("b") == "deque";
    let no_null_x = deque || t == "i32";
    let int_x = t == "i32" || t == "oi32";
    if no_null_x && xs.iter().any(|x| *x == "_") {
        return false;
    }
    if int_x && xs.iter().any(|x| x.contains('/')) {
        return false;
    }
    // plain f64 containers represent null as NaN: fine. The deque runs use f64 for both series.
    if deque && (t != "" && t != "f64" || r.s("t2") != "" && r.s("t2") != "f64" || r.s("o") != "" && r.s("o") != "f64") {
        return false;
    }
    if deque != (r.s("sh") == "iter") {
        return false;
    }
    true
}

const T1: &[&str] = &["f64", "of64", "oi32", "i32"];
const T2: &[&str] = &["f64", "of64"];
const OUTS: &[&str] = &["f64", "of64"];

fn has_null(xs: &[String]) -> bool {
    xs.iter().any(|x| x == "_")
}
fn integral(xs: &[String]) -> bool {
    xs.iter().all(|x| !x.contains('/'))
}

/// pick an admissible first-series element type by rotation
fn pick_t1(k: usize, xs: &[String]) -> &'static str {
    for d in 0..T1.len() {
        let t = T1[(k + d) % T1.len()];
        let ok = match t {
            "i32" => !has_null(xs) && integral(xs),
            "oi32" => integral(xs),
            _ => true,
        };
        if ok {
            return t;
        }
    }
    "f64"
}

fn push2(out: &mut Vec<String>, f: &str, xs: &[String], ys: &[String], w: usize, mp: Option<usize>, k: usize) {
    // one case in 8 (null-free first series only... both null-free) goes through the VecDeque backend (iterator driver shape)
    if k % 8 == 7 && !has_null(xs) && !has_null(ys) {
        out.push(format!("{} w={} mp={} b=deque sh=iter xs={} ys={}", f, w, mp_tok(mp), join(xs), join(ys)));
        return;
    }
    let t = pick_t1(k, xs);
    let t2 = T2[(k / 4) % 2];
    let o = OUTS[(k / 8) % 2];
    out.push(format!("{} w={} mp={} t={} t2={} o={} xs={} ys={}", f, w, mp_tok(mp), t, t2, o, join(xs), join(ys)));
}

fn push1(out: &mut Vec<String>, f: &str, xs: &[String], w: usize, mp: Option<usize>, k: usize) {
    if k % 8 == 7 && !has_null(xs) {
        out.push(format!("{} w={} mp={} b=deque sh=iter xs={}", f, w, mp_tok(mp), join(xs)));
        return;
    }
    let t = pick_t1(k, xs);
    let o = OUTS[(k / 4) % 2];
    out.push(format!("{} w={} mp={} t={} o={} xs={}", f, w, mp_tok(mp), t, o, join(xs)));
}

/// all pairs of equal-length series: positions drawn from `alpha` (pairs of tokens)
fn all_pair_series(alpha: &[(&str, &str)], len: usize) -> Vec<(Vec<String>, Vec<String>)> {
    let mut out: Vec<(Vec<String>, Vec<String>)> = vec![(vec![], vec![])];
    for _ in 0..len {
        let mut nxt = Vec::with_capacity(out.len() * alpha.len());
        for (a, b) in &out {
            for (x, y) in alpha {
                let mut a2 = a.clone();
                let mut b2 = b.clone();
                a2.push(x.to_string());
                b2.push(y.to_string());
                nxt.push((a2, b2));
            }
        }
        out = nxt;
    }
    out
}

fn all_mps(w: usize) -> Vec<Option<usize>> {
    let mut mps: Vec<Option<usize>> = vec![None];
    mps.extend((0..=w).map(Some));
    mps
}

/// random dyadic value with |v| <= mag, restricted to integers when `int`
fn null_mask(rng: &mut Rng, len: usize) -> Vec<bool> {
    let pat = rng.below(8);
    let blk = rng.below(len + 1);
    (0..len)
        .map(|i| match pat {
            1 => i < blk,
            2 => i >= len - blk,
            3 => i % 2 == 0,
            4 => rng.chance(0.1),
            5 => rng.chance(0.5),
            6 => rng.chance(0.85),
            _ => false,
        })
        .collect()
}

fn apply_mask(v: Vec<String>, m: &[bool]) -> Vec<String> {
    v.into_iter().zip(m.iter()).map(|(x, n)| if *n { "_".to_string() } else { x }).collect()
}

fn frac(k: i64) -> String {
    // k/8 in lowest terms
    if k % 8 == 0 {
        format!("{}", k / 8)
    } else {
        let mut g = 8;
        while k % g != 0 {
            g /= 2;
        }
        format!("{}/{}", k / g, 8 / g)
    }
}

/// structured random pair of series (first = y, second = x)
fn rand_pair(rng: &mut Rng, len: usize) -> (Vec<String>, Vec<String>) {
    let pat = rng.below(6);
    let (ys, xs): (Vec<String>, Vec<String>) = match pat {
        // perfect line y = a + b x on integer x
        0 => {
            let a = rng.range(-16, 16);
            let b8 = *rng.pick(&[-16i64, -8, -4, 0, 4, 8, 16]);
            let xv: Vec<i64> = (0..len).map(|_| rng.range(-6, 6)).collect();
            (xv.iter().map(|x| frac(a + b8 * x)).collect(), xv.iter().map(|x| x.to_string()).collect())
        },
        // constant x (collinear design), random y
        1 => {
            let c = rand_val(rng, 4, false);
            ((0..len).map(|_| rand_val(rng, 8, false)).collect(), (0..len).map(|_| c.clone()).collect())
        },
        // both constant
        2 => {
            let c = rand_val(rng, 4, false);
            let d = rand_val(rng, 4, false);
            ((0..len).map(|_| d.clone()).collect(), (0..len).map(|_| c.clone()).collect())
        },
        // tiny integer alphabet: many ties, frequent collinearity
        3 => ((0..len).map(|_| rng.range(0, 2).to_string()).collect(), (0..len).map(|_| rng.range(0, 2).to_string()).collect()),
        // line plus a few outliers
        4 => {
            let a = rng.range(-8, 8);
            let b = rng.range(-2, 2);
            let xv: Vec<i64> = (0..len).map(|_| rng.range(-6, 6)).collect();
            (xv.iter().map(|x| { let e = if rng.chance(0.2) { rng.range(-3, 3) } else { 0 }; (a + b * x + e).to_string() }).collect(),
             xv.iter().map(|x| x.to_string()).collect())
        },
        _ => ((0..len).map(|_| rand_val(rng, 8, false)).collect(), (0..len).map(|_| rand_val(rng, 8, false)).collect()),
    };
    let my = null_mask(rng, len);
    let mx = null_mask(rng, len);
    (apply_mask(ys, &my), apply_mask(xs, &mx))
}

/// structured random single series for the trend family
fn rand_trend(rng: &mut Rng, len: usize) -> Vec<String> {
    let pat = rng.below(4);
    let v: Vec<String> = match pat {
        // perfect line in the position index
        0 => {
            let a = rng.range(-16, 16);
            let b8 = *rng.pick(&[-16i64, -8, -4, -1, 0, 1, 4, 8, 16]);
            (0..len as i64).map(|k| frac(a + b8 * k)).collect()
        },
        1 => {
            let c = rand_val(rng, 8, false);
            (0..len).map(|_| c.clone()).collect()
        },
        2 => (0..len).map(|_| rng.range(0, 2).to_string()).collect(),
        _ => (0..len).map(|_| rand_val(rng, 8, false)).collect(),
    };
    if pat == 0 && rng.chance(0.5) {
        return v;
    }
    let m = null_mask(rng, len);
    apply_mask(v, &m)
}

/// complete and half-null positions used by the longer enumerations
const P5: &[(&str, &str)] = &[("_", "1"), ("2", "_"), ("0", "0"), ("1", "2"), ("2", "1")];

pub fn generate(tier: &str, rng: &mut Rng) -> (Vec<String>, bool) {
    let mut out = vec![];
    let thorough = tier == "thorough";
    // long windows (relational run): around the length from which 2n^4 no longer fits a usize (55 109), and beyond
    for f in FNS1 {
        for n in [9_000usize, 55_108, 55_109, 56_000].iter().chain(if thorough { [120_000usize, 400_000].iter() } else { [].iter() }) {
            out.push(format!("c04_big f={} n={}", f, n));
        }
    }
    let vals = ["_", "0", "1", "2"];
    let mut p16: Vec<(&str, &str)> = vec![];
    for a in vals {
        for b in vals {
            p16.push((a, b));
        }
    }
    let fns2: Vec<&str> = FNS2.iter().cloned().chain(std::iter::once(FN_ALL)).collect();
    // --- exhaustive stream A: every pair of series over {_,0,1,2}^2, len 0..=2 (thorough: 3), every w, every mp
    let full_len = if thorough { 3 } else { 2 };
    for len in 0..=full_len {
        let ps = all_pair_series(&p16, len);
        for w in 1..=len + 2 {
            for mp in all_mps(w) {
                for (fi, f) in fns2.iter().enumerate() {
                    for (si, (a, b)) in ps.iter().enumerate() {
                        push2(&mut out, f, a, b, w, mp, si + fi + w);
                    }
                }
            }
        }
    }
    // --- exhaustive stream B (quick): len 3 over {_,0,1,2}^2, w in 1..=4 (w = 4, 5 see the same windows),
    //     mp = 0 (nothing masked: the value of every window is observed)
    if !thorough {
        let ps = all_pair_series(&p16, 3);
        for w in 1..=4 {
            for mp in [Some(0)] {
                for (fi, f) in fns2.iter().enumerate() {
                    for (si, (a, b)) in ps.iter().enumerate() {
                        push2(&mut out, f, a, b, w, mp, si + fi + w);
                    }
                }
            }
        }
    }
    // --- exhaustive stream C: len 4 (thorough: 4 and 5) over the 5-symbol position alphabet P5, every w,
    //     mp in {omitted, 0, w} (thorough: every mp)
    let c_lens: &[usize] = if thorough { &[4, 5] } else { &[4] };
    for &len in c_lens {
        let ps = all_pair_series(P5, len);
        for w in 1..=(if thorough { len + 2 } else { len + 1 }) {
            let mps = if thorough && len == 4 { all_mps(w) } else { vec![None, Some(0), Some(w)] };
            for mp in mps {
                for (fi, f) in fns2.iter().enumerate() {
                    for (si, (a, b)) in ps.iter().enumerate() {
                        push2(&mut out, f, a, b, w, mp, si + fi + w);
                    }
                }
            }
        }
    }
    // --- exhaustive stream D: trend family, every series over {_,0,1,3} (thorough: {_,-2,0,1,3}) up to len 4 (6)
    let (alpha_t, max_t): (&[&str], usize) = if thorough { (&["_", "-2", "0", "1", "3"], 5) } else { (&["_", "0", "1", "3"], 4) };
    for len in 0..=max_t {
        let ss = all_series(alpha_t, len);
        for w in 1..=len + 2 {
            for mp in all_mps(w) {
                for (fi, f) in FNS1.iter().enumerate() {
                    for (si, xs) in ss.iter().enumerate() {
                        push1(&mut out, f, xs, w, mp, si + fi + w);
                    }
                }
            }
        }
    }
    // --- structured random stream
    let n_rand = if thorough { 30000 } else { 6000 };
    let max_len = if thorough { 100 } else { 60 };
    for i in 0..n_rand {
        let len = if rng.chance(0.7) { rng.below(20) } else { rng.below(max_len + 1) };
        let w = 1 + rng.below(len + 2);
        let mp = if rng.chance(0.25) { None } else { Some(rng.below(w + 1)) };
        if rng.chance(0.65) {
            let (a, b) = rand_pair(rng, len);
            let f = fns2[rng.below(fns2.len())];
            push2(&mut out, f, &a, &b, w, mp, i);
        } else {
            let xs = rand_trend(rng, len);
            let f = FNS1[rng.below(FNS1.len())];
            push1(&mut out, f, &xs, w, mp, i);
        }
    }
    // the same requests as small fluctuations around a large level (1024 + v/128)
    crate::cases::add_leveled(&mut out, 11, 1024, &["xs", "ys"]);
    // the same requests at scales 2^-12 .. 2^-15: variances a few orders of magnitude above EPS
    crate::cases::add_scaled(&mut out, 9, &[12, 13, 14, 15], &["xs", "ys"]);
    // … and far below it (2^-27 ~ 7e-9, 2^-33): the regressions have no variance floor, so an
    // absolute threshold on a denominator shows as NaN against the exact value; both series, then
    // the second (the regressor) alone
    let n0 = out.len();
    crate::cases::add_scaled(&mut out, 7, &[27, 33], &["xs", "ys"]);
    let mut only_y: Vec<String> = out[..n0].to_vec();
    let m0 = only_y.len();
    crate::cases::add_scaled(&mut only_y, 11, &[27, 30], &["ys"]);
    out.extend(only_y.drain(m0..));
    (out, true)
}

pub fn rule(tier: &str) -> String {
    let thorough = tier == "thorough";
    format!(
        "13 entry points (ts_vcov, ts_vcorr, 6 ts_vregx_*, 5 trend ts_vreg*/ts_vtsf) on Vec input (two-phase driver) with element types rotated over f64/Option<f64>/i32/Option<i32> x f64/Option<f64>, outputs f64/Option<f64>, and 1 case in 8 of the null-free ones on VecDeque (iterator driver). Relational run c04_big: the five trend statistics at the end of a null-free window of 9 000 / 55 108 / 55 109 / 56 000 observations (thorough: also 120 000 and 400 000) against a centred two-pass least-squares fit in f64 (counters n, n^2+n, 2n+1 and their products must not overflow; F48). \
Exhaustive streams: (A) every pair of equal-length series over {{null,0,1,2}}^2 up to length {}, every window 1..=len+2, every min_periods in {{omitted}} U 0..=w, all 8 two-series functions; {}\
(C) every pair of series of length {} over the 5 positions {{(null,1),(2,null),(0,0),(1,2),(2,1)}} (independent null patterns, a non-collinear triple), every window 1..=len+{}, min_periods {}; \
(D) trend family: every series over {} up to length {}, every window 1..=len+2, every min_periods. \
Random stream: lengths up to {}, values k/8 with |k|<=64, independent null masks on both series (8 patterns), designs: perfect line, constant x, both constant, tiny alphabet, line + outliers, unstructured; trend: perfect line in the index, constant, tiny alphabet, unstructured. \
Every 11th request is repeated around the level 1024 (v/128 fluctuations), every 9th at scales 2^-12..2^-15, every 7th at 2^-27 / 2^-33 and every 11th with the second series alone at 2^-27 / 2^-30 (exact in f64 and in the model; no regression has a variance floor). Every output position is compared, so every prefix history is covered. non-trivial = distinct request with >= 2 input elements and >= 1 non-null output.",
        if thorough { 3 } else { 2 },
        if thorough { "" } else { "(B) the same pairs at length 3, windows 1..=4, min_periods 0 (nothing masked); " },
        if thorough { "4 and 5" } else { "4" },
        if thorough { 2 } else { 1 },
        if thorough { "all at length 4, {omitted, 0, w} at length 5" } else { "in {omitted, 0, w}" },
        if thorough { "{null,-2,0,1,3}" } else { "{null,0,1,3}" },
        if thorough { 5 } else { 4 },
        if thorough { 100 } else { 60 })
}
