//! C15: null and cast algebra (tea-dtype: isnone.rs, cast.rs, number.rs)
//!
//! Three request kinds, all values are exact tokens (see `Val`):
//!   c15_null ty=<T> v=<x>                 every `IsNone` observer of the instance
//!   c15_cast s=<S> d=<D> v=<x>            `Cast::cast` ; the language's own conversion lifted by the
//!                                         property's null rule (harness oracle, `*` = property silent)
//!   c15_ord  ty=<T> p=<x> q=<y> r=<z>     sort_cmp / sort_cmp_rev on all pairs of the triple + the
//!                                         triple sorted by `slice::sort_by` with either comparator
//! Type names: u8 u64 i64 i32 f32 f64 usize isize bool str sref dt td time, `o<T>` = Option<T>.
//! Value tokens: integers decimal; floats `nan` `inf` `-inf` `<m>p<e>` (= m*2^e, canonical: m odd);
//! bool `true`/`false`; Option `_` or the inner token; strings literal; DateTime/Time `nat` or the raw
//! i64; TimeDelta `nat` or `<months>m<nanos>`.  `P` = panic.
use crate::proto::Req;
use crate::rng::Rng;
pub use imp::run;

include!("c15_gen.rs");

pub const NUM: &[&str] = &["u8", "u64", "i64", "i32", "f32", "f64", "usize", "isize"];

pub fn split_ty(t: &str) -> (bool, &str) {
    const BASES: &[&str] = &["u8", "u64", "i64", "i32", "f32", "f64", "usize", "isize", "bool", "str", "sref", "dt", "td", "time"];
    if let Some(rest) = t.strip_prefix('o') {
        if BASES.contains(&rest) {
            return (true, rest);
        }
    }
    (false, t)
}

// ------------------------------------------------------------------------------------------
// exact float tokens
// ------------------------------------------------------------------------------------------
pub fn ldexp(mut x: f64, mut e: i32) -> f64 {
    while e > 0 {
        let k = e.min(1000);
        x *= f64::from_bits(((1023 + k) as u64) << 52);
        e -= k;
    }
    while e < 0 {
        let k = (-e).min(1000);
        x *= f64::from_bits(((1023 - k) as u64) << 52);
        e += k;
    }
    x
}

pub fn f64_tok(x: f64) -> String {
    if x.is_nan() {
        "nan".into()
    } else if x == f64::INFINITY {
        "inf".into()
    } else if x == f64::NEG_INFINITY {
        "-inf".into()
    } else if x == 0.0 {
        "0p0".into()
    } else {
        let bits = x.to_bits();
        let neg = bits >> 63 == 1;
        let ex = ((bits >> 52) & 0x7ff) as i32;
        let fr = bits & ((1u64 << 52) - 1);
        let (mut m, mut e) = if ex == 0 { (fr, -1074) } else { (fr | (1u64 << 52), ex - 1075) };
        let tz = m.trailing_zeros();
        m >>= tz;
        e += tz as i32;
        format!("{}{}p{}", if neg { "-" } else { "" }, m, e)
    }
}

pub fn f64_parse(t: &str) -> Option<f64> {
    match t {
        "nan" => return Some(f64::NAN),
        "inf" => return Some(f64::INFINITY),
        "-inf" => return Some(f64::NEG_INFINITY),
        "-0p0" => return Some(-0.0),
        _ => {},
    }
    let (m, e) = t.split_once('p')?;
    let m: i128 = m.parse().ok()?;
    let e: i32 = e.parse().ok()?;
    if m.unsigned_abs() > (1u128 << 53) {
        return None;
    }
    let x = ldexp(m as f64, e);
    // the token must denote a representable value (generators only emit such tokens)
    if x.is_finite() && (m == 0 || x != 0.0) { Some(x) } else { None }
}

// ------------------------------------------------------------------------------------------
// everything that calls into the repository
// ------------------------------------------------------------------------------------------
mod imp {
use std::panic::{catch_unwind, AssertUnwindSafe};

use tevec::prelude::unit::Nanosecond;
use tevec::prelude::{Cast, DateTime, IntoCast, IsNone, Number, Time, TimeDelta};

use super::{f64_parse, f64_tok, split_ty};
use crate::proto::Req;

type Dt = DateTime<Nanosecond>;

/// a value of one of the element types as an exact protocol token
pub trait Val: Sized + Clone {
    fn vparse(t: &str) -> Option<Self>;
    fn vtok(&self) -> String;
}
macro_rules! val_int { ($($t:ty),*) => { $( impl Val for $t {
    fn vparse(t: &str) -> Option<Self> { t.parse().ok() }
    fn vtok(&self) -> String { self.to_string() }
} )* } }
val_int!(u8, u64, i64, i32, usize, isize);
impl Val for f64 {
    fn vparse(t: &str) -> Option<Self> { f64_parse(t) }
    fn vtok(&self) -> String { f64_tok(*self) }
}
impl Val for f32 {
    fn vparse(t: &str) -> Option<Self> {
        let x = f64_parse(t)?;
        let y = x as f32;
        if x.is_nan() || (y as f64) == x { Some(y) } else { None }
    }
    fn vtok(&self) -> String { f64_tok(*self as f64) }
}
impl Val for bool {
    fn vparse(t: &str) -> Option<Self> { match t { "true" => Some(true), "false" => Some(false), _ => None } }
    fn vtok(&self) -> String { self.to_string() }
}
/// string tokens carry white space escaped (`%s` space, `%t` tab, `%n` newline): the line
/// protocol splits on blanks; the model sees the escaped spelling (an opaque, non-null string
/// that parses as nothing — exactly what `" None"` / `" 1"` are to Rust's `parse`)
pub fn str_unescape(t: &str) -> String {
    t.replace("%s", " ").replace("%t", "\t").replace("%n", "\n")
}
pub fn str_escape(t: &str) -> String {
    t.replace(' ', "%s").replace('\t', "%t").replace('\n', "%n")
}
impl Val for String {
    fn vparse(t: &str) -> Option<Self> { if t == "_" || t.is_empty() { None } else { Some(str_unescape(t)) } }
    fn vtok(&self) -> String { str_escape(self) }
}
impl Val for &'static str {
    fn vparse(t: &str) -> Option<Self> { if t == "_" || t.is_empty() { None } else { Some(Box::leak(str_unescape(t).into_boxed_str())) } }
    fn vtok(&self) -> String { str_escape(self) }
}
impl<T: Val> Val for Option<T> {
    fn vparse(t: &str) -> Option<Self> { if t == "_" { Some(None) } else { T::vparse(t).map(Some) } }
    fn vtok(&self) -> String { match self { None => "_".into(), Some(v) => v.vtok() } }
}
impl Val for Dt {
    fn vparse(t: &str) -> Option<Self> { if t == "nat" { Some(Dt::nat()) } else { t.parse::<i64>().ok().filter(|r| *r != i64::MIN).map(Dt::new) } }
    fn vtok(&self) -> String { if self.0 == i64::MIN { "nat".into() } else { self.0.to_string() } }
}
impl Val for Time {
    fn vparse(t: &str) -> Option<Self> { if t == "nat" { Some(Time::nat()) } else { t.parse::<i64>().ok().filter(|r| *r != i64::MIN).map(Time) } }
    fn vtok(&self) -> String { if self.0 == i64::MIN { "nat".into() } else { self.0.to_string() } }
}
impl Val for TimeDelta {
    fn vparse(t: &str) -> Option<Self> {
        if t == "nat" {
            return Some(TimeDelta::nat());
        }
        let (m, n) = t.split_once('m')?;
        let months: i32 = m.parse().ok()?;
        let nanos: i64 = n.parse().ok()?;
        if months == i32::MIN { None } else { Some(TimeDelta { months, inner: chrono::Duration::nanoseconds(nanos) }) }
    }
    fn vtok(&self) -> String {
        if self.months == i32::MIN {
            "nat".into()
        } else {
            match self.inner.num_nanoseconds() { Some(n) => format!("{}m{}", self.months, n), None => format!("{}m?", self.months) }
        }
    }
}

/// result of the harness-side oracle: a value, a panic, or "the property is silent here"
pub enum L<T> { V(T), P, Any }
impl<T: Val> L<T> {
    fn vtok(&self) -> String { match self { L::V(v) => v.vtok(), L::P => "P".into(), L::Any => "*".into() } }
}

/// language-level view of a type, written without the repository's traits: which values are the
/// null of the type (NaN / "None"), what the null is, and the conversion from a raw i64
pub trait Lang: Sized {
    fn lang_is_null(&self) -> bool { false }
    fn lang_null() -> Option<Self> { None }
}
macro_rules! lang_plain { ($($t:ty),*) => { $( impl Lang for $t {} )* } }
lang_plain!(u8, u64, i64, i32, usize, isize, bool);
impl Lang for f64 { fn lang_is_null(&self) -> bool { self != self } fn lang_null() -> Option<Self> { Some(f64::NAN) } }
impl Lang for f32 { fn lang_is_null(&self) -> bool { self != self } fn lang_null() -> Option<Self> { Some(f32::NAN) } }
impl Lang for String { fn lang_is_null(&self) -> bool { self == "None" } fn lang_null() -> Option<Self> { Some("None".to_string()) } }

fn catch<R>(f: impl FnOnce() -> R) -> Option<R> {
    catch_unwind(AssertUnwindSafe(f)).ok()
}
fn t<V: Val>(o: Option<V>) -> String {
    o.map(|v| v.vtok()).unwrap_or_else(|| "P".into())
}
fn b(x: bool) -> String {
    if x { "1".into() } else { "0".into() }
}
fn to_bool(x: i128) -> L<bool> {
    match x { 0 => L::V(false), 1 => L::V(true), _ => L::Any }
}

// ---- c15_null ----------------------------------------------------------------------------
fn null_obs<T>(x: &T) -> Vec<String>
where
    T: IsNone + Val,
    T::Inner: Val,
{
    vec![
        b(x.is_none()),
        b(x.not_none()),
        x.clone().to_opt().vtok(),
        x.as_opt().cloned().vtok(),
        t(catch(|| T::from_opt(x.clone().to_opt()))),
        t(catch(|| T::from_inner(IsNone::unwrap(x.clone())))),
        t(catch(|| T::none())),
        catch(|| T::none().is_none()).map(b).unwrap_or_else(|| "P".into()),
        t(catch(|| IsNone::map::<_, T>(x.clone(), |v| v))),
        t(catch(|| IsNone::map::<_, Option<T::Inner>>(x.clone(), |v| v))),
        t(catch(|| IsNone::map::<_, T::Inner>(x.clone(), |v| v))),
    ]
}
fn vabs_obs<T>(x: &T) -> Vec<String>
where
    T: IsNone + Val,
    T::Inner: Number,
{
    let r = catch(|| x.clone().vabs());
    vec![r.as_ref().map(|v| b(v.is_none())).unwrap_or_else(|| "P".into()), t(r)]
}
fn into_obs<X>(x: &X) -> Vec<String>
where
    X: IntoCast + Val,
    f64: Cast<X>,
{
    vec![t(catch(|| x.clone().into_cast::<f64>())), t(catch(|| x.clone().into_cast::<Option<f64>>()))]
}
fn na2() -> Vec<String> {
    vec!["na".into(), "na".into()]
}
fn fin(gs: Vec<Vec<String>>) -> Option<String> {
    Some(gs.into_iter().flatten().collect::<Vec<_>>().join(";"))
}

fn run_null(ty: &str, v: &str) -> Option<String> {
    macro_rules! num { ($T:ty) => {{ let x = <$T>::vparse(v)?; fin(vec![null_obs(&x), vabs_obs(&x), into_obs(&x)]) }} }
    macro_rules! plain { ($T:ty) => {{ let x = <$T>::vparse(v)?; fin(vec![null_obs(&x), na2(), into_obs(&x)]) }} }
    macro_rules! onum { ($T:ty) => {{ let x = <Option<$T>>::vparse(v)?; fin(vec![null_obs(&x), vabs_obs(&x), na2()]) }} }
    macro_rules! oplain { ($T:ty) => {{ let x = <Option<$T>>::vparse(v)?; fin(vec![null_obs(&x), na2(), na2()]) }} }
    match ty {
        "f32" => num!(f32), "f64" => num!(f64), "i32" => num!(i32), "i64" => num!(i64), "u64" => num!(u64), "usize" => num!(usize),
        "u8" => plain!(u8), "isize" => plain!(isize), "bool" => plain!(bool), "str" => plain!(String),
        "dt" => plain!(Dt), "td" => plain!(TimeDelta), "time" => plain!(Time),
        "sref" => { let x = <&'static str>::vparse(v)?; fin(vec![null_obs(&x), na2(), na2()]) },
        "of32" => onum!(f32), "of64" => onum!(f64), "oi32" => onum!(i32), "oi64" => onum!(i64), "ou64" => onum!(u64), "ousize" => onum!(usize),
        "ou8" => oplain!(u8), "oisize" => oplain!(isize), "obool" => oplain!(bool), "ostr" => oplain!(String),
        "odt" => oplain!(Dt), "otd" => oplain!(TimeDelta), "otime" => oplain!(Time),
        _ => None,
    }
}

// ---- c15_ord -----------------------------------------------------------------------------
fn ord_tok(o: std::cmp::Ordering) -> &'static str {
    match o { std::cmp::Ordering::Less => "lt", std::cmp::Ordering::Equal => "eq", std::cmp::Ordering::Greater => "gt" }
}
fn ord_obs<T>(a: T, bb: T, c: T) -> Option<String>
where
    T: IsNone + Val,
    T::Inner: PartialOrd,
{
    let cmp = |x: &T, y: &T| catch(|| x.sort_cmp(y)).map(ord_tok).unwrap_or("P").to_string();
    let rev = |x: &T, y: &T| catch(|| x.sort_cmp_rev(y)).map(ord_tok).unwrap_or("P").to_string();
    let pairs: [(&T, &T); 9] = [(&a, &a), (&a, &bb), (&a, &c), (&bb, &a), (&bb, &bb), (&bb, &c), (&c, &a), (&c, &bb), (&c, &c)];
    let g1: Vec<String> = pairs.iter().map(|(x, y)| cmp(x, y)).collect();
    let g2: Vec<String> = pairs.iter().map(|(x, y)| rev(x, y)).collect();
    let s1 = catch(|| { let mut v = vec![a.clone(), bb.clone(), c.clone()]; v.sort_by(|x, y| x.sort_cmp(y)); v });
    let s2 = catch(|| { let mut v = vec![a.clone(), bb.clone(), c.clone()]; v.sort_by(|x, y| x.sort_cmp_rev(y)); v });
    let st = |s: Option<Vec<T>>| s.map(|v| v.iter().map(|x| x.vtok()).collect::<Vec<_>>().join(",")).unwrap_or_else(|| "P".into());
    Some(format!("{};{};{};{}", g1.join(","), g2.join(","), st(s1), st(s2)))
}
fn run_ord(ty: &str, a: &str, bb: &str, c: &str) -> Option<String> {
    macro_rules! go { ($T:ty) => { ord_obs::<$T>(<$T>::vparse(a)?, <$T>::vparse(bb)?, <$T>::vparse(c)?) } }
    match ty {
        "f32" => go!(f32), "f64" => go!(f64), "i32" => go!(i32), "i64" => go!(i64), "u8" => go!(u8), "u64" => go!(u64),
        "usize" => go!(usize), "isize" => go!(isize), "bool" => go!(bool), "str" => go!(String), "sref" => go!(&'static str),
        "dt" => go!(Dt), "td" => go!(TimeDelta), "time" => go!(Time),
        "of32" => go!(Option<f32>), "of64" => go!(Option<f64>), "oi32" => go!(Option<i32>), "oi64" => go!(Option<i64>),
        "ou8" => go!(Option<u8>), "ou64" => go!(Option<u64>), "ousize" => go!(Option<usize>), "oisize" => go!(Option<isize>),
        "obool" => go!(Option<bool>), "ostr" => go!(Option<String>), "odt" => go!(Option<Dt>), "otime" => go!(Option<Time>), "otd" => go!(Option<TimeDelta>),
        _ => None,
    }
}

// ---- c15_cast ----------------------------------------------------------------------------
/// the four arms of one (T, U) pair; `conv` is the language's own conversion of a non-null value
fn arms4<T, U>(so: bool, d_o: bool, v: &str, conv: fn(T) -> L<U>) -> Option<String>
where
    T: Val + Lang + Cast<U> + Cast<Option<U>>,
    Option<T>: Cast<U> + Cast<Option<U>>,
    U: Val + Lang,
{
    let lift = |r: L<U>| -> L<Option<U>> { match r { L::V(u) => L::V(Some(u)), L::P => L::P, L::Any => L::Any } };
    Some(match (so, d_o) {
        (false, false) => {
            let x = T::vparse(v)?;
            let c = catch(|| Cast::<U>::cast(x.clone()));
            // property: a null stays a null when the target can represent one; otherwise silent
            let l = if x.lang_is_null() { match U::lang_null() { Some(n) => L::V(n), None => L::Any } } else { catch(|| conv(x)).unwrap_or(L::P) };
            format!("{};{}", t(c), l.vtok())
        },
        (false, true) => {
            let x = T::vparse(v)?;
            let c = catch(|| Cast::<Option<U>>::cast(x.clone()));
            let l = if x.lang_is_null() { L::V(None) } else { lift(catch(|| conv(x)).unwrap_or(L::P)) };
            format!("{};{}", t(c), l.vtok())
        },
        (true, true) => {
            let x = <Option<T>>::vparse(v)?;
            let c = catch(|| Cast::<Option<U>>::cast(x.clone()));
            let l = match x { None => L::V(None), Some(y) => lift(catch(|| conv(y)).unwrap_or(L::P)) };
            format!("{};{}", t(c), l.vtok())
        },
        (true, false) => {
            let x = <Option<T>>::vparse(v)?;
            let c = catch(|| Cast::<U>::cast(x.clone()));
            let l = match x { None => match U::lang_null() { Some(n) => L::V(n), None => L::Any }, Some(y) => catch(|| conv(y)).unwrap_or(L::P) };
            format!("{};{}", t(c), l.vtok())
        },
    })
}

/// T -> String and Option<T> -> String against the language's own `to_string`
fn to_str_arms<T>(so: bool, v: &str) -> Option<String>
where
    T: Val + Lang + ToString + Cast<String>,
    Option<T>: Cast<String>,
{
    Some(if so {
        let x = <Option<T>>::vparse(v)?;
        let c = catch(|| Cast::<String>::cast(x.clone()));
        let l = match x { None => "None".to_string(), Some(y) => str_escape(&y.to_string()) };
        format!("{};{}", t(c), l)
    } else {
        let x = T::vparse(v)?;
        let c = catch(|| Cast::<String>::cast(x.clone()));
        let l = if x.lang_is_null() { "None".to_string() } else { str_escape(&x.to_string()) };
        format!("{};{}", t(c), l)
    })
}

/// String / &str -> T and -> Option<T> against the language's own `str::parse`
fn from_str_arms<T>(sb: &str, d_o: bool, v: &str) -> Option<String>
where
    T: Val + Lang + std::str::FromStr,
    String: Cast<T> + Cast<Option<T>>,
    &'static str: Cast<T> + Cast<Option<T>>,
{
    let s = String::vparse(v)?;
    let sr = <&'static str>::vparse(v)?;
    let parsed = |s: &str| -> L<T> { match s.parse::<T>() { Ok(x) => L::V(x), Err(_) => L::P } };
    Some(if d_o {
        let c = if sb == "str" { catch(|| Cast::<Option<T>>::cast(s.clone())) } else { catch(|| Cast::<Option<T>>::cast(sr)) };
        let l: L<Option<T>> = if s == "None" { L::V(None) } else { match parsed(&s) { L::V(x) => L::V(Some(x)), _ => L::P } };
        format!("{};{}", t(c), l.vtok())
    } else {
        let c = if sb == "str" { catch(|| Cast::<T>::cast(s.clone())) } else { catch(|| Cast::<T>::cast(sr)) };
        let l: L<T> = if s == "None" { match T::lang_null() { Some(n) => L::V(n), None => L::Any } } else { parsed(&s) };
        format!("{};{}", t(c), l.vtok())
    })
}

/// T / Option<T> -> DateTime, TimeDelta, Time; `raw` is the language's `as i64`
fn to_time_arms<T>(so: bool, db: &str, v: &str, raw: fn(T) -> i64) -> Option<String>
where
    T: Val + Lang + Cast<Dt> + Cast<TimeDelta> + Cast<Time>,
    Option<T>: Cast<Dt> + Cast<TimeDelta> + Cast<Time>,
{
    // oracle: null -> NaT, otherwise the raw i64 (the in-band sentinel i64::MIN *is* NaT)
    let (c, r): (String, Option<i64>) = if so {
        let x = <Option<T>>::vparse(v)?;
        let c = match db {
            "dt" => t(catch(|| Cast::<Dt>::cast(x.clone()))),
            "td" => t(catch(|| Cast::<TimeDelta>::cast(x.clone()))),
            "time" => t(catch(|| Cast::<Time>::cast(x.clone()))),
            _ => return None,
        };
        (c, x.map(raw))
    } else {
        let x = T::vparse(v)?;
        let c = match db {
            "dt" => t(catch(|| Cast::<Dt>::cast(x.clone()))),
            "td" => t(catch(|| Cast::<TimeDelta>::cast(x.clone()))),
            "time" => t(catch(|| Cast::<Time>::cast(x.clone()))),
            _ => return None,
        };
        (c, if x.lang_is_null() { None } else { Some(raw(x)) })
    };
    let l = match r {
        None => "nat".to_string(),
        Some(i64::MIN) => "nat".to_string(),
        Some(k) => if db == "td" { format!("0m{}", k) } else { k.to_string() },
    };
    Some(format!("{};{}", c, l))
}

/// raw i64 of a time value as its `Cast<i64>` is documented: DateTime / Time the stored integer,
/// TimeDelta whole microseconds (months must be 0)
trait TimeVal: Val {
    fn is_nat_(&self) -> bool;
    fn raw_(&self) -> L<i64>;
}
impl TimeVal for Dt { fn is_nat_(&self) -> bool { self.0 == i64::MIN } fn raw_(&self) -> L<i64> { L::V(self.0) } }
impl TimeVal for Time { fn is_nat_(&self) -> bool { self.0 == i64::MIN } fn raw_(&self) -> L<i64> { L::V(self.0) } }
impl TimeVal for TimeDelta {
    fn is_nat_(&self) -> bool { self.months == i32::MIN }
    fn raw_(&self) -> L<i64> { if self.months != 0 { L::Any } else { match self.inner.num_microseconds() { Some(k) => L::V(k), None => L::Any } } }
}

fn from_time_arms<X, U>(d_o: bool, v: &str, conv: fn(i64) -> L<U>) -> Option<String>
where
    X: TimeVal + Cast<U> + Cast<Option<U>>,
    U: Val + Lang,
{
    let x = X::vparse(v)?;
    let val = |x: &X| -> L<U> { match x.raw_() { L::V(k) => catch(|| conv(k)).unwrap_or(L::P), L::P => L::P, L::Any => L::Any } };
    Some(if d_o {
        let c = catch(|| Cast::<Option<U>>::cast(x.clone()));
        let l: L<Option<U>> = if x.is_nat_() { L::V(None) } else { match val(&x) { L::V(u) => L::V(Some(u)), L::P => L::P, L::Any => L::Any } };
        format!("{};{}", t(c), l.vtok())
    } else {
        let c = catch(|| Cast::<U>::cast(x.clone()));
        let l: L<U> = if x.is_nat_() { match U::lang_null() { Some(n) => L::V(n), None => L::Any } } else { val(&x) };
        format!("{};{}", t(c), l.vtok())
    })
}

/// conversion from the raw i64 of a time value by the language's `as` (bool: 0 / 1)
trait FromRaw: Sized { fn from_raw(k: i64) -> L<Self>; }
macro_rules! from_raw_as { ($($t:ty),*) => { $( impl FromRaw for $t { fn from_raw(k: i64) -> L<Self> { L::V(k as $t) } } )* } }
from_raw_as!(u8, u64, i64, i32, f32, f64, usize, isize);
impl FromRaw for bool { fn from_raw(k: i64) -> L<Self> { to_bool(k as i128) } }

macro_rules! numeric_dispatch {
    ( $( $T:ident => [ $($U:ident),* ]; )* ) => {
        /// the pairs of `impl_numeric_cast!` exactly as extracted by the translator
        fn cast_numeric(sb: &str, so: bool, db: &str, d_o: bool, v: &str) -> Option<String> {
            $( if sb == stringify!($T) {
                $( if db == stringify!($U) { return arms4::<$T, $U>(so, d_o, v, |x| L::V(x as $U)); } )*
            } )*
            None
        }
        /// per source type: identity / blanket / main arm, the bool, String and time arms of `@common_impl`
        fn cast_common(sb: &str, so: bool, db: &str, d_o: bool, v: &str) -> Option<String> {
            $(
                if sb == stringify!($T) {
                    if db == stringify!($T) { return arms4::<$T, $T>(so, d_o, v, |x| L::V(x)); }
                    if db == "bool" { return arms4::<$T, bool>(so, d_o, v, |x| to_bool(x as i128)); }
                    if db == "str" && !d_o { return to_str_arms::<$T>(so, v); }
                    if (db == "dt" || db == "td" || db == "time") && !d_o { return to_time_arms::<$T>(so, db, v, |x| x as i64); }
                }
                if sb == "bool" && db == stringify!($T) { return arms4::<bool, $T>(so, d_o, v, |x| L::V((x as u8) as $T)); }
            )*
            None
        }
    };
}
c15_numeric_pairs!(numeric_dispatch);

macro_rules! from_str_one {
    (u16, $sb:ident, $db:ident, $d_o:ident, $v:ident) => {};
    (u32, $sb:ident, $db:ident, $d_o:ident, $v:ident) => {};
    (i8, $sb:ident, $db:ident, $d_o:ident, $v:ident) => {};
    (i16, $sb:ident, $db:ident, $d_o:ident, $v:ident) => {};
    (char, $sb:ident, $db:ident, $d_o:ident, $v:ident) => {};
    ($T:ident, $sb:ident, $db:ident, $d_o:ident, $v:ident) => {
        if $db == stringify!($T) { return from_str_arms::<$T>($sb, $d_o, $v); }
    };
}
macro_rules! from_str_dispatch {
    ( $($T:ident),* ) => {
        fn cast_from_str(sb: &str, db: &str, d_o: bool, v: &str) -> Option<String> {
            $( from_str_one!($T, sb, db, d_o, v); )*
            None
        }
    };
}
c15_from_string_types!(from_str_dispatch);

macro_rules! from_time_dispatch {
    ( $($U:ident),* ) => {
        fn cast_from_time(sb: &str, db: &str, d_o: bool, v: &str) -> Option<String> {
            $( if db == stringify!($U) {
                return match sb {
                    "dt" => from_time_arms::<Dt, $U>(d_o, v, <$U as FromRaw>::from_raw),
                    "td" => from_time_arms::<TimeDelta, $U>(d_o, v, <$U as FromRaw>::from_raw),
                    "time" => from_time_arms::<Time, $U>(d_o, v, <$U as FromRaw>::from_raw),
                    _ => None,
                };
            } )*
            if db == "i64" {
                return match sb {
                    "dt" => from_time_arms::<Dt, i64>(d_o, v, <i64 as FromRaw>::from_raw),
                    "td" => from_time_arms::<TimeDelta, i64>(d_o, v, <i64 as FromRaw>::from_raw),
                    "time" => from_time_arms::<Time, i64>(d_o, v, <i64 as FromRaw>::from_raw),
                    _ => None,
                };
            }
            None
        }
    };
}
c15_time_cast_types!(from_time_dispatch);

fn run_cast(s: &str, d: &str, v: &str) -> Option<String> {
    let (so, sb) = split_ty(s);
    let (d_o, db) = split_ty(d);
    match sb {
        "str" | "sref" => {
            if so {
                if sb == "str" && d == "ostr" { let x = <Option<String>>::vparse(v)?; return Some(format!("{};{}", t(catch(|| Cast::<Option<String>>::cast(x.clone()))), x.vtok())); }
                return None;
            }
            if db == "str" {
                let x = String::vparse(v)?;
                let l = if d_o { if x == "None" { "_".to_string() } else { x.vtok() } } else { x.vtok() };
                let c = match (sb, d_o) {
                    ("str", false) => t(catch(|| Cast::<String>::cast(x.clone()))),
                    ("str", true) => t(catch(|| Cast::<Option<String>>::cast(x.clone()))),
                    ("sref", false) => { let r = <&'static str>::vparse(v)?; t(catch(|| Cast::<String>::cast(r))) },
                    _ => return None,
                };
                return Some(format!("{};{}", c, l));
            }
            cast_from_str(sb, db, d_o, v)
        },
        "dt" | "td" | "time" => if so { None } else { cast_from_time(sb, db, d_o, v) },
        "bool" => {
            if db == "bool" { return arms4::<bool, bool>(so, d_o, v, |x| L::V(x)); }
            if db == "str" && !d_o { return to_str_arms::<bool>(so, v); }
            if (db == "dt" || db == "td" || db == "time") && !d_o {
                // `panic!("Should not cast bool to datetime")`: the property is silent
                let c = if so {
                    let x = <Option<bool>>::vparse(v)?;
                    match db { "dt" => t(catch(|| Cast::<Dt>::cast(x))), "td" => t(catch(|| Cast::<TimeDelta>::cast(x))), _ => t(catch(|| Cast::<Time>::cast(x))) }
                } else {
                    let x = bool::vparse(v)?;
                    match db { "dt" => t(catch(|| Cast::<Dt>::cast(x))), "td" => t(catch(|| Cast::<TimeDelta>::cast(x))), _ => t(catch(|| Cast::<Time>::cast(x))) }
                };
                return Some(format!("{};*", c));
            }
            cast_common(sb, so, db, d_o, v)
        },
        _ => cast_numeric(sb, so, db, d_o, v).or_else(|| cast_common(sb, so, db, d_o, v)),
    }
}

/// relational run beyond the token grid (a `TimeDelta` token carries nanoseconds in an `i64`, i.e. at
/// most ±292 years): a non-null `TimeDelta` of `secs` whole seconds, `months = 0`, cast to `Option<T>`
/// must be `Some` of its cast to `T` — casting composes through `Option`, and a non-null source never
/// becomes null — for every numeric target of the time casts. `OK` | `NE:<opt>:<plain>` | `P`
fn run_tdopt(d: &str, secs: i64) -> String {
    let x = TimeDelta { months: 0, inner: chrono::Duration::seconds(secs) };
    macro_rules! go { ($T:ty) => {{
        let a = catch(|| Cast::<Option<$T>>::cast(x.clone()));
        let b = catch(|| Cast::<$T>::cast(x.clone()));
        match (a, b) {
            (Some(a), Some(b)) => {
                let same = match &a { Some(v) => format!("{:?}", v) == format!("{:?}", b), None => false };
                if same { "OK".to_string() } else { format!("NE:{:?}:{:?}", a, b).replace(' ', "") }
            },
            (None, None) => "OK".to_string(),       // both panic: no value on either side
            _ => "P".to_string(),
        }
    }} }
    match d {
        "i64" => go!(i64), "f64" => go!(f64), "f32" => go!(f32), "i32" => go!(i32), "u8" => go!(u8),
        "u64" => go!(u64), "usize" => go!(usize), "isize" => go!(isize), "bool" => go!(bool),
        _ => "?badcase".into(),
    }
}

/// relational run, the signed zero (the value grids carry one zero: the exact model has no sign for
/// it): `0.0, -0.0, 0.0, -0.0` cast one after the other to `d` must each equal the language's own
/// conversion of that value (`as`, `to_string`, `Some` of it) — the sign of a zero survives a float
/// or text target, and an answer does not depend on the value converted just before.
/// `OK` | `NE:<position>:<got>!=<expected>/…`
fn run_negz(s: &str, d: &str) -> String {
    macro_rules! go { ($S:ty, $T:ty, $oracle:expr) => {{
        let seq: [$S; 4] = [0.0, -0.0, 0.0, -0.0];
        let mut bad: Vec<String> = vec![];
        for (i, v) in seq.iter().enumerate() {
            let got = catch(|| Cast::<$T>::cast(*v));
            let want: $T = ($oracle)(*v);
            match got {
                Some(g) => if format!("{:?}", g) != format!("{:?}", want) { bad.push(format!("{}:{:?}!={:?}", i, g, want)) },
                None => bad.push(format!("{}:P", i)),
            }
        }
        if bad.is_empty() { "OK".to_string() } else { format!("NE:{}", bad.join("/")).replace(' ', "").replace(',', ".").replace(';', ".") }
    }} }
    macro_rules! src { ($S:ty) => {
        match d {
            "str" => go!($S, String, |v: $S| v.to_string()),
            "f64" => go!($S, f64, |v: $S| v as f64),
            "f32" => go!($S, f32, |v: $S| v as f32),
            "of64" => go!($S, Option<f64>, |v: $S| Some(v as f64)),
            "of32" => go!($S, Option<f32>, |v: $S| Some(v as f32)),
            "i64" => go!($S, i64, |v: $S| v as i64),
            "i32" => go!($S, i32, |v: $S| v as i32),
            "u8" => go!($S, u8, |v: $S| v as u8),
            "u64" => go!($S, u64, |v: $S| v as u64),
            "usize" => go!($S, usize, |v: $S| v as usize),
            "isize" => go!($S, isize, |v: $S| v as isize),
            "oi64" => go!($S, Option<i64>, |v: $S| Some(v as i64)),
            "oi32" => go!($S, Option<i32>, |v: $S| Some(v as i32)),
            _ => "?badcase".into(),
        }
    } }
    match s {
        "f64" => src!(f64),
        "f32" => src!(f32),
        _ => "?badcase".into(),
    }
}

pub fn run(r: &Req) -> Option<String> {
    match r.f.as_str() {
        "c15_negz" => Some(run_negz(r.s("s"), r.s("d"))),
        "c15_tdopt" => Some(run_tdopt(r.s("d"), r.i64("secs"))),
        "c15_null" => Some(run_null(r.s("ty"), r.s("v")).unwrap_or_else(|| "?badcase".into())),
        "c15_cast" => Some(run_cast(r.s("s"), r.s("d"), r.s("v")).unwrap_or_else(|| "?badcase".into())),
        "c15_ord" => Some(run_ord(r.s("ty"), r.s("p"), r.s("q"), r.s("r")).unwrap_or_else(|| "?badcase".into())),
        _ => None,
    }
}
}

// ------------------------------------------------------------------------------------------
// value grids (tokens) — no repository code below this line
// ------------------------------------------------------------------------------------------
fn int_range(b: &str) -> (i128, i128) {
    match b {
        "u8" => (0, 255),
        "i32" => (-(1 << 31), (1 << 31) - 1),
        "i64" | "isize" => (-(1i128 << 63), (1i128 << 63) - 1),
        "u64" | "usize" => (0, (1i128 << 64) - 1),
        _ => (0, -1),
    }
}

fn int_grid(b: &str, big: bool) -> Vec<String> {
    let p = |k: u32| 1i128 << k;
    let mut c: Vec<i128> = vec![0, 1, -1, 2, 127, 128, -128, -129, 255, 256, p(24) + 1, p(24) + 3, p(31) - 1, p(31), -p(31), -p(31) - 1,
        p(32), p(32) + 1, p(53), p(53) + 1, p(53) + 3, -p(53), -p(53) - 1, p(63) - 1, p(63), -p(63), p(64) - 1];
    if big {
        c.extend([3, -2, 254, 257, 32767, 32768, 65535, 65536, p(24), p(24) - 1, p(24) + 2, p(32) - 1, -p(32), 3 * p(32), p(40) + 1, p(53) - 1, p(53) + 2,
            p(63) - 512, p(63) - 513, p(63) + 1, p(63) + 1024, p(63) + 1025, p(64) - 1024, p(64) - 1025, -p(63) + 1, -p(63) + 513, p(62) + 255, 1000, -1000]);
    }
    let (lo, hi) = int_range(b);
    let mut v: Vec<String> = vec![lo.to_string(), hi.to_string()];
    for x in c {
        if x >= lo && x <= hi && !v.contains(&x.to_string()) {
            v.push(x.to_string());
        }
    }
    v
}

/// finite float tokens (m, e); `f32` keeps those exactly representable in f32
fn float_grid(b: &str, big: bool) -> Vec<String> {
    let p = |k: u32| 1i128 << k;
    let mut c: Vec<(i128, i32)> = vec![(0, 0), (1, 0), (-1, 0), (1, 1), (1, -1), (3, -1), (-3, -1), (127, 0), (1, 7), (255, 0), (1, 8), (511, -1), (-1, -1),
        (1, 31), (-1, 31), (p(31) - 1, 0), (-p(31) - 1, 0), (1, 32), (p(32) + 1, 0), (1, 53), (p(53) - 1, 0), (-1, 53), (1, 63), (-1, 63), (1, 64), (-p(53) + 1, 11), (p(53) - 1, 11),
        (1, 100), (p(24) - 1, 104), (p(53) - 1, 971), (1, 128), (p(25) - 1, 103), (1, -149), (1, -126), (1, -150), (3, -150), (1, -1074), (1, -1022),
        (p(24) + 1, 0), (p(24) + 3, 0), (p(24) - 1, 0), (-129, 0), (257, 1), (1023, -2)];
    if big {
        c.extend([(5, -2), (7, -3), (-1, -149), (p(24) - 1, -149), (p(23) + 1, -149), (p(53) - 1, -1074), (p(52) + 1, -1074), (p(25) + 1, 103), (p(25) - 3, 103), (1, 127), (-1, 128),
            (p(24) - 1, 40), (p(24) - 1, 39), (p(32) - 1, 0), (-p(32), 0), (p(53) - 1, 10), (3, 62), (-3, 62), (1, 1023), (-(p(53) - 1), 971), (1, 24), (9, -4), (p(31) + 1, -1), (-(p(31) * 2 + 1), -1)]);
    }
    let mut v: Vec<String> = vec![];
    for (m, e) in c {
        let x = ldexp(m as f64, e);
        if !x.is_finite() || (m != 0 && x == 0.0) {
            continue;
        }
        if b == "f32" && ((x as f32) as f64) != x {
            continue;
        }
        let t = f64_tok(x);
        if !v.contains(&t) {
            v.push(t);
        }
    }
    v
}

const STR_GRID: &[&str] = &["None", "abc", "0", "1", "-1", "+5", "-0", "255", "256", "-129", "2147483648", "-2147483649", "9223372036854775808",
    "18446744073709551615", "18446744073709551616", "1.5", "-1.5", "0.1", "1.", ".5", "1e3", "1e-2", "2.5E1", "16777217", "9007199254740993", "1e400", "1e-400",
    "NaN", "nan", "inf", "-inf", "Infinity", "infinity", "true", "false", "True", "none", "1_0", "0x10", "-", "+", "1e", "e5",
    // the null marker and a number with white space around them: neither is null, neither parses
    "%sNone", "None%s", "None%n", "%tNone", "%s1", "1%s", "%s"];
const DT_GRID: &[&str] = &["nat", "0", "1", "-1", "2", "1000", "1500", "86400000000000", "9223372036854775807", "-9223372036854775807", "9007199254740993", "4294967296", "4294967297", "255", "256"];
const TD_GRID: &[&str] = &["nat", "0m0", "0m1000", "0m-1000", "0m1500", "0m-1500", "0m999", "0m1", "1m0", "-1m5000", "12m0", "0m9223372036854775807", "0m-9223372036854775808", "0m4294967296000", "0m4294967297000", "0m255000", "0m256000"];

/// canonical value tokens of a type (DESIGN 5.4: no `Some(NaN)`, no `Some("None")`, no `Some(NaT)`)
pub fn grid(ty: &str, big: bool) -> Vec<String> {
    let (o, b) = split_ty(ty);
    let mut v: Vec<String> = match b {
        "u8" | "u64" | "i64" | "i32" | "usize" | "isize" => int_grid(b, big),
        "f32" | "f64" => {
            let mut g = float_grid(b, big);
            g.push("inf".into());
            g.push("-inf".into());
            if !o {
                g.push("nan".into());
            }
            g
        },
        "bool" => vec!["true".into(), "false".into()],
        "str" | "sref" => STR_GRID.iter().filter(|s| !(o && **s == "None")).map(|s| s.to_string()).collect(),
        "dt" | "time" => DT_GRID.iter().filter(|s| !(o && **s == "nat")).map(|s| s.to_string()).collect(),
        "td" => TD_GRID.iter().filter(|s| !(o && **s == "nat")).map(|s| s.to_string()).collect(),
        _ => vec![],
    };
    if o {
        v.push("_".into());
    }
    v
}

/// is `tok` a canonical value token of type `ty`?
pub fn valid_tok(ty: &str, tok: &str) -> bool {
    let (o, b) = split_ty(ty);
    if tok == "_" {
        return o;
    }
    match b {
        "u8" | "u64" | "i64" | "i32" | "usize" | "isize" => {
            let (lo, hi) = int_range(b);
            tok.parse::<i128>().map(|x| x >= lo && x <= hi && x.to_string() == tok).unwrap_or(false)
        },
        "f32" | "f64" => {
            if tok == "nan" {
                return !o;
            }
            match f64_parse(tok) {
                Some(x) => f64_tok(x) == tok && (b == "f64" || x.is_infinite() || ((x as f32) as f64) == x),
                None => false,
            }
        },
        "bool" => tok == "true" || tok == "false",
        "str" | "sref" => !tok.is_empty() && !(o && tok == "None") && !tok.contains(|c: char| c == ',' || c == ';' || c == '=' || c == '|' || c == '*' || c.is_whitespace()),
        "dt" | "time" => (tok == "nat" && !o) || tok.parse::<i64>().map(|x| x != i64::MIN && x.to_string() == tok).unwrap_or(false),
        "td" => (tok == "nat" && !o) || tok.split_once('m').map(|(m, n)| m.parse::<i32>().map(|x| x != i32::MIN && x.to_string() == m).unwrap_or(false) && n.parse::<i64>().map(|x| x.to_string() == n).unwrap_or(false)).unwrap_or(false),
        _ => false,
    }
}

/// float values whose `Display` is modelled (exact decimal expansion = shortest round-trip form):
/// integers below 2^24 (f32) / 2^53 (f64) in magnitude and multiples of 1/8 below 2^20
fn display_modelled(b: &str, tok: &str) -> bool {
    if b != "f32" && b != "f64" {
        return true;
    }
    match tok {
        "nan" | "inf" | "-inf" | "_" => true,
        _ => match f64_parse(tok) {
            Some(x) => {
                let lim = if b == "f32" { 16777216.0 } else { 9007199254740992.0 };
                (x.fract() == 0.0 && x.abs() < lim) || ((x * 8.0).fract() == 0.0 && x.abs() < 1048576.0)
            },
            None => false,
        },
    }
}

/// all (source, target) type pairs with a `Cast` impl that the property quantifies over
pub fn cast_pairs() -> Vec<(String, String)> {
    let mut ps: Vec<(String, String)> = vec![];
    let four = |ps: &mut Vec<(String, String)>, t: &str, u: &str| {
        ps.push((t.to_string(), u.to_string()));
        ps.push((t.to_string(), format!("o{u}")));
        ps.push((format!("o{t}"), format!("o{u}")));
        ps.push((format!("o{t}"), u.to_string()));
    };
    let mut srcs: Vec<&str> = vec![];
    for (t, us) in NUMERIC_PAIRS {
        srcs.push(t);
        for u in us.iter() {
            four(&mut ps, t, u);
        }
    }
    for t in &srcs {
        four(&mut ps, t, t);
        four(&mut ps, t, "bool");
        four(&mut ps, "bool", t);
        for d in ["str", "dt", "td", "time"] {
            ps.push((t.to_string(), d.to_string()));
            ps.push((format!("o{t}"), d.to_string()));
        }
    }
    four(&mut ps, "bool", "bool");
    for d in ["str", "dt", "td", "time"] {
        ps.push(("bool".into(), d.to_string()));
        ps.push(("obool".into(), d.to_string()));
    }
    for s in ["str", "sref"] {
        for u in FROM_STRING_TYPES {
            if NUM.contains(u) || *u == "bool" {
                ps.push((s.to_string(), u.to_string()));
                ps.push((s.to_string(), format!("o{u}")));
            }
        }
    }
    for (s, d) in [("str", "str"), ("str", "ostr"), ("ostr", "ostr"), ("sref", "str")] {
        ps.push((s.to_string(), d.to_string()));
    }
    for s in ["dt", "td", "time"] {
        for u in TIME_CAST_TYPES.iter().chain(["i64"].iter()) {
            ps.push((s.to_string(), u.to_string()));
            ps.push((s.to_string(), format!("o{u}")));
        }
    }
    ps
}

pub const NULL_TYPES: &[&str] = &["f32", "f64", "i32", "i64", "u64", "usize", "u8", "isize", "bool", "str", "sref", "dt", "td", "time",
    "of32", "of64", "oi32", "oi64", "ou64", "ousize", "ou8", "oisize", "obool", "ostr", "odt", "otd", "otime"];
pub const ORD_TYPES: &[&str] = &["f32", "f64", "i32", "i64", "u8", "u64", "usize", "isize", "bool", "str", "sref", "dt", "td", "time",
    "of32", "of64", "oi32", "oi64", "ou8", "ou64", "ousize", "oisize", "obool", "ostr", "odt", "otime", "otd"];

fn ord_grid(ty: &str, big: bool) -> Vec<String> {
    let (o, b) = split_ty(ty);
    let base: Vec<&str> = match b {
        // `-0p0` is the negative zero: equal to `0p0` under the comparators (a bit-pattern order would split them)
        "f32" => vec!["-inf", "-1p0", "-0p0", "0p0", "1p-149", "1p0", "inf"],
        "f64" => vec!["-inf", "-1p0", "-0p0", "0p0", "1p-1074", "1p0", "inf"],
        "i32" => vec!["-2147483648", "-1", "0", "1", "2147483647"],
        "i64" | "isize" => vec!["-9223372036854775808", "-1", "0", "1", "9223372036854775807"],
        "u8" => vec!["0", "1", "2", "128", "255"],
        "u64" | "usize" => vec!["0", "1", "2", "9223372036854775808", "18446744073709551615"],
        "bool" => vec!["false", "true"],
        "str" | "sref" => vec!["10", "9", "B", "Nond", "a", "ab", "b"],
        "dt" | "time" => vec!["-9223372036854775807", "-1", "0", "1", "9223372036854775807"],
        "td" => vec!["0m0", "0m-5", "0m7", "1m-100", "1m0", "-1m99999", "-2147483647m0"],
        _ => vec![],
    };
    let mut v: Vec<String> = base.iter().map(|s| s.to_string()).collect();
    if big {
        match b {
            "f32" | "f64" => v.extend(["3p-1".to_string(), "-3p-1".to_string(), "1p100".to_string()]),
            "i32" | "i64" | "isize" => v.extend(["2".to_string(), "-2".to_string()]),
            _ => {},
        }
    }
    // the canonical null of the type
    if o {
        v.push("_".into());
    } else {
        match b {
            "f32" | "f64" => v.push("nan".into()),
            "str" | "sref" => v.push("None".into()),
            "dt" | "time" | "td" => v.push("nat".into()),
            _ => {},
        }
    }
    v
}

pub fn valid_case(r: &Req) -> bool {
    match r.f.as_str() {
        "c15_negz" => matches!(r.s("s"), "f64" | "f32"),
        "c15_tdopt" => ["i64", "f64", "f32", "i32", "u8", "u64", "usize", "isize", "bool"].contains(&r.s("d")) && r.s("secs").parse::<i64>().is_ok(),
        "c15_null" => valid_tok(r.s("ty"), r.s("v")),
        "c15_ord" => valid_tok(r.s("ty"), r.s("p")) && valid_tok(r.s("ty"), r.s("q")) && valid_tok(r.s("ty"), r.s("r")),
        "c15_cast" => {
            let (_, sb) = split_ty(r.s("s"));
            let (_, db) = split_ty(r.s("d"));
            valid_tok(r.s("s"), r.s("v")) && (db != "str" || display_modelled(sb, r.s("v")))
        },
        _ => false,
    }
}

fn rand_int_tok(b: &str, rng: &mut Rng) -> String {
    let (lo, hi) = int_range(b);
    let x = rng.next() as i64 as i128;
    let shift = rng.below(64) as u32;
    let y = x >> shift;
    let y = if b == "u64" || b == "usize" { (rng.next() >> shift) as i128 } else { y };
    y.clamp(lo, hi).to_string()
}

fn rand_float_tok(b: &str, rng: &mut Rng) -> String {
    if b == "f32" {
        let x = f32::from_bits(rng.next() as u32);
        if x.is_nan() { "nan".into() } else { f64_tok(x as f64) }
    } else {
        let x = if rng.chance(0.5) { f64::from_bits(rng.next()) } else { (rng.next() as i64 >> rng.below(64)) as f64 * 0.5f64.powi(rng.below(8) as i32) };
        if x.is_nan() { "nan".into() } else { f64_tok(x) }
    }
}

pub fn generate(tier: &str, rng: &mut Rng) -> (Vec<String>, bool) {
    let big = tier == "thorough";
    let mut out = vec![];
    // fail closed: every never-null type named by `impl_not_none!` must be one the harness instantiates
    for t in NOT_NONE_TYPES {
        assert!(NULL_TYPES.contains(t), "impl_not_none! type {t} is not instantiated by the C15 harness");
    }
    // 1. every IsNone observer, every type, every grid value
    for ty in NULL_TYPES {
        for v in grid(ty, big) {
            out.push(format!("c15_null ty={} v={}", ty, v));
        }
    }
    // 2. every cast pair x the source type's grid
    for (s, d) in cast_pairs() {
        for v in grid(&s, big) {
            let l = format!("c15_cast s={} d={} v={}", s, d, v);
            if valid_case(&Req::parse(&l)) {
                out.push(l);
            }
        }
    }
    // 2a. ordered pairs of confusable values, one request straight after the other (the casts are
    //     pure: an answer must not depend on the value converted just before — `0 == -0`, `1 == 1.0`,
    //     the null and the zero, the two infinities, the first and last grid values)
    for (s, d) in cast_pairs() {
        let g = grid(&s, false);
        let mut sel: Vec<String> = vec![];
        for t in ["0", "-0p0", "1", "-1", "nan", "_", "inf", "true", "false"] {
            if g.iter().any(|x| x == t) {
                sel.push(t.to_string());
            }
        }
        for x in g.iter().take(2).chain(g.iter().rev().take(2)) {
            if !sel.contains(x) {
                sel.push(x.clone());
            }
        }
        for a in &sel {
            for b in &sel {
                if a == b {
                    continue;
                }
                let (la, lb) = (format!("c15_cast s={} d={} v={}", s, d, a), format!("c15_cast s={} d={} v={}", s, d, b));
                if valid_case(&Req::parse(&la)) && valid_case(&Req::parse(&lb)) {
                    out.push(la);
                    out.push(lb);
                }
            }
        }
    }
    // 2a'. the signed zero through every numeric / text target
    for s in ["f64", "f32"] {
        for d in ["str", "f64", "f32", "of64", "of32", "i64", "i32", "u8", "u64", "usize", "isize", "oi64", "oi32"] {
            out.push(format!("c15_negz s={} d={}", s, d));
        }
    }
    // 2b. durations beyond the nanosecond tokens (±292 years … ±292 thousand years and further): the
    //     cast to `Option<T>` is `Some` of the cast to `T`
    for d in ["i64", "f64", "f32", "i32", "u8", "u64", "usize", "isize", "bool"] {
        for secs in [0i64, 1, -1, 3, 9_223_372_036, 9_223_372_037, -9_223_372_037, 12_096_000_000_000, -12_096_000_000_000,
            9_223_372_036_854, 9_223_372_036_855, -9_223_372_036_855, 9_223_372_036_854_775, -9_223_372_036_854_775] {
            out.push(format!("c15_tdopt d={} secs={}", d, secs));
        }
    }
    // 3. all triples of the order grid
    for ty in ORD_TYPES {
        let g = ord_grid(ty, big);
        for a in &g {
            for b in &g {
                for c in &g {
                    out.push(format!("c15_ord ty={} p={} q={} r={}", ty, a, b, c));
                }
            }
        }
    }
    // 4. random values through the numeric lattice (never to String: float Display is only modelled on the grid)
    let n_rand = if big { 300000 } else { 20000 };
    let pairs: Vec<(String, String)> = cast_pairs().into_iter().filter(|(s, d)| {
        let (_, sb) = split_ty(s);
        let (_, db) = split_ty(d);
        (NUM.contains(&sb) || sb == "bool") && db != "str"
    }).collect();
    for _ in 0..n_rand {
        let (s, d) = rng.pick(&pairs).clone();
        let (so, sb) = split_ty(&s);
        let v = if so && rng.chance(0.1) {
            "_".to_string()
        } else {
            match sb {
                "f32" | "f64" => { let t = rand_float_tok(sb, rng); if so && t == "nan" { "_".into() } else { t } },
                "bool" => if rng.chance(0.5) { "true".into() } else { "false".into() },
                _ => rand_int_tok(sb, rng),
            }
        };
        out.push(format!("c15_cast s={} d={} v={}", s, d, v));
    }
    (out, true)
}

pub fn rule(tier: &str) -> String {
    let big = tier == "thorough";
    format!("exhaustive tables: (1) all IsNone observers (is_none, not_none, to_opt, as_opt, from_opt, from_inner.unwrap, none, map into Self / Option<Inner> / Inner, vabs, into_cast) for {} types x their value grid; (2) Cast::cast for all {} (source,target) pairs = every pair extracted from the impl_numeric_cast! invocations x 4 Option arms, identity/blanket/main arms, bool, String, &str, DateTime<ns>, TimeDelta, Time arms, impl_time_cast!, impl_cast_from_string! x the source grid {{0, +-1, 2, 127, 128, 255, 256, 2^24+1, +-2^31, 2^32(+1), +-2^53(+1), 2^63, 2^64-1, type MIN/MAX, f32/f64 MAX, rounding ties, subnormals, NaN, +-inf, None}}{} compared with the language's own `as` / to_string / parse lifted by the null rule; (2a) for every cast pair every ordered pair of up to 11 confusable source values (0, -0, +-1, NaN, null, inf, true / false, the first and last two grid values) as two consecutive requests (an answer must not depend on the value converted just before); (2a') relational run c15_negz: 0.0, -0.0, 0.0, -0.0 (f32 and f64) cast in sequence to 13 numeric / text targets, each compared with the language's own conversion (the exact model has one zero); (3) all triples of a {}-value order grid (incl. the null) for {} types: sort_cmp, sort_cmp_rev on all 9 pairs + slice::sort_by with either comparator; then {} random (pair, value) casts through the numeric lattice. non-trivial = output has a non-null token.",
        NULL_TYPES.len(), cast_pairs().len(), if big { " (extended)" } else { "" }, if big { "6..9" } else { "6..8" }, ORD_TYPES.len(), if big { 300000 } else { 20000 })
}

/// token-wise equality where `*` on either side means "the property is silent" (spec / oracle only)
pub fn compare(_r: &Req, imp: &str, other: &str) -> Option<bool> {
    let gi: Vec<&str> = imp.split(';').collect();
    let go: Vec<&str> = other.split(';').collect();
    if gi.len() != go.len() {
        return Some(false);
    }
    Some(gi.iter().zip(go.iter()).all(|(a, b)| a == b || *a == "*" || *b == "*"))
}

/// evidence histogram: request kind, source/target family, null vs value input, outcome class
pub fn tags(r: &Req, imp: &str) -> Vec<String> {
    let fam = |t: &str| -> String {
        let (o, b) = split_ty(t);
        let f = match b { "f32" | "f64" => "float", "bool" => "bool", "str" | "sref" => "string", "dt" | "td" | "time" => "time", _ => "int" };
        format!("{}{}", if o { "Option<" } else { "" }, f) + if o { ">" } else { "" }
    };
    let is_null = |t: &str| matches!(t, "_" | "nan" | "nat" | "None");
    let mut v = vec![r.f.clone()];
    match r.f.as_str() {
        "c15_cast" => {
            v.push(format!("cast:{}->{}", fam(r.s("s")), fam(r.s("d"))));
            v.push(if is_null(r.s("v")) { "input:null".into() } else { "input:value".into() });
            let first = imp.split(';').next().unwrap_or("");
            v.push(if first == "P" { "result:panic".into() } else if is_null(first) { "result:null".into() } else { "result:value".into() });
        },
        "c15_null" => {
            v.push(format!("null:{}", fam(r.s("ty"))));
            v.push(if is_null(r.s("v")) { "input:null".into() } else { "input:value".into() });
        },
        "c15_ord" => {
            v.push(format!("ord:{}", fam(r.s("ty"))));
            let n = [r.s("p"), r.s("q"), r.s("r")].iter().filter(|t| is_null(t)).count();
            v.push(format!("nulls-in-triple:{}", n));
        },
        _ => {},
    }
    v
}

/// F-C15-1: `"None".cast::<f32/f64>()` (String / &str) panics instead of giving NaN
/// F47: a non-null `TimeDelta` whose microsecond count overflows an `i64` casts to `Option<i64>` as
/// `None` (and to `i64` as `i64::MIN`): the two hand-written impls pick different overflow sentinels
pub fn known_finding(r: &Req, imp: &str, _spec: &str) -> Option<String> {
    if r.f == "c15_tdopt" && r.s("d") == "i64" && imp.starts_with("NE:None:") {
        return Some("F47".into());
    }
    if r.f == "c15_cast" && (r.s("s") == "str" || r.s("s") == "sref") && (r.s("d") == "f32" || r.s("d") == "f64") && r.s("v") == "None" && imp.starts_with("P;") {
        return Some("F-C15-1".into());
    }
    None
}
