//! per-property generators, implementation runners and comparison hooks
use crate::proto::Req;
use crate::rng::Rng;

pub mod c01;
pub mod c02;
pub mod c04;
pub mod c16;
pub mod c15;
pub mod c11;
pub mod c20;
pub mod c18;
pub mod c17;
pub mod c12;
pub mod c13;
pub mod c09;
pub mod c03;
pub mod c14;
pub mod c19;
pub mod c05;
pub mod c06;
pub mod c07;
pub mod c07pl;
pub mod c08;
pub mod c10;

/// run the real code for one request; None = unknown function
pub fn run(r: &Req) -> Option<String> {
    c07pl::run(r).or_else(|| c05::run(r)).or_else(|| c01::run(r)).or_else(|| c02::run(r)).or_else(|| c04::run(r)).or_else(|| c16::run(r)).or_else(|| c15::run(r)).or_else(|| c11::run(r)).or_else(|| c20::run(r)).or_else(|| c18::run(r)).or_else(|| c17::run(r)).or_else(|| c12::run(r)).or_else(|| c13::run(r)).or_else(|| c09::run(r)).or_else(|| c03::run(r)).or_else(|| c14::run(r)).or_else(|| c19::run(r)).or_else(|| c06::run(r)).or_else(|| c07::run(r)).or_else(|| c08::run(r)).or_else(|| c10::run(r))
}

/// (request lines, whether the enumerated part was exhaustive over its stated bounds)
pub fn generate(prop: &str, tier: &str, rng: &mut Rng) -> (Vec<String>, bool) {
    match prop {
        "C01" => c01::generate(tier, rng),
        "C02" => c02::generate(tier, rng),
        "C04" => c04::generate(tier, rng),
        "C16" => c16::generate(tier, rng),
        "C15" => c15::generate(tier, rng),
        "C11" => c11::generate(tier, rng),
        "C20" => c20::generate(tier, rng),
        "C18" => c18::generate(tier, rng),
        "C17" => c17::generate(tier, rng),
        "C12" => c12::generate(tier, rng),
        "C13" => c13::generate(tier, rng),
        "C09" => c09::generate(tier, rng),
        "C03" => c03::generate(tier, rng),
        "C14" => c14::generate(tier, rng),
        "C19" => c19::generate(tier, rng),
        "C05" => c05::generate(tier, rng),
        "C06" => c06::generate(tier, rng),
        "C07" => c07::generate(tier, rng),
        "C08" => c08::generate(tier, rng),
        "C10" => c10::generate(tier, rng),
        _ => panic!("no generator for {prop}"),
    }
}

pub fn rule(prop: &str, tier: &str) -> String {
    match prop {
        "C01" => c01::rule(tier),
        "C02" => c02::rule(tier),
        "C04" => c04::rule(tier),
        "C16" => c16::rule(tier),
        "C15" => c15::rule(tier),
        "C11" => c11::rule(tier),
        "C20" => c20::rule(tier),
        "C18" => c18::rule(tier),
        "C17" => c17::rule(tier),
        "C12" => c12::rule(tier),
        "C13" => c13::rule(tier),
        "C09" => c09::rule(tier),
        "C03" => c03::rule(tier),
        "C14" => c14::rule(tier),
        "C19" => c19::rule(tier),
        "C05" => c05::rule(tier),
        "C06" => c06::rule(tier),
        "C07" => c07::rule(tier),
        "C08" => c08::rule(tier),
        "C10" => c10::rule(tier),
        _ => String::new(),
    }
}

/// property-specific comparison (None = generic token comparison)
pub fn compare(prop: &str, r: &Req, imp: &str, model: &str) -> Option<bool> {
    match prop {
        "C05" => Some(c05::compare(r, imp, model)),
        "C15" => c15::compare(r, imp, model),
        "C12" => c12::compare(r, imp, model),
        "C06" => c06::compare(r, imp, model),
        "C07" => c07::compare(r, imp, model),
        "C08" => c08::compare(r, imp, model),
        "C10" => Some(c10::compare(r, imp, model)),
        _ => None,
    }
}

pub fn is_series_key(k: &str) -> bool {
    matches!(k, "xs" | "ys" | "ha" | "hb" | "ga" | "gb")
}

/// series that must keep the same length as `k` while shrinking
pub fn paired_series(_prop: &str, r: &Req, k: &str) -> Vec<String> {
    let mut v = vec![];
    if k == "xs" && r.has("ys") && r.s("len2") != "free" {
        v.push("ys".to_string());
    }
    if k == "ys" && r.has("xs") && r.s("len2") != "free" {
        v.push("xs".to_string());
    }
    v
}

/// is the (shrunk) case inside the property's quantifier?
pub fn valid_case(prop: &str, r: &Req) -> bool {
    match prop {
        "C01" => c01::valid_case(r),
        "C02" => c02::valid_case(r),
        "C04" => c04::valid_case(r),
        "C16" => c16::valid_case(r),
        "C15" => c15::valid_case(r),
        "C11" => c11::valid_case(r),
        "C20" => c20::valid_case(r),
        "C18" => c18::valid_case(r),
        "C17" => c17::valid_case(r),
        "C12" => c12::valid_case(r),
        "C13" => c13::valid_case(r),
        "C09" => c09::valid_case(r),
        "C03" => c03::valid_case(r),
        "C14" => c14::valid_case(r),
        "C19" => c19::valid_case(r),
        "C05" => c05::valid_case(r),
        "C06" => c06::valid_case(r),
        "C07" => c07::valid_case(r),
        "C08" => c08::valid_case(r),
        "C10" => c10::valid_case(r),
        _ => true,
    }
}

/// branch / regime tags for the evidence histogram
pub fn tags(prop: &str, r: &Req, imp: &str) -> Vec<String> {
    let mut t = vec![];
    if prop == "C14" {
        t.extend(c14::tags(r, imp));
    }
    if prop == "C09" {
        return c09::tags(r, imp);
    }
    if prop == "C15" {
        return c15::tags(r, imp);
    }
    if prop == "C16" {
        t.extend(c16::tags(r, imp));
    }
    if prop == "C13" {
        t.extend(c13::tags(r));
    }
    if prop == "C17" {
        return c17::tags(r, imp);
    }
    if prop == "C18" {
        return c18::tags(r, imp);
    }
    if prop == "C20" {
        t.extend(c20::tags(r, imp));
    }
    if r.has("w") && r.has("xs") {
        let len = r.list("xs").len();
        let w = r.usize("w");
        t.push(if len == 0 { "empty".to_string() } else if w > len { "w>len".into() } else if w == len { "w=len".into() } else { "steady".into() });
        if r.list("xs").iter().any(|x| *x == "_") {
            t.push("has-null".into());
        }
        t.push(format!("mp={}", if r.s("mp") == "-" || !r.has("mp") { "omitted" } else { "explicit" }));
    }
    if r.has("t") {
        t.push(format!("t={}", r.s("t")));
    }
    if r.has("o") {
        t.push(format!("o={}", r.s("o")));
    }
    if r.has("b") {
        t.push(format!("b={}", r.s("b")));
    }
    if imp.starts_with('P') {
        t.push("impl-panic".into());
    }
    t
}

/// generic non-triviality: at least two input elements (or a non-series request) and an
/// output with at least one non-null token
pub fn nontrivial(prop: &str, r: &Req, imp: &str) -> bool {
    if prop == "C09" {
        return c09::nontrivial(imp);
    }
    let len_ok = if r.has("xs") { r.list("xs").len() >= 2 } else if r.has("n") { r.usize("n") >= 2 } else { true };
    let out_ok = imp.split(|c| c == ',' || c == ';').any(|t| t != "_" && t != "[]" && !t.is_empty());
    len_ok && out_ok
}

/// classifier for recorded known findings (known_findings.json ids); None = not a known finding
pub fn known_finding(prop: &str, r: &Req, imp: &str, spec: &str) -> Option<String> {
    match prop {
        "C14" => c14::known_finding(r, imp, spec),
        "C05" => c05::known_finding(r, imp, spec),
        "C07" => c07::known_finding(r, imp, spec),
        "C17" => c17::known_finding(r, imp, spec),
        "C15" => c15::known_finding(r, imp, spec),
        "C20" => c20::known_finding(r, imp),
        _ => None,
    }
}

/// additional C08 request streams contributed by merged properties (aggregations, mapping)
pub fn c08_extra(tier: &str, _rng: &mut Rng) -> Vec<String> {
    c13::encoding_cells(if tier == "thorough" { 4 } else { 3 })
}

/// property-specific model-vs-spec comparison (None = generic exact / numeric token comparison)
pub fn compare_model_spec(prop: &str, r: &Req, model: &str, spec: &str) -> Option<bool> {
    match prop {
        "C15" => c15::compare(r, model, spec),
        _ => None,
    }
}
