//! C07, Polars cells (built only with `--features polars`, thorough tier): ChunkedArray<Float64Type>
//! with 1..3 chunks and a validity bitmap as input backend (`b=pl<k>`), and as output container for
//! the returned path (`oc=pl`).
#[cfg(feature = "polars")]
pub use imp::run;

#[cfg(not(feature = "polars"))]
pub fn run(r: &crate::proto::Req) -> Option<String> {
    if r.s("b").starts_with("pl") || r.s("oc") == "pl" { Some("SKIP:polars-not-built".into()) } else { None }
}

#[cfg(feature = "polars")]
mod imp {
use tevec::export::polars::prelude::*;
use tevec::prelude::*;

use crate::proto::{toks, Req, Tok};
use crate::roll1_valid_call;

/// the logical sequence split into `k` chunks (a null-carrying Float64Chunked)
fn chunked(v: &[Option<f64>], k: usize) -> Float64Chunked {
    let k = k.max(1);
    let n = v.len();
    let mut out: Option<Float64Chunked> = None;
    for c in 0..k {
        let lo = n * c / k;
        let hi = n * (c + 1) / k;
        let part: Float64Chunked = v[lo..hi].iter().cloned().collect();
        match out.as_mut() {
            None => out = Some(part),
            Some(o) => { o.append(&part).unwrap(); },
        }
    }
    out.unwrap_or_else(|| Vec::<Option<f64>>::new().into_iter().collect())
}

pub fn run(r: &Req) -> Option<String> {
    let b = r.s("b");
    let is_in = b.starts_with("pl");
    let is_out = r.s("oc") == "pl";
    if !is_in && !is_out {
        return None;
    }
    let xs: Vec<Option<f64>> = r.series("xs");
    let k: usize = b.strip_prefix("pl").and_then(|s| s.parse().ok()).unwrap_or(1);
    let ca = chunked(&xs, k);
    let view = &ca;
    if r.f == "acc" {
        let n = xs.len();
        let mut g: Vec<String> = vec![];
        g.push(format!("{}", GetLen::len(view)));
        let gets: Vec<String> = (0..=n).map(|i| match Vec1View::<Option<f64>>::get(view, i) { Ok(v) => v.tok(), Err(_) => "E".into() }).collect();
        g.push(gets.join(","));
        let it: Vec<Option<f64>> = TIter::<Option<f64>>::titer(view).collect();
        g.push(toks(&it));
        let rv: Vec<Option<f64>> = TIter::<Option<f64>>::titer(view).rev().collect();
        g.push(toks(&rv));
        let h = TIter::<Option<f64>>::titer(view).size_hint();
        g.push(format!("{}:{}", h.0, h.1.map(|x| x.to_string()).unwrap_or("_".into())));
        let mut sl: Vec<String> = vec![];
        for a in 0..=n {
            for e in a..=n {
                let s = match Vec1View::<Option<f64>>::slice(view, a, e) {
                    Ok(s) => { let v: Vec<Option<f64>> = (&s).into_iter().collect(); if v.is_empty() { "e".to_string() } else { v.iter().map(|x| x.tok()).collect::<Vec<_>>().join("|") } },
                    Err(_) => "E".into(),
                };
                sl.push(s);
            }
        }
        g.push(if sl.is_empty() { "[]".into() } else { sl.join(",") });
        g.push(match Vec1View::<Option<f64>>::try_as_slice(view) { Some(s) => format!("S,{}", toks(s)), None => "N".into() });
        return Some(g.join(";"));
    }
    let f = r.f.as_str();
    let w = r.usize("w");
    let mp = r.opt_usize("mp");
    if crate::rollrun::ROLL1_VALID.contains(&f) {
        if is_out {
            // returned path into a ChunkedArray (the only path Polars supports)
            type OC = Float64Chunked;
            type U = Option<f64>;
            let res: Option<OC> = if is_in {
                roll1_valid_call!(f, view, OC, U, None, w, mp, r).unwrap()
            } else if b.starts_with("deque") {
                let d = crate::backends::deque_rot(&xs, 1);
                roll1_valid_call!(f, (&d), OC, U, None, w, mp, r).unwrap()
            } else {
                let v = xs.clone();
                roll1_valid_call!(f, (&v), OC, U, None, w, mp, r).unwrap()
            };
            let o = res.expect("returned path gave None");
            let items: Vec<Option<f64>> = (&o).into_iter().collect();
            return Some(toks(&items));
        }
        type OC = Vec<f64>;
        type U = f64;
        let res: Option<OC> = roll1_valid_call!(f, view, OC, U, None, w, mp, r).unwrap();
        return Some(toks(&res.expect("returned path gave None")));
    }
    None
}
}
