//! C13: element-wise mapping operations (shift, vshift, vdiff, vpct_change, ffill/bfill(_mask),
//! fill(_mask), vclip, abs, vabs) observed through the items their iterators yield.
//!
//! The iterators are NEVER handed to a trusted collector: they are drained with plain `next()`
//! calls, capped at `len + 8` items, so an iterator that yields more (or fewer) items than the
//! input has is reported as a length mismatch instead of corrupting memory.
use crate::cases::*;
use crate::proto::{Req, Tok};
use crate::rng::Rng;
pub use imp::run;

pub const LAG_FNS: &[&str] = &["shift", "vshift", "vdiff", "vpct_change"];
pub const VIEW_FNS: &[&str] = &["vdiff", "vpct_change"];
pub const OPT_VALUE_FNS: &[&str] = &["vshift", "vdiff", "ffill", "bfill", "ffill_mask", "bfill_mask"];
pub const FNS: &[&str] = &["shift", "vshift", "vdiff", "vpct_change", "ffill", "bfill", "ffill_mask", "bfill_mask", "fill", "fill_mask", "vclip", "abs", "vabs"];
pub const MASKS: &[&str] = &["null", "neg", "nullneg", "zero", "all", "never"];
/// input backends of the view-based operations (every backend of backends.rs except the unsized `[T]`)
pub const BACKENDS: &[&str] = &["vec", "arr", "arc", "deque0", "deque1", "deque3", "arcdeque2", "nd", "ndvm", "ndv1", "ndv2", "ndv3", "ndv-1", "ndv-2"];

/// element types of the runs: conversion from / to the protocol's nullable number
pub trait El: Clone + Tok {
    fn from_o(o: Option<f64>) -> Self;
    fn o(&self) -> Option<f64>;
}
impl El for f64 {
    fn from_o(o: Option<f64>) -> Self { o.unwrap_or(f64::NAN) }
    fn o(&self) -> Option<f64> { if self.is_nan() { None } else { Some(*self) } }
}
impl El for Option<f64> {
    fn from_o(o: Option<f64>) -> Self { o }
    fn o(&self) -> Option<f64> { *self }
}
impl El for i32 {
    fn from_o(o: Option<f64>) -> Self { o.expect("null in an integer run") as i32 }
    fn o(&self) -> Option<f64> { Some(*self as f64) }
}
impl El for Option<i32> {
    fn from_o(o: Option<f64>) -> Self { o.map(|x| x as i32) }
    fn o(&self) -> Option<f64> { self.map(|x| x as f64) }
}

/// named mask predicates shared with lean/Tv/Handlers/C13.lean
pub fn mask(m: &str, v: Option<f64>) -> bool {
    match m {
        "null" => v.is_none(),
        "neg" => matches!(v, Some(x) if x < 0.),
        "nullneg" => match v { Some(x) => x < 0., None => true },
        "zero" => v == Some(0.),
        "all" => true,
        _ => false,
    }
}

/// safe draining: plain `next()` calls, at most `cap` items
pub fn drain_capped<I: Iterator>(mut it: I, cap: usize) -> Vec<I::Item> {
    let mut v = Vec::new();
    while v.len() < cap {
        match Iterator::next(&mut it) {
            Some(x) => v.push(x),
            None => break,
        }
    }
    v
}

mod imp {
use tevec::prelude::*;

use super::{drain_capped, mask, El};
use crate::proto::{toks, Req};

/// `with_view!` of backends.rs without the `slice` arm: `MapValidVec` is implemented for sized
/// `Vec1View` types only, so `vdiff` / `vpct_change` cannot be called on a bare `[T]`
macro_rules! with_sized_view {
    ($b:expr, $v:expr, $filler:expr, $view:ident => $body:expr) => {{
        let __b: &str = $b;
        if __b == "vec" || __b.is_empty() {
            let $view = &$v;
            let __r = $body;
            __r
        } else if __b == "arc" {
            let __a = std::sync::Arc::new($v.clone());
            let $view = &__a;
            let __r = $body;
            __r
        } else if let Some(k) = __b.strip_prefix("deque") {
            let __d = crate::backends::deque_rot(&$v, k.parse().unwrap_or(0));
            let $view = &__d;
            let __r = $body;
            __r
        } else if let Some(k) = __b.strip_prefix("arcdeque") {
            let __d = std::sync::Arc::new(crate::backends::deque_rot(&$v, k.parse().unwrap_or(0)));
            let $view = &__d;
            let __r = $body;
            __r
        } else if __b == "nd" {
            let __a = crate::backends::Array1::from_vec($v.clone());
            let $view = &__a;
            let __r = $body;
            __r
        } else if __b == "ndvm" {
            let mut __a = crate::backends::Array1::from_vec($v.clone());
            let __vm = __a.view_mut();
            let $view = &__vm;
            let __r = $body;
            __r
        } else if let Some(st) = __b.strip_prefix("ndv") {
            let st: isize = st.parse().unwrap_or(1);
            let __base = crate::backends::nd_base(&$v, st, $filler);
            let __vw = __base.slice(crate::backends::s![..;st]);
            let $view = &__vw;
            let __r = $body;
            __r
        } else if __b == "arr" {
            macro_rules! __arr { ($n:literal) => {{ let __a: [_; $n] = $v.clone().try_into().ok().unwrap(); let $view = &__a; let __r = $body; __r }} }
            match $v.len() {
                0 => __arr!(0), 1 => __arr!(1), 2 => __arr!(2), 3 => __arr!(3), 4 => __arr!(4),
                5 => __arr!(5), 6 => __arr!(6), 7 => __arr!(7), 8 => __arr!(8),
                _ => { let $view = &$v; let __r = $body; __r },
            }
        } else {
            panic!("unknown backend {}", __b)
        }
    }};
}

/// operations on `v.titer()` available for every `IsNone` element type
macro_rules! iter_ops {
    ($r:expr, $T:ty) => {{
        let r: &Req = $r;
        let v: Vec<$T> = r.series("xs").into_iter().map(<$T as El>::from_o).collect();
        let cap = v.len() + 8;
        let n = r.i32("lag");
        let val = |k: &str| -> $T { <$T as El>::from_o(r.opt_f64(k)) };
        let optval = |k: &str| -> Option<$T> { if !r.has(k) || r.s(k) == "-" { None } else { Some(val(k)) } };
        let m = r.s("m").to_string();
        let mf = move |x: &$T| mask(&m, El::o(x));
        match r.f.as_str() {
            "shift" => Some(toks(&drain_capped(v.titer().shift(n, val("v")), cap))),
            "vshift" => Some(toks(&drain_capped(v.titer().vshift(n, optval("v")), cap))),
            "ffill" => Some(toks(&drain_capped(v.titer().ffill(optval("v")), cap))),
            "bfill" => Some(toks(&drain_capped(v.titer().bfill(optval("v")), cap))),
            "ffill_mask" => Some(toks(&drain_capped(v.titer().ffill_mask(mf, optval("v")), cap))),
            "bfill_mask" => Some(toks(&drain_capped(v.titer().bfill_mask(mf, optval("v")), cap))),
            "fill" => Some(toks(&drain_capped(v.titer().fill(val("v")), cap))),
            "fill_mask" => Some(toks(&drain_capped(v.titer().fill_mask(mf, val("v")), cap))),
            "vclip" => Some(toks(&drain_capped(v.titer().vclip(val("lo"), val("hi")), cap))),
            "vabs" => Some(toks(&drain_capped(v.titer().vabs(), cap))),
            _ => None,
        }
    }};
}

/// `abs` (plain numbers) and the view-based `vdiff` on every input backend
macro_rules! num_ops {
    ($r:expr, $T:ty, $filler:expr) => {{
        let r: &Req = $r;
        let v: Vec<$T> = r.series("xs").into_iter().map(<$T as El>::from_o).collect();
        let cap = v.len() + 8;
        let n = r.i32("lag");
        match r.f.as_str() {
            "abs" => Some(toks(&drain_capped(v.titer().abs(), cap))),
            "vdiff" => {
                let value: Option<$T> = if !r.has("v") || r.s("v") == "-" { None } else { Some(<$T as El>::from_o(r.opt_f64("v"))) };
                Some(with_sized_view!(r.s("b"), v, $filler, view => toks(&drain_capped(view.vdiff(n, value.clone()), cap))))
            },
            _ => None,
        }
    }};
}

/// the view-based `vpct_change` on every input backend
macro_rules! pct_op {
    ($r:expr, $T:ty, $filler:expr) => {{
        let r: &Req = $r;
        let v: Vec<$T> = r.series("xs").into_iter().map(<$T as El>::from_o).collect();
        let cap = v.len() + 8;
        let n = r.i32("lag");
        Some(with_sized_view!(r.s("b"), v, $filler, view => toks(&drain_capped(view.vpct_change(n), cap))))
    }};
}

pub fn run(r: &Req) -> Option<String> {
    if !super::FNS.contains(&r.f.as_str()) {
        return None;
    }
    let t = if r.s("t").is_empty() { "f64" } else { r.s("t") };
    if r.f == "vpct_change" {
        return match t {
            "f64" => pct_op!(r, f64, 99.),
            "of64" => pct_op!(r, Option<f64>, Some(99.)),
            "i32" => pct_op!(r, i32, 99),
            t => panic!("vpct_change: unsupported element type {t}"),
        };
    }
    if r.f == "abs" || r.f == "vdiff" {
        return match t {
            "f64" => num_ops!(r, f64, 99.),
            "i32" => num_ops!(r, i32, 99),
            t => panic!("{}: unsupported element type {t}", r.f),
        };
    }
    match t {
        "f64" => iter_ops!(r, f64),
        "of64" => iter_ops!(r, Option<f64>),
        "i32" => iter_ops!(r, i32),
        "oi32" => iter_ops!(r, Option<i32>),
        t => panic!("unknown element type {t}"),
    }
}
}

fn type_ok(f: &str, t: &str) -> bool {
    match f {
        "vpct_change" => matches!(t, "f64" | "of64" | "i32"),
        "abs" | "vdiff" => matches!(t, "f64" | "i32"),
        _ => matches!(t, "f64" | "of64" | "i32" | "oi32"),
    }
}

pub fn valid_case(r: &Req) -> bool {
    let f = r.f.as_str();
    if !FNS.contains(&f) {
        return false;
    }
    let t = if r.s("t").is_empty() { "f64" } else { r.s("t") };
    if !type_ok(f, t) {
        return false;
    }
    let int_t = matches!(t, "i32" | "oi32");
    let mut scalars: Vec<&str> = vec![];
    for k in ["v", "lo", "hi"] {
        if r.has(k) {
            scalars.push(r.s(k));
        }
    }
    let xs = r.list("xs");
    if int_t && (xs.iter().any(|x| x.contains('/')) || scalars.iter().any(|x| x.contains('/'))) {
        return false;
    }
    // one infinity at most, float encodings, series only (the model reads +-inf as +-2^1100, so a
    // difference or ratio of two infinities would be a number there and NaN in IEEE arithmetic)
    let n_inf = xs.iter().filter(|x| x.ends_with("inf")).count();
    if n_inf > 1 || scalars.iter().any(|x| x.ends_with("inf")) || (n_inf == 1 && int_t) {
        return false;
    }
    if t == "i32" {
        // a plain integer cannot be null, and `T::none()` is not defined for it
        if xs.iter().any(|x| *x == "_") || scalars.iter().any(|x| *x == "_") {
            return false;
        }
        if OPT_VALUE_FNS.contains(&f) && (!r.has("v") || r.s("v") == "-") {
            return false;
        }
    }
    if matches!(f, "shift" | "fill" | "fill_mask") && (!r.has("v") || r.s("v") == "-") {
        return false;
    }
    if f == "vclip" && !(r.has("lo") && r.has("hi")) {
        return false;
    }
    if f.ends_with("_mask") && !MASKS.contains(&r.s("m")) {
        return false;
    }
    if VIEW_FNS.contains(&f) && !r.s("b").is_empty() && !BACKENDS.contains(&r.s("b")) {
        return false;
    }
    if LAG_FNS.contains(&f) && r.s("lag").parse::<i32>().is_err() {
        return false;
    }
    true
}

/// branch tags for the evidence histogram
pub fn tags(r: &Req) -> Vec<String> {
    let mut t = vec![];
    let len = r.list("xs").len() as i64;
    if LAG_FNS.contains(&r.f.as_str()) {
        let n = r.i64("lag");
        t.push(
            if n == i32::MIN as i64 || n == i32::MAX as i64 { "lag=i32-extreme" }
            else if n == 0 { "lag=0" }
            else if n.abs() > len { "lag>len" }
            else if n.abs() == len { "lag=len" }
            else if n > 0 { "lag>0" }
            else { "lag<0" }
            .to_string(),
        );
    }
    if r.has("v") {
        t.push(format!("fill={}", match r.s("v") { "-" => "omitted", "_" => "null", _ => "value" }));
    }
    if r.f == "vclip" {
        let (lo, hi) = (r.opt_f64("lo"), r.opt_f64("hi"));
        t.push(match (lo, hi) {
            (None, None) => "bounds=none",
            (Some(_), None) => "bounds=lower",
            (None, Some(_)) => "bounds=upper",
            (Some(a), Some(b)) => if a < b { "bounds=lo<hi" } else if a == b { "bounds=lo=hi" } else { "bounds=lo>hi" },
        }.to_string());
    }
    if r.list("xs").iter().any(|x| *x == "_") {
        t.push("has-null".into());
    }
    t
}

/// element type for the `k`-th case of an operation, among those that can hold the series
fn pick_type(f: &str, has_null: bool, k: usize) -> &'static str {
    let all: &[&str] = match f {
        "vpct_change" => &["f64", "of64", "i32"],
        "abs" | "vdiff" => &["f64", "i32"],
        _ => &["f64", "of64", "i32", "oi32"],
    };
    let ok: Vec<&'static str> = all.iter().copied().filter(|t| !(has_null && *t == "i32")).collect();
    ok[k % ok.len()]
}

fn lags(len: usize) -> Vec<i64> {
    let l = len as i64;
    let mut v: Vec<i64> = (-l - 3..=l + 3).collect();
    v.push(i32::MIN as i64);
    v.push(i32::MAX as i64);
    v
}

fn emit(out: &mut Vec<String>, f: &str, xs: &[String], params: &[(&str, String)], k: usize) {
    let has_null = xs.iter().any(|x| x == "_") || params.iter().any(|(key, v)| matches!(*key, "v" | "lo" | "hi") && v == "_");
    let mut t = pick_type(f, has_null, k);
    if t == "i32" && OPT_VALUE_FNS.contains(&f) && params.iter().any(|(key, v)| *key == "v" && v == "-") {
        t = "f64";
    }
    let mut l = format!("{} t={}", f, t);
    if VIEW_FNS.contains(&f) {
        let bs = BACKENDS;
        l.push_str(&format!(" b={}", bs[(k / 2) % bs.len()]));
    }
    for (key, v) in params {
        l.push_str(&format!(" {}={}", key, v));
    }
    l.push_str(&format!(" xs={}", join(xs)));
    out.push(l);
}

/// C08: every null-aware mapping on every series over {null,-2,0,3} of length 0..=maxlen under each
/// null-capable element encoding the mapping accepts (NaN in f64, None in Option<f64> / Option<i32>):
/// the same logical series and parameters, one model result
pub fn encoding_cells(maxlen: usize) -> Vec<String> {
    let alpha: &[&str] = &["_", "-2", "0", "3"];
    let mut out = vec![];
    let encs = |f: &str| -> &'static [&'static str] {
        match f {
            "vpct_change" => &["f64", "of64"],
            "vdiff" => &["f64"],
            _ => &["f64", "of64", "oi32"],
        }
    };
    let mut push = |f: &str, xs: &[String], params: &[(&str, String)]| {
        for (j, t) in encs(f).iter().enumerate() {
            let mut l = format!("{} t={}", f, t);
            if VIEW_FNS.contains(&f) {
                l.push_str(&format!(" b={}", BACKENDS[j % BACKENDS.len()]));
            }
            for (key, v) in params {
                l.push_str(&format!(" {}={}", key, v));
            }
            l.push_str(&format!(" xs={}", join(xs)));
            out.push(l);
        }
    };
    for len in 0..=maxlen {
        for xs in all_series(alpha, len) {
            let l = len as i64;
            for n in [-l - 1, -l, -1, 0, 1, 2, l, l + 1] {
                for v in ["-", "_", "7"] {
                    push("vshift", &xs, &[("lag", n.to_string()), ("v", v.into())]);
                    push("vdiff", &xs, &[("lag", n.to_string()), ("v", v.into())]);
                }
                push("shift", &xs, &[("lag", n.to_string()), ("v", "_".into())]);
                push("vpct_change", &xs, &[("lag", n.to_string())]);
            }
            for v in ["-", "_", "7"] {
                push("ffill", &xs, &[("v", v.into())]);
                push("bfill", &xs, &[("v", v.into())]);
            }
            for v in ["_", "7"] {
                push("fill", &xs, &[("v", v.into())]);
            }
            for m in MASKS {
                push("ffill_mask", &xs, &[("m", m.to_string()), ("v", "-".into())]);
                push("bfill_mask", &xs, &[("m", m.to_string()), ("v", "7".into())]);
                push("fill_mask", &xs, &[("m", m.to_string()), ("v", "_".into())]);
            }
            for lo in ["_", "-3", "-1", "3"] {
                for hi in ["_", "-2", "0", "4"] {
                    push("vclip", &xs, &[("lo", lo.into()), ("hi", hi.into())]);
                }
            }
            push("vabs", &xs, &[]);
        }
    }
    out
}

pub fn generate(tier: &str, rng: &mut Rng) -> (Vec<String>, bool) {
    let thorough = tier == "thorough";
    let alpha: &[&str] = &["_", "-2", "0", "3"];
    let (len_lag, len_plain) = if thorough { (6, 6) } else { (4, 5) };
    let mut out = vec![];
    let mut k = 0usize;
    // ---- exhaustive-small stream -----------------------------------------------------------
    for len in 0..=len_plain {
        for xs in all_series(alpha, len) {
            if len <= len_lag {
                for n in lags(len) {
                    for v in ["_", "7"] {
                        emit(&mut out, "shift", &xs, &[("lag", n.to_string()), ("v", v.into())], k);
                        k += 1;
                    }
                    for v in ["-", "_", "7"] {
                        emit(&mut out, "vshift", &xs, &[("lag", n.to_string()), ("v", v.into())], k);
                        emit(&mut out, "vdiff", &xs, &[("lag", n.to_string()), ("v", v.into())], k);
                        k += 1;
                    }
                    emit(&mut out, "vpct_change", &xs, &[("lag", n.to_string())], k);
                    k += 1;
                }
                for m in MASKS {
                    for v in ["-", "_", "7"] {
                        emit(&mut out, "ffill_mask", &xs, &[("m", m.to_string()), ("v", v.into())], k);
                        emit(&mut out, "bfill_mask", &xs, &[("m", m.to_string()), ("v", v.into())], k);
                        k += 1;
                    }
                    for v in ["_", "7"] {
                        emit(&mut out, "fill_mask", &xs, &[("m", m.to_string()), ("v", v.into())], k);
                        k += 1;
                    }
                }
                // bounds in every order relation to the data {-2, 0, 3} and to each other
                let bounds = ["_", "-3", "-2", "-1", "0", "3", "4"];
                for lo in bounds {
                    for hi in bounds {
                        emit(&mut out, "vclip", &xs, &[("lo", lo.into()), ("hi", hi.into())], k);
                        k += 1;
                    }
                }
            }
            for v in ["-", "_", "7"] {
                emit(&mut out, "ffill", &xs, &[("v", v.into())], k);
                emit(&mut out, "bfill", &xs, &[("v", v.into())], k);
                k += 1;
            }
            for v in ["_", "7"] {
                emit(&mut out, "fill", &xs, &[("v", v.into())], k);
                k += 1;
            }
            emit(&mut out, "abs", &xs, &[], k);
            emit(&mut out, "vabs", &xs, &[], k + 1);
            k += 1;
        }
    }
    // every backend x every lag class on all series up to length 2 (view-based operations)
    for len in 0..=2 {
        for xs in all_series(alpha, len) {
            for (bi, b) in BACKENDS.iter().enumerate() {
                for n in lags(len) {
                    let has_null = xs.iter().any(|x| x == "_");
                    let t = if has_null || bi % 2 == 0 { "f64" } else { "i32" };
                    out.push(format!("vdiff t={} b={} lag={} v=7 xs={}", t, b, n, join(&xs)));
                    out.push(format!("vpct_change t={} b={} lag={} xs={}", t, b, n, join(&xs)));
                }
            }
        }
    }
    // one infinity among finite values and nulls: an infinite element is an observation, not a null
    for len in 1..=(if thorough { 5 } else { 4 }) {
        for rest in all_series(alpha, len - 1) {
            for pos in 0..len {
                for (gi, inf) in ["inf", "-inf"].iter().enumerate() {
                    let mut xs = rest.clone();
                    xs.insert(pos, inf.to_string());
                    let t = ["f64", "of64"][(pos + gi + len) % 2];
                    let x = join(&xs);
                    for n in [-2i32, -1, 1, 2] {
                        out.push(format!("vpct_change t={} b=vec lag={} xs={}", t, n, x));
                        out.push(format!("vdiff t=f64 b=vec lag={} v=_ xs={}", n, x));
                        out.push(format!("vshift t={} lag={} v=7 xs={}", t, n, x));
                    }
                    out.push(format!("ffill t={} v=- xs={}", t, x));
                    out.push(format!("bfill t={} v=7 xs={}", t, x));
                    out.push(format!("vabs t={} xs={}", t, x));
                    out.push(format!("vclip t={} lo=-1 hi=2 xs={}", t, x));
                    out.push(format!("vclip t={} lo=_ hi=_ xs={}", t, x));
                }
            }
        }
    }
    // ---- structured random stream ----------------------------------------------------------
    let n_rand = if thorough { 40000 } else { 6000 };
    let max_len = if thorough { 100 } else { 40 };
    for i in 0..n_rand {
        let f = FNS[i % FNS.len()];
        let len = if rng.chance(0.2) { rng.below(4) } else { rng.below(max_len + 1) };
        let int = rng.chance(0.4);
        let xs = rand_series(rng, len, 8, int, true);
        let sv = |rng: &mut Rng, allow_omit: bool| -> String {
            match rng.below(if allow_omit { 4 } else { 3 }) {
                0 => "_".into(),
                3 => "-".into(),
                _ => rand_val(rng, 8, int),
            }
        };
        let mut params: Vec<(&str, String)> = vec![];
        if LAG_FNS.contains(&f) {
            let l = len as i64;
            let n = match rng.below(10) {
                0 => i32::MIN as i64,
                1 => i32::MAX as i64,
                2 => 0,
                3 => l,
                4 => -l,
                _ => rng.range(-l - 3, l + 3),
            };
            params.push(("lag", n.to_string()));
        }
        if f.ends_with("_mask") {
            params.push(("m", rng.pick(MASKS).to_string()));
        }
        match f {
            "shift" | "fill" | "fill_mask" => params.push(("v", sv(rng, false))),
            "vshift" | "vdiff" | "ffill" | "bfill" | "ffill_mask" | "bfill_mask" => params.push(("v", sv(rng, true))),
            "vclip" => {
                params.push(("lo", sv(rng, false)));
                params.push(("hi", sv(rng, false)));
            },
            _ => {},
        }
        let mut line_k = rng.below(1 << 16);
        if !int {
            // fractional values: float element types only
            while matches!(pick_type(f, true, line_k), "i32" | "oi32") {
                line_k += 1;
            }
            let has_null = true;
            let t = pick_type(f, has_null, line_k);
            let mut l = format!("{} t={}", f, t);
            if VIEW_FNS.contains(&f) {
                let bs = BACKENDS;
                l.push_str(&format!(" b={}", bs[(line_k / 2) % bs.len()]));
            }
            for (key, v) in &params {
                l.push_str(&format!(" {}={}", key, v));
            }
            l.push_str(&format!(" xs={}", join(&xs)));
            out.push(l);
        } else {
            emit(&mut out, f, &xs, &params, line_k);
        }
    }
    out.retain(|l| valid_case(&Req::parse(l)));
    // the same requests at tiny scales (2^-40 .. 2^-60): non-zero values far below any epsilon
    crate::cases::add_scaled(&mut out, 7, &[40, 50, 60], &["xs"]);
    // … and in the subnormal range (2^-1060): a base that is neither null nor zero nor normal
    let n = out.len();
    let mut seen = 0usize;
    for i in 0..n {
        let mut r = Req::parse(&out[i]);
        let every = if r.f == "vpct_change" { 5 } else { 23 };
        seen += 1;
        if seen % every != 0 {
            continue;
        }
        if !LAG_FNS.contains(&r.f.as_str()) || !matches!(r.s("t"), "f64" | "of64") || !r.has("xs") || (r.has("v") && !matches!(r.s("v"), "-" | "_")) {
            continue;
        }
        let xs = r.list("xs");
        if xs.iter().any(|t| t.contains('/') && !t.split_once('/').map(|(_, q)| q.parse::<u32>().map(|q| q.is_power_of_two()).unwrap_or(false)).unwrap_or(false)) {
            continue;
        }
        let v = crate::cases::scale_down_big(&xs, 1060);
        r.set("xs", join(&v));
        out.push(r.line());
    }
    (out, true)
}

pub fn rule(tier: &str) -> String {
    let thorough = tier == "thorough";
    let (len_lag, len_plain) = if thorough { (6, 6) } else { (4, 5) };
    format!(
        "exhaustive: every series over {{null,-2,0,3}} of length 0..={len_lag} x (shift, vshift, vdiff, vpct_change) x every lag n in -len-3..=len+3 and i32::MIN, i32::MAX x fill in {{omitted, null, 7}} (shift: {{null, 7}}); the same series x (ffill_mask, bfill_mask, fill_mask) x 6 mask predicates x fill values; x vclip with lower, upper in {{null,-3,-2,-1,0,3,4}}^2 (every order relation to the data and to each other, null bounds); every series of length 0..={len_plain} x ffill, bfill, fill, abs, vabs; element type rotated over f64 / Option<f64> / i32 / Option<i32> (plain i32 only where no null occurs), input backend of the view-based vdiff / vpct_change rotated over 14 backends (Vec, [T;N], Arc<Vec>, VecDeque at head offsets 0/1/3, Arc<VecDeque>, Array1, ArrayViewMut1, ArrayView1 with step 1,2,3,-1,-2; a bare [T] cannot call them) and, for every series of length <= 2, all 14 backends x all lags. every series of length 1..=4 (5) over the same alphabet with exactly one element replaced by +inf or -inf (float encodings; the model reads +-inf as +-2^1100) x vpct_change, vdiff, vshift at lags +-1, +-2, ffill, bfill, vabs, vclip. random: {} cases, length <= {}, values k/8 with |k| <= 64 or integers, 9 null patterns, lags incl. 0, +-len and the i32 extremes; every 7th request repeated at scales 2^-40..2^-60 and every 23rd lagged one (every 5th vpct_change; float types) in the subnormal range (2^-1060). Iterators are drained with plain next() capped at len+8 items. non-trivial = len >= 2 and a non-null output.",
        if thorough { 40000 } else { 6000 },
        if thorough { 100 } else { 40 }
    )
}
