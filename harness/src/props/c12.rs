//! C12: quantile / median / percentile-of-score / rank / partition / arg-partition are order statistics
use crate::cases::*;
use crate::cmp::{tok_eq, Mode};
use crate::proto::Req;
use crate::rng::Rng;
pub use imp::run;

pub const FNS: &[&str] = &["vquantile", "vmedian", "vpercentile_of", "vrank", "vpartition", "varg_partition"];
const METHODS: &[&str] = &["linear", "lower", "higher", "midpoint"];
const PMETHODS: &[&str] = &["rank", "weak", "strict"];

/// calls into the repository; the only module that imports the prelude
mod imp {
use tevec::prelude::*;

use crate::proto::{show_list, Req, Tok};

/// element types the kernels are instantiated with
pub trait El: Sized + Clone {
    fn mk(v: Option<f64>) -> Self;
    fn optf(&self) -> Option<f64>;
}
impl El for f64 {
    fn mk(v: Option<f64>) -> Self { v.unwrap_or(f64::NAN) }
    fn optf(&self) -> Option<f64> { if self.is_nan() { None } else { Some(*self) } }
}
impl El for Option<f64> {
    fn mk(v: Option<f64>) -> Self { v }
    fn optf(&self) -> Option<f64> { *self }
}
impl El for i32 {
    fn mk(v: Option<f64>) -> Self { v.expect("null in integer series") as i32 }
    fn optf(&self) -> Option<f64> { Some(*self as f64) }
}
impl El for Option<i32> {
    fn mk(v: Option<f64>) -> Self { v.map(|x| x as i32) }
    fn optf(&self) -> Option<f64> { self.map(|x| x as f64) }
}

macro_rules! with_t {
    ($r:expr, $v:ident, $T:ident => $body:expr) => {{
        let __s = $r.series("xs");
        match $crate::types::elem_type($r) {
            "f64" => { type $T = f64; let $v: Vec<$T> = crate::types::as_f64(&__s); $body },
            "of64" => { type $T = Option<f64>; let $v: Vec<$T> = __s.iter().map(|x| <$T as El>::mk(*x)).collect(); $body },
            "i32" => { type $T = i32; let $v: Vec<$T> = __s.iter().map(|x| <$T as El>::mk(*x)).collect(); $body },
            "oi32" => { type $T = Option<i32>; let $v: Vec<$T> = __s.iter().map(|x| <$T as El>::mk(*x)).collect(); $body },
            t => panic!("unknown element type {t}"),
        }
    }};
}

/// values as tokens; unordered results are put in canonical order (ascending, nulls last)
fn show_vals(mut v: Vec<Option<f64>>, keep_order: bool) -> String {
    if !keep_order {
        v.sort_by(|a, b| match (a, b) {
            (Some(x), Some(y)) => x.partial_cmp(y).unwrap_or(std::cmp::Ordering::Equal),
            (None, None) => std::cmp::Ordering::Equal,
            (None, _) => std::cmp::Ordering::Greater,
            (_, None) => std::cmp::Ordering::Less,
        });
    }
    show_list(&v, |x| x.tok())
}

pub fn run(r: &Req) -> Option<String> {
    match r.f.as_str() {
        "vquantile" => {
            let q = r.f64("q");
            let m = match r.s("m") {
                "lower" => QuantileMethod::Lower,
                "higher" => QuantileMethod::Higher,
                "midpoint" => QuantileMethod::MidPoint,
                _ => QuantileMethod::Linear,
            };
            Some(with_t!(r, v, T => match v.vquantile(q, m) {
                Ok(x) => x.tok(),
                Err(_) => "E".to_string(),
            }))
        },
        "vmedian" => Some(with_t!(r, v, T => v.vmedian().tok())),
        "vpercentile_of" => {
            let m = match r.s("m") {
                "weak" => PercentileOfMethod::Weak,
                "strict" => PercentileOfMethod::Strict,
                _ => PercentileOfMethod::Rank,
            };
            let score = r.opt_f64("s");
            Some(with_t!(r, v, T => v.vpercentile_of(<T as El>::mk(score), m).tok()))
        },
        "vrank" if crate::types::elem_type(r) == "dt" => {
            // a time element type: NaT is the null, the order is the order of the timestamps
            let (pct, rev) = (r.bool("pct"), r.bool("rev"));
            let v: Vec<DateTime<unit::Nanosecond>> = r.series("xs").iter().map(|x| match x { Some(t) => DateTime::new(*t as i64), None => DateTime::nat() }).collect();
            let o: Vec<f64> = v.vrank(pct, rev);
            Some(crate::proto::toks(&o))
        },
        "vrank" => {
            let (pct, rev) = (r.bool("pct"), r.bool("rev"));
            Some(with_t!(r, v, T => match crate::types::out_type(r) {
                "of64" => { let o: Vec<Option<f64>> = v.vrank(pct, rev); crate::proto::toks(&o) },
                _ => { let o: Vec<f64> = v.vrank(pct, rev); crate::proto::toks(&o) },
            }))
        },
        "vpartition" => {
            let (k, sort, rev) = (r.usize("k"), r.bool("sort"), r.bool("rev"));
            Some(with_t!(r, v, T => {
                let mut out: Vec<Option<f64>> = vec![];
                for x in v.vpartition(k, sort, rev) {
                    out.push(x.optf());
                }
                show_vals(out, sort)
            }))
        },
        "varg_partition" => {
            let (k, sort, rev) = (r.usize("k"), r.bool("sort"), r.bool("rev"));
            Some(with_t!(r, v, T => {
                let mut idx: Vec<i32> = vec![];
                for x in v.varg_partition(k, sort, rev) {
                    idx.push(x);
                }
                super::arg_observe(&idx, &v.iter().map(|x| x.optf()).collect::<Vec<_>>(), sort, show_vals)
            }))
        },
        _ => None,
    }
}
}

/// observable of an arg-partition result: the values the indices point at (`_` for `-1`), and a flag
/// saying that the non-negative indices are in range, distinct, point at non-null elements and that
/// every `-1` comes last
fn arg_observe(idx: &[i32], xs: &[Option<f64>], sort: bool, show: fn(Vec<Option<f64>>, bool) -> String) -> String {
    let nonneg: Vec<i32> = idx.iter().cloned().filter(|i| *i >= 0).collect();
    let in_range = nonneg.iter().all(|i| (*i as usize) < xs.len() && xs[*i as usize].is_some());
    let mut d = nonneg.clone();
    d.sort();
    d.dedup();
    let distinct = d.len() == nonneg.len();
    let pad_last = idx.iter().skip_while(|i| **i >= 0).all(|i| *i == -1);
    let vals: Vec<Option<f64>> = idx.iter().map(|i| if *i < 0 { None } else { xs.get(*i as usize).cloned().flatten() }).collect();
    format!("{};{}", show(vals, sort), if in_range && distinct && pad_last { "1" } else { "0" })
}

/// DESIGN 5.5: for a quantile whose exact index `(n-1)q` is an integer while `q` is not a binary
/// fraction the model driver prints `exact;below;above`; the implementation may produce any of them
pub fn compare(r: &Req, imp: &str, model: &str) -> Option<bool> {
    if r.f == "vquantile" && model.contains(';') {
        let mode = Mode::of(crate::types::out_type(r));
        return Some(model.split(';').any(|alt| tok_eq(imp, alt, mode)));
    }
    None
}

fn is_int_tok(t: &str) -> bool {
    t == "_" || !t.contains('/')
}

pub fn valid_case(r: &Req) -> bool {
    if !FNS.contains(&r.f.as_str()) {
        return false;
    }
    let xs = r.list("xs");
    let t = crate::types::elem_type(r);
    if t == "i32" && (xs.iter().any(|x| *x == "_") || (r.has("s") && r.s("s") == "_")) {
        return false;
    }
    if matches!(t, "i32" | "oi32") && (xs.iter().any(|x| !is_int_tok(x)) || (r.has("s") && !is_int_tok(r.s("s")))) {
        return false;
    }
    if r.has("k") && r.usize("k") > xs.len() + 1 {
        return false;
    }
    // infinities: float encodings; no interpolating quantile, no percentile proportions of an infinite score
    if xs.iter().any(|x| x.ends_with("inf")) || (r.has("s") && r.s("s").ends_with("inf")) {
        if !matches!(t, "f64" | "of64")
            || !(matches!(r.f.as_str(), "vrank" | "vpartition" | "varg_partition")
                || (r.f == "vquantile" && matches!(r.s("m"), "lower" | "higher"))
                // midpoint of two order statistics of which none or one sign is infinite:
                // (inf + inf) / 2 = inf, (x + inf) / 2 = inf; inf + -inf is undefined
                || (r.f == "vquantile" && r.s("m") == "midpoint"
                    && !(xs.iter().any(|x| *x == "inf") && xs.iter().any(|x| *x == "-inf")))) {
            return false;
        }
    }
    // a plain integer element type has no null to pad a partition with (`T::none()` panics by design)
    if r.f == "vpartition" && t == "i32" && r.usize("k") + 1 > xs.len() {
        return false;
    }
    true
}

/// element type for a series: rotated; the plain integer type only without nulls
fn pick_type(xs: &[String], k: usize, int_only: bool) -> &'static str {
    let has_null = xs.iter().any(|x| x == "_");
    let all_int = xs.iter().all(|x| is_int_tok(x));
    let mut c: Vec<&'static str> = vec![];
    if !int_only {
        c.push("f64");
        c.push("of64");
    }
    if all_int {
        c.push("oi32");
        if !has_null {
            c.push("i32");
        }
    }
    if c.is_empty() {
        c.push("f64");
    }
    c[k % c.len()]
}

/// `vpartition` cannot pad a plain integer vector: use the Option type when padding is needed
fn part_type(t: &'static str, k: usize, len: usize) -> &'static str {
    if t == "i32" && k + 1 > len { "oi32" } else { t }
}

fn gcd(a: usize, b: usize) -> usize {
    if b == 0 { a } else { gcd(b, a % b) }
}
fn frac(p: usize, q: usize) -> String {
    let g = gcd(p, q).max(1);
    if q / g == 1 { format!("{}", p / g) } else { format!("{}/{}", p / g, q / g) }
}

/// the quantile grid for a series with `n` valid elements: binary fractions j/8, the exact rank
/// positions j/(n-1) (integer index, possibly inexact in f64: DESIGN 5.5), their midpoints j/(2(n-1)),
/// and two values outside [0,1]
fn q_grid(n: usize) -> Vec<String> {
    let mut g: Vec<String> = (0..=8).map(|j| frac(j, 8)).collect();
    if n >= 2 {
        for j in 0..=2 * (n - 1) {
            g.push(frac(j, 2 * (n - 1)));
        }
    }
    g.push("1/16".into());
    g.push("15/16".into());
    g.push("-1/8".into());
    g.push("9/8".into());
    g.sort();
    g.dedup();
    g
}

fn n_valid(xs: &[String]) -> usize {
    xs.iter().filter(|x| *x != "_").count()
}

pub fn generate(tier: &str, rng: &mut Rng) -> (Vec<String>, bool) {
    let mut out = vec![];
    let thorough = tier == "thorough";
    let alpha: &[&str] = if thorough { &["_", "0", "1", "2", "-3/2"] } else { &["_", "0", "1", "2"] };
    // exhaustive-small stream: full products up to `full`, rotated configurations up to `rot`
    let (full, rot) = if thorough { (5, 7) } else { (4, 6) };
    let scores: &[&str] = &["_", "-1", "0", "1", "2", "3", "1/2"];
    for len in 0..=rot {
        let series = all_series(alpha, len);
        for (si, xs) in series.iter().enumerate() {
            let x = join(xs);
            let n = n_valid(xs);
            let exhaustive = len <= full;
            // quantile
            let grid = q_grid(n);
            for (qi, q) in grid.iter().enumerate() {
                for (mi, m) in METHODS.iter().enumerate() {
                    if exhaustive || (qi + mi + si) % 16 == 0 {
                        out.push(format!("vquantile t={} q={} m={} xs={}", pick_type(xs, si + qi + mi, false), q, m, x));
                    }
                }
            }
            out.push(format!("vmedian t={} xs={}", pick_type(xs, si, false), x));
            // percentile of score
            for (ci, s) in scores.iter().enumerate() {
                for (mi, m) in PMETHODS.iter().enumerate() {
                    if exhaustive || (ci + mi + si) % 8 == 0 {
                        let t = pick_type(xs, si + ci + mi, false);
                        let t = if s.contains('/') && t.ends_with("i32") {
                            if si % 2 == 0 { "f64" } else { "of64" }
                        } else if *s == "_" && t == "i32" {
                            "oi32"
                        } else {
                            t
                        };
                        out.push(format!("vpercentile_of t={} s={} m={} xs={}", t, s, m, x));
                    }
                }
            }
            // rank
            for pct in 0..2 {
                for rev in 0..2 {
                    if exhaustive || len <= full + 1 || (pct * 2 + rev + si) % 4 == 0 {
                        let o = if (si + pct + rev) % 2 == 0 { "f64" } else { "of64" };
                        out.push(format!("vrank t={} o={} pct={} rev={} xs={}", pick_type(xs, si + pct + rev, false), o, pct, rev, x));
                        if (si + pct + rev) % 4 == 0 && !x.contains('/') {
                            out.push(format!("vrank t=dt o=f64 pct={} rev={} xs={}", pct, rev, x));
                        }
                    }
                }
            }
            // partitions
            for k in 0..=len + 1 {
                for sort in 0..2 {
                    for rev in 0..2 {
                        if exhaustive || (k + sort * 2 + rev + si) % 8 == 0 {
                            out.push(format!("vpartition t={} k={} sort={} rev={} xs={}", part_type(pick_type(xs, si + k + sort, false), k, len), k, sort, rev, x));
                        }
                        if exhaustive || (k + sort * 2 + rev + si) % 8 == 1 {
                            out.push(format!("varg_partition t={} k={} sort={} rev={} xs={}", pick_type(xs, si + k + rev, false), k, sort, rev, x));
                        }
                    }
                }
            }
        }
    }
    // the two infinities: ranks, partitions and the lower / higher quantiles only compare
    for len in 1..=(if thorough { 5 } else { 4 }) {
        for (si, xs) in all_series(&["_", "-inf", "2", "inf"], len).iter().enumerate() {
            if !xs.iter().any(|v| v.ends_with("inf")) {
                continue;
            }
            let x = join(xs);
            let t = ["f64", "of64"][si % 2];
            for rev in 0..2 {
                out.push(format!("vrank t={} o=f64 pct={} rev={} xs={}", t, (si + rev) % 2, rev, x));
                for k in 0..=len {
                    let sort = (si + k + rev) % 2;
                    out.push(format!("vpartition t={} k={} sort={} rev={} xs={}", t, k, sort, rev, x));
                    out.push(format!("varg_partition t={} k={} sort={} rev={} xs={}", t, k, 1 - sort, rev, x));
                }
            }
            for q in ["0", "1/4", "1/2", "3/4", "1"] {
                out.push(format!("vquantile t={} q={} m={} xs={}", t, q, ["lower", "higher"][si % 2], x));
                if !(xs.iter().any(|v| v == "inf") && xs.iter().any(|v| v == "-inf")) {
                    out.push(format!("vquantile t={} q={} m=midpoint xs={}", t, q, x));
                }
            }
        }
    }
    // structured random stream
    let n_rand = if thorough { 150000 } else { 8000 };
    let max_len = if thorough { 200 } else { 40 };
    for i in 0..n_rand {
        let len = if rng.chance(0.6) { rng.below(12) } else { rng.below(max_len + 1) };
        let t = ["f64", "of64", "oi32", "i32"][rng.below(4)];
        let int = t.ends_with("i32");
        let mag = if rng.chance(0.5) { 2 } else { 8 }; // small magnitude => many ties
        let xs = rand_series(rng, len, mag, int, t != "i32");
        let x = join(&xs);
        let n = n_valid(&xs);
        match i % 6 {
            0 => {
                let q = if n >= 2 && rng.chance(0.4) {
                    let d = if rng.chance(0.5) { n - 1 } else { 2 * (n - 1) };
                    frac(rng.below(d + 1), d)
                } else {
                    frac(rng.below(65), 64)
                };
                out.push(format!("vquantile t={} q={} m={} xs={}", t, q, METHODS[rng.below(4)], x));
            },
            1 => out.push(format!("vmedian t={} xs={}", t, x)),
            2 => {
                let s = if rng.chance(0.1) && t != "i32" {
                    "_".to_string()
                } else if !xs.is_empty() && rng.chance(0.6) {
                    let c = xs[rng.below(xs.len())].clone();
                    if c == "_" { rand_val(rng, mag, int) } else { c }
                } else {
                    rand_val(rng, mag, int)
                };
                out.push(format!("vpercentile_of t={} s={} m={} xs={}", t, s, PMETHODS[rng.below(3)], x));
            },
            3 => out.push(format!("vrank t={} o={} pct={} rev={} xs={}", t, ["f64", "of64"][rng.below(2)], rng.below(2), rng.below(2), x)),
            4 => {
                let k = rng.below(len + 2);
                out.push(format!("vpartition t={} k={} sort={} rev={} xs={}", part_type(t, k, len), k, rng.below(2), rng.below(2), x));
            },
            _ => out.push(format!("varg_partition t={} k={} sort={} rev={} xs={}", t, rng.below(len + 2), rng.below(2), rng.below(2), x)),
        }
    }
    (out, true)
}

pub fn rule(tier: &str) -> String {
    let thorough = tier == "thorough";
    format!("vquantile, vmedian, vpercentile_of, vrank, vpartition, varg_partition on Vec input, element types f64 / Option<f64> / i32 / Option<i32> rotated (rank output Vec<f64> / Vec<Option<f64>>). Exhaustive stream: every series over {} up to length {} x [quantile: every q in {{j/8}} U {{j/(2(n-1))}} U {{1/16,15/16}} U {{-1/8,9/8}} (n = valid count; j/(n-1) has an integer index that may be inexact in f64 and is accepted with either neighbour, DESIGN 5.5) x 4 interpolations | median | percentile: scores {{null,-1,0,1,2,3,1/2}} x rank/weak/strict | rank: pct x rev | partition and arg-partition: every k in 0..=len+1 x sort x rev]; lengths {}..={} with the same series but a rotating 1/4..1/16 subset of the configurations. vpartition on the plain i32 type only with k+1 <= len (that type has no null to pad with). Unsorted partitions are compared as multisets; arg-partitions through the values their indices point at plus a validity flag (in range, distinct, non-null, -1 last). Random stream: lengths up to {}, values k/8 with |k| <= 16 or 64 (ties), 9 null patterns, q in j/64 or j/(n-1), j/(2(n-1)), k in 0..=len+1. Ranks, partitions, arg-partitions and the lower / higher quantiles also run on every series over {{null,-inf,2,+inf}} up to length 4 (5) containing an infinity (the model reads +-inf as +-2^1100), the midpoint quantile on those with infinities of one sign only. non-trivial = distinct request with >= 2 input elements and >= 1 non-null output token.",
        if thorough { "{null,0,1,2,-3/2}" } else { "{null,0,1,2}" },
        if thorough { 5 } else { 4 },
        if thorough { 6 } else { 5 },
        if thorough { 7 } else { 6 },
        if thorough { 200 } else { 40 })
}
