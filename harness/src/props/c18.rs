//! C18: text parsers (`TimeDelta::parse`, `DateTime::parse`/`strftime`, `Time::parse`) are total and
//! round-trip with their formatters.
//!
//! Strings travel as comma separated decimal code points (`s=49,100` = "1d", `s=[]` = "").
//! For the date-time and time-of-day requests the generator also records chrono's own answers
//! for the text (`cdt`, `cd`, `ct`): chrono is a *parameter* of the Lean model, and these fields are
//! the value of that parameter at the generated point (computed with chrono directly, never through
//! the code under test).
use chrono::{NaiveDate, NaiveDateTime, NaiveTime, Timelike};

use crate::proto::Req;
use crate::rng::Rng;
pub use imp::run;

/// copy of `TIME_RULE_VEC` (private in tea-time); the Lean model has its own copy, tied to the source
/// by the translator (`timeRuleVec_matches`)
pub const TIME_RULE_VEC: [&str; 11] = [
    "%Y-%m-%d %H:%M:%S",
    "%Y-%m-%d %H:%M:%S.%f",
    "%Y-%m-%d",
    "%Y%m%d",
    "%Y%m%d %H%M%S",
    "%d/%m/%Y",
    "%d/%m/%Y H%M%S",
    "%Y%m%d%H%M%S",
    "%d/%m/%YH%M%S",
    "%Y/%m/%d",
    "%Y/%m/%d %H:%M:%S",
];
pub const DEFAULT_FMT: &str = "%Y-%m-%d %H:%M:%S.%f";
pub const UNITS: &[&str] = &["s", "ms", "us", "ns"];
pub const FNS: &[&str] = &["td_parse", "td_total", "dt_parse", "dt_total", "dt_rt", "dt_rtl", "time_parse", "time_total"];

pub fn enc(s: &str) -> String {
    if s.is_empty() { "[]".into() } else { s.chars().map(|c| (c as u32).to_string()).collect::<Vec<_>>().join(",") }
}

pub fn dec(v: &str) -> String {
    crate::proto::split_list(v).iter().filter_map(|t| t.parse::<u32>().ok()).filter_map(char::from_u32).collect()
}

mod imp {
use std::panic::{catch_unwind, AssertUnwindSafe};

use tea_time::unit::{Microsecond, Millisecond, Nanosecond, Second};
use tea_time::{DateTime, Time, TimeDelta};

use super::{dec, DEFAULT_FMT, TIME_RULE_VEC};
use crate::proto::Req;

/// error kind from the message text (the only observable of a `TError::ParseError`); matched on the
/// fixed prefix of each message so that echoed input text cannot influence the classification
fn err_tok(msg: &str) -> String {
    let m = msg.strip_prefix("Parse error: ").unwrap_or(msg);
    if m.starts_with("invalid number") {
        "E:num".into()
    } else if m.starts_with("expected a unit") {
        "E:nounit".into()
    } else if m.starts_with("unit: ") {
        "E:badunit".into()
    } else if m.starts_with("duration overflow") {
        "E:overflow".into()
    } else if m.starts_with("datetime ") && m.ends_with("is out of range for nanosecond precision") {
        "E:range".into()
    } else if m.starts_with("Failed to parse datetime") {
        "E:parse".into()
    } else {
        format!("E:?{}", m.replace(|c: char| c == ',' || c == ';' || c.is_whitespace(), "_"))
    }
}

fn td(s: &str, ep: &str) -> String {
    let res = catch_unwind(AssertUnwindSafe(|| if ep == "fs" { s.parse::<TimeDelta>() } else { TimeDelta::parse(s) }));
    match res {
        Ok(Ok(t)) => {
            let total = t.inner.num_seconds() as i128 * 1_000_000_000 + t.inner.subsec_nanos() as i128;
            format!("V:{}:{}", t.months, total)
        },
        Ok(Err(e)) => err_tok(&e.to_string()),
        Err(_) => "P".into(),
    }
}

macro_rules! with_unit {
    ($u:expr, $U:ident => $e:expr) => {
        match $u {
            "s" => { type $U = Second; $e },
            "ms" => { type $U = Millisecond; $e },
            "us" => { type $U = Microsecond; $e },
            _ => { type $U = Nanosecond; $e },
        }
    };
}

/// the format argument of a request: `f=d` / absent = None, `f=<index>` = a listed format,
/// anything else = code points of an explicit format
fn fmt_of(r: &Req) -> Option<String> {
    if !r.has("f") || r.s("f") == "d" {
        return None;
    }
    if !r.s("f").contains(',') {
        if let Ok(i) = r.s("f").parse::<usize>() {
            if i < TIME_RULE_VEC.len() {
                return Some(TIME_RULE_VEC[i].to_string());
            }
        }
    }
    Some(dec(r.s("f")))
}

fn dt(r: &Req, s: &str) -> String {
    let fmt = fmt_of(r);
    let ep = r.s("ep");
    with_unit!(r.s("u"), U => {
        let res = catch_unwind(AssertUnwindSafe(|| {
            if ep == "fs" && fmt.is_none() { s.parse::<DateTime<U>>() } else { DateTime::<U>::parse(s, fmt.as_deref()) }
        }));
        match res {
            Ok(Ok(x)) => format!("V:{}", x.0),
            Ok(Err(e)) => err_tok(&e.to_string()),
            Err(_) => "P".into(),
        }
    })
}

fn dt_rt(r: &Req) -> String {
    let v = r.i64("v");
    let fmt = fmt_of(r);
    with_unit!(r.s("u"), U => {
        let res = catch_unwind(AssertUnwindSafe(|| {
            let x = DateTime::<U>::new(v);
            let text = x.strftime(fmt.as_deref());
            DateTime::<U>::parse(&text, fmt.as_deref())
        }));
        match res {
            Ok(Ok(x)) => format!("V:{}", x.0),
            Ok(Err(e)) => err_tok(&e.to_string()),
            Err(_) => "P".into(),
        }
    })
}

/// format with the listed rule, parse back through the format list (`parse(s, None)`, what `FromStr` does)
fn dt_rtl(r: &Req) -> String {
    let v = r.i64("v");
    let fmt = fmt_of(r);
    with_unit!(r.s("u"), U => {
        let res = catch_unwind(AssertUnwindSafe(|| {
            let x = DateTime::<U>::new(v);
            let text = x.strftime(fmt.as_deref());
            if r.s("ep") == "fs" { text.parse::<DateTime<U>>() } else { DateTime::<U>::parse(&text, None) }
        }));
        match res {
            Ok(Ok(x)) => format!("V:{}", x.0),
            Ok(Err(e)) => err_tok(&e.to_string()),
            Err(_) => "P".into(),
        }
    })
}

fn time(r: &Req, s: &str) -> String {
    let fmt = if r.has("f") { Some(dec(r.s("f"))) } else { None };
    let res = catch_unwind(AssertUnwindSafe(|| Time::parse(s, fmt.as_deref())));
    match res {
        Ok(Ok(x)) => format!("V:{}", x.0),
        Ok(Err(_)) => "E:parse".into(),
        Err(_) => "P".into(),
    }
}

fn total(out: String) -> String {
    if out.starts_with('P') { "P".into() } else { "T".into() }
}

pub fn run(r: &Req) -> Option<String> {
    let _ = DEFAULT_FMT;
    let s = dec(r.s("s"));
    match r.f.as_str() {
        "td_parse" => Some(td(&s, r.s("ep"))),
        "td_total" => Some(total(td(&s, r.s("ep")))),
        "dt_parse" => Some(dt(r, &s)),
        "dt_total" => Some(total(dt(r, &s))),
        "dt_rt" => Some(dt_rt(r)),
        "dt_rtl" => Some(dt_rtl(r)),
        "time_parse" => Some(time(r, &s)),
        "time_total" => Some(total(time(r, &s))),
        _ => None,
    }
}
}

// ---------------------------------------------------------------------------------------------
// chrono's answers (the parameter of the model)

fn epoch() -> NaiveDate {
    NaiveDate::from_ymd_opt(1970, 1, 1).unwrap()
}

fn cdt_tok(s: &str, fmt: &str) -> String {
    match NaiveDateTime::parse_from_str(s, fmt) {
        Ok(x) => format!("{}:{}", x.and_utc().timestamp(), x.and_utc().timestamp_subsec_nanos()),
        Err(_) => "_".into(),
    }
}

fn cd_tok(s: &str, fmt: &str) -> String {
    match NaiveDate::parse_from_str(s, fmt) {
        Ok(d) => format!("{}", d.signed_duration_since(epoch()).num_days()),
        Err(_) => "_".into(),
    }
}

/// `cdt=.. cd=..` for a text and either the whole format list (None) or one explicit format
fn chrono_fields(s: &str, fmt: Option<&str>) -> String {
    let fmts: Vec<&str> = match fmt {
        None => TIME_RULE_VEC.to_vec(),
        Some(f) => vec![f],
    };
    let a: Vec<String> = fmts.iter().map(|f| cdt_tok(s, f)).collect();
    let b: Vec<String> = fmts.iter().map(|f| cd_tok(s, f)).collect();
    format!("cdt={} cd={}", a.join(","), b.join(","))
}

fn ct_tok(s: &str, fmt: Option<&str>) -> String {
    let r = match fmt {
        Some(f) => NaiveTime::parse_from_str(s, f),
        None => s.parse::<NaiveTime>(),
    };
    match r {
        Ok(t) => format!("{}:{}", t.num_seconds_from_midnight(), t.nanosecond()),
        Err(_) => "_".into(),
    }
}

/// text of tick count `v` in unit `u` under `fmt`, by chrono alone (None: outside chrono's range)
fn chrono_format(u: &str, v: i64, fmt: &str) -> Option<String> {
    let dt = match u {
        "s" => chrono::DateTime::from_timestamp(v, 0)?,
        "ms" => chrono::DateTime::from_timestamp_millis(v)?,
        "us" => chrono::DateTime::from_timestamp_micros(v)?,
        _ => chrono::DateTime::from_timestamp_nanos(v),
    };
    Some(dt.format(fmt).to_string())
}

// ---------------------------------------------------------------------------------------------
// request builders

fn td_lines(out: &mut Vec<String>, s: &str, ep: &str) {
    let e = enc(s);
    out.push(format!("td_parse s={} ep={}", e, ep));
    out.push(format!("td_total s={} ep={}", e, ep));
}

fn dt_lines(out: &mut Vec<String>, s: &str, u: &str, f: Option<usize>, ep: &str) {
    let (ftok, fmt) = match f {
        None => ("d".to_string(), None),
        Some(i) => (i.to_string(), Some(TIME_RULE_VEC[i])),
    };
    let c = chrono_fields(s, fmt);
    out.push(format!("dt_parse u={} s={} f={} ep={} {}", u, enc(s), ftok, ep, c));
    out.push(format!("dt_total u={} s={} f={} ep={} {}", u, enc(s), ftok, ep, c));
}

/// explicit (possibly malformed) format string
fn dt_lines_fmt(out: &mut Vec<String>, s: &str, u: &str, fmt: &str) {
    if fmt.is_empty() || (!fmt.contains(',') && fmt.parse::<usize>().is_ok()) {
        return;
    }
    let c = chrono_fields(s, Some(fmt));
    let f = enc(fmt);
    if !f.contains(',') {
        return; // one-character formats would read as an index
    }
    out.push(format!("dt_parse u={} s={} f={} ep=p {}", u, enc(s), f, c));
    out.push(format!("dt_total u={} s={} f={} ep=p {}", u, enc(s), f, c));
}

fn rt_line(out: &mut Vec<String>, u: &str, v: i64, f: Option<usize>) {
    let fmt = f.map(|i| TIME_RULE_VEC[i]);
    let text = match chrono_format(u, v, fmt.unwrap_or(DEFAULT_FMT)) {
        Some(t) => t,
        None => return, // not a valid date-time (outside chrono's range): formatting is out of scope
    };
    let c = chrono_fields(&text, fmt);
    let ftok = match f {
        None => "d".to_string(),
        Some(i) => i.to_string(),
    };
    out.push(format!("dt_rt u={} v={} f={} s={} {}", u, v, ftok, enc(&text), c));
    if f.is_some() {
        // the same text read back through the whole format list
        out.push(format!("dt_rtl u={} v={} f={} s={} {}", u, v, ftok, enc(&text), chrono_fields(&text, None)));
    }
}

fn time_lines(out: &mut Vec<String>, s: &str, fmt: Option<&str>) {
    let ct = ct_tok(s, fmt);
    let f = match fmt {
        Some(f) if !f.is_empty() => format!(" f={}", enc(f)),
        _ => String::new(),
    };
    if fmt.is_some() && f.is_empty() {
        return;
    }
    out.push(format!("time_parse s={}{} ct={}", enc(s), f, ct));
    out.push(format!("time_total s={}{} ct={}", enc(s), f, ct));
}

// ---------------------------------------------------------------------------------------------
// generators

pub const TD_UNITS: &[&str] = &["ns", "us", "ms", "s", "m", "h", "d", "w", "mo", "y"];
/// alphabet of the exhaustive small-string stream
pub const SMALL_ALPHABET: &[char] = &['0', '7', '-', '+', 'm', 's', 'o', 'x', ' ', 'é'];
/// characters inserted / substituted by the mutation stream
pub const MUT_CHARS: &[char] = &[' ', '-', '+', 'a', 'Z', 'é', '漢', '😀', '.', '1', '\u{0}', 'n', 's', '\u{661}'];

fn all_strings(alpha: &[char], maxlen: usize) -> Vec<String> {
    let mut res = vec![String::new()];
    let mut layer = vec![String::new()];
    for _ in 0..maxlen {
        let mut next = vec![];
        for s in &layer {
            for c in alpha {
                let mut t = s.clone();
                t.push(*c);
                next.push(t);
            }
        }
        res.extend(next.iter().cloned());
        layer = next;
    }
    res
}

/// numbers around every threshold of the accumulators (as digit strings, unsigned)
fn boundary_numbers() -> Vec<String> {
    let mut v: Vec<i128> = vec![0, 1, 9, 10, 99, 100];
    let i64max = i64::MAX as i128;
    let i32max = i32::MAX as i128;
    let dur_secs = i64max / 1000;
    for k in [1i128, 60, 3600, 86400, 604800, 1000, 1_000_000] {
        for base in [i64max, dur_secs, i64max + 1] {
            let q = base / k;
            for d in [-1i128, 0, 1] {
                v.push(q + d);
            }
        }
    }
    for k in [1i128, 12] {
        for base in [i32max, i32max + 1, 1i128 << 32] {
            let q = base / k;
            for d in [-1i128, 0, 1, 2] {
                v.push(q + d);
            }
        }
    }
    v.push(i64max * 10);
    v.push(99_999_999_999_999_999_999);
    v.push(10_000_000_000_000_000_000);
    v.push(9_999_999_999_999_999);
    v.push(200_000_000);
    v.push(4_294_967_297);
    v.sort();
    v.dedup();
    let mut out: Vec<String> = v.into_iter().filter(|x| *x >= 0).map(|x| x.to_string()).collect();
    out.push("007".into());
    out.push("00000000000000000000001".into());
    out
}

fn mutations(base: &str) -> Vec<String> {
    let cs: Vec<char> = base.chars().collect();
    let mut out = vec![];
    for i in 0..=cs.len() {
        for m in MUT_CHARS {
            let mut t = cs.clone();
            t.insert(i, *m);
            out.push(t.iter().collect());
        }
        if i < cs.len() {
            let mut t = cs.clone();
            t.remove(i);
            out.push(t.iter().collect());
            for m in MUT_CHARS {
                let mut t = cs.clone();
                t[i] = *m;
                out.push(t.iter().collect());
            }
            if i + 1 < cs.len() {
                let mut t = cs.clone();
                t.swap(i, i + 1);
                out.push(t.iter().collect());
            }
        }
    }
    out
}

fn random_term(rng: &mut Rng) -> String {
    let sign = *rng.pick(&["", "", "-", "+"]);
    let width = match rng.below(10) {
        0 => rng.range(17, 20) as usize,
        1 => rng.range(8, 16) as usize,
        _ => rng.range(1, 5) as usize,
    };
    let mut digits = String::new();
    for _ in 0..width {
        digits.push((b'0' + rng.below(10) as u8) as char);
    }
    format!("{}{}{}", sign, digits, rng.pick(TD_UNITS))
}

fn td_stream(tier: &str, rng: &mut Rng) -> Vec<String> {
    let thorough = tier == "thorough";
    let mut out = vec![];
    // E1: every string over the small alphabet
    for s in all_strings(SMALL_ALPHABET, if thorough { 5 } else { 4 }) {
        td_lines(&mut out, &s, "p");
    }
    // E2: every sequence of one or two terms over {sign} x {0,1,12} x {unit}
    let mut terms = vec![];
    for sg in ["", "+", "-"] {
        for n in ["0", "1", "12"] {
            for u in TD_UNITS {
                terms.push(format!("{}{}{}", sg, n, u));
            }
        }
    }
    for a in &terms {
        td_lines(&mut out, a, "fs");
        for b in &terms {
            td_lines(&mut out, &format!("{}{}", a, b), "p");
        }
    }
    // E3: every unit x sign x boundary number, alone and followed / preceded by a small term
    let nums = boundary_numbers();
    for u in TD_UNITS {
        for sg in ["", "-", "+"] {
            for n in &nums {
                let t = format!("{}{}{}", sg, n, u);
                td_lines(&mut out, &t, "p");
                for extra in ["1", "-1"] {
                    td_lines(&mut out, &format!("{}{}{}", t, extra, u), "p");
                    td_lines(&mut out, &format!("{}{}{}", extra, u, t), "p");
                }
            }
        }
    }
    // crafted sums at the Duration bounds and partial-sum overflows
    for s in [
        "9223372036854775s807ms", "9223372036854775s807ms1ns", "-9223372036854775s-807ms", "-9223372036854775s-807ms-1ns",
        "9223372036854775s808ms", "9223372036854775807ns1ns-5ns", "9223372036854775807ns-5ns1ns", "2147483647mo1mo-1mo",
        "2147483647mo-1mo1mo", "178956970y7mo", "178956970y8mo", "-178956970y-8mo", "-178956970y-9mo", "15250284452w3d",
        "9223372036854775s9223372036854775807ns", "1y2mo3d4h5m6s", "2y1mo-3d5h-2m3s", "1d12h30m", "500ms", "1us", "100ns",
    ] {
        td_lines(&mut out, s, "p");
        td_lines(&mut out, s, "fs");
    }
    // E4: mutations of well-formed strings at every position
    for base in ["1d", "-3h", "12mo", "1y2mo", "+5ms10us", "2y1mo-3d5h-2m3s", "100ns", "1w1d"] {
        for m in mutations(base) {
            td_lines(&mut out, &m, "p");
        }
    }
    // R: grammar based random strings (0..=6 terms) and random mutations of them
    let n_rand = if thorough { 300_000 } else { 6_000 };
    for _ in 0..n_rand {
        let k = rng.below(7);
        let mut s = String::new();
        for _ in 0..k {
            s.push_str(&random_term(rng));
        }
        td_lines(&mut out, &s, if rng.chance(0.3) { "fs" } else { "p" });
        if rng.chance(0.5) {
            let mut cs: Vec<char> = s.chars().collect();
            for _ in 0..rng.range(1, 3) {
                let pos = rng.below(cs.len() + 1);
                match rng.below(3) {
                    0 => cs.insert(pos, *rng.pick(MUT_CHARS)),
                    1 if pos < cs.len() => {
                        cs.remove(pos);
                    },
                    _ if pos < cs.len() => cs[pos] = *rng.pick(MUT_CHARS),
                    _ => {},
                }
            }
            td_lines(&mut out, &cs.iter().collect::<String>(), "p");
        }
    }
    out
}

/// tick counts worth formatting in unit `u`
fn rt_values(u: &str, tier: &str, rng: &mut Rng) -> Vec<i64> {
    let per: i64 = match u {
        "s" => 1,
        "ms" => 1000,
        "us" => 1_000_000,
        _ => 1_000_000_000,
    };
    let mut v: Vec<i64> = vec![];
    // civil instants (seconds since the epoch) scaled to the unit, with sub-second parts
    let secs: &[i64] = &[
        0, 1, -1, 59, 60, 86399, 86400, -86400, -86401, 951782400, 951868799, 1582934400, 1709251199, 1704067200, 2145916800,
        -2208988800, 4102444800, 253402300799, -30610224000, -62135596800, // 1900, 2100, 9999-12-31T23:59:59, 1000-01-01, 0001-01-01
        -9223372036, 9223372036, -9223372037, 9223372035,                   // edges of the nanosecond range
        253402300800, -62135596801, -62167219200, -62167219201, -62198755200, // years 10000, 0, -1
        8210266876799, -8334601228800, 8210266876800, -8334601228801,         // chrono's MAX_UTC / MIN_UTC and one beyond
    ];
    for s in secs {
        for frac in [0i64, 1, per / 2, per - 1] {
            if frac < per {
                if let Some(x) = s.checked_mul(per).and_then(|x| x.checked_add(frac)) {
                    v.push(x);
                }
            }
        }
    }
    v.extend([i64::MAX, i64::MIN + 2, i64::MAX - 1]); // (MIN + 1 would make the generic shrinker evaluate i64::MIN.abs())
    let n = if tier == "thorough" { 4000 } else { 150 };
    for _ in 0..n {
        // mostly years 1000..=9999, sometimes anywhere in chrono's range (years -262143..=262142)
        let s = if rng.chance(0.8) { rng.range(-30610224000, 253402300799) } else { rng.range(-8334601228800, 8210266876799) };
        let f = rng.range(0, per - 1);
        if let Some(x) = s.checked_mul(per).and_then(|x| x.checked_add(f)) {
            v.push(x);
        }
    }
    v.sort();
    v.dedup();
    v
}

fn dt_stream(tier: &str, rng: &mut Rng) -> Vec<String> {
    let thorough = tier == "thorough";
    let mut out = vec![];
    // round trips: every unit x default format and the eleven listed formats x value grid
    // the same instant (whole seconds) at the four units one after the other, formatted with a listed
    // rule (the same text at every unit) and read back through `FromStr`
    for secs in [0i64, 1, -1, 59, 86_399, 86_400, -86_401, 951_782_400, 1_577_836_800, 1_709_210_096, 4_102_444_800, -2_208_988_800] {
        for i in 0..TIME_RULE_VEC.len().min(3) {
            for (u, per) in [("s", 1i64), ("ms", 1_000), ("us", 1_000_000), ("ns", 1_000_000_000)] {
                let v = secs * per;
                let fmt = TIME_RULE_VEC[i];
                if let Some(text) = chrono_format(u, v, fmt) {
                    out.push(format!("dt_rtl u={} v={} f={} ep=fs s={} {}", u, v, i, enc(&text), chrono_fields(&text, None)));
                }
            }
        }
    }
    for u in UNITS {
        for v in rt_values(u, tier, rng) {
            rt_line(&mut out, u, v, None);
            for i in 0..TIME_RULE_VEC.len() {
                rt_line(&mut out, u, v, Some(i));
            }
        }
    }
    // parsing: texts in every listed format around the range limits of each unit, with and without
    // an explicit format
    let mut texts: Vec<String> = vec![];
    let stamps: &[&str] = &[
        "2020-01-01 00:00:00", "2023-05-15 14:30:45", "1677-09-21 00:12:43", "1677-09-21 00:12:44", "2262-04-11 23:47:16",
        "2262-04-11 23:47:17", "3000-01-01 00:00:00", "1600-01-01 00:00:00", "9999-12-31 23:59:59", "0001-01-01 00:00:00",
        "1969-12-31 23:59:59", "2016-12-31 23:59:60", "2024-02-29 12:00:00",
    ];
    for st in stamps {
        if let Ok(x) = NaiveDateTime::parse_from_str(st, "%Y-%m-%d %H:%M:%S") {
            for f in TIME_RULE_VEC.iter() {
                texts.push(x.format(f).to_string());
            }
            texts.push(format!("{}.000000001", st));
            texts.push(format!("{}.999999999", st));
            texts.push(format!("{}.5", st));
        }
    }
    for t in [
        "", "invalid date", "2020-13-01", "2020-02-30", "2023-02-29", "20220101", "2021/02/03", "+10000-01-01", "-0001-01-01", "262142-12-31",
        "262143-01-01", "300000-01-01", "99999999", "2020-01-01 24:00:00", "2020-01-01T00:00:00", " 2020-01-01", "2020-01-01 ", "2020-1-1",
        "2262-04-11 23:47:16.854775807", "2262-04-11 23:47:16.854775808", "1677-09-21 00:12:43.145224192", "1677-09-21 00:12:43.145224191",
        "01/02/2020", "31/12/1999 H5959", "31/12/1999H5959", "é", "2020-01-01 00:00:00.", "２０２０-01-01",
    ] {
        texts.push(t.to_string());
    }
    texts.sort();
    texts.dedup();
    for t in &texts {
        for u in UNITS {
            dt_lines(&mut out, t, u, None, "p");
            dt_lines(&mut out, t, u, None, "fs");
        }
        for i in 0..TIME_RULE_VEC.len() {
            dt_lines(&mut out, t, "ns", Some(i), "p");
            dt_lines(&mut out, t, "ms", Some(i), "p");
        }
    }
    // mutations of two well-formed texts at every position (totality of the whole input language)
    for base in ["2023-05-15 14:30:45", "20220101", "15/05/2023", "2023-05-15 14:30:45.123456789"] {
        for m in mutations(base) {
            dt_lines(&mut out, &m, "ns", None, "p");
        }
    }
    // malformed explicit formats
    for f in ["%", "%Q", "%Y-%", "%Y-%m-%d %", "%é", "%Y%Y", "%s", "%+", "%c", "%D %T", "%Y-%m-%dT%H:%M:%S%.f", "%s%.9f"] {
        for t in ["2020-01-01", "2020-01-01T00:00:00.5", "1577836800", "32503680000", "", "32503680000.000000001"] {
            dt_lines_fmt(&mut out, t, "ns", f);
            dt_lines_fmt(&mut out, t, "us", f);
        }
    }
    let n = if thorough { 20_000 } else { 400 };
    for _ in 0..n {
        let s = rng.range(-62135596800, 253402300799);
        let x = chrono::DateTime::from_timestamp(s, rng.range(0, 999_999_999) as u32).unwrap().naive_utc();
        let f = rng.below(TIME_RULE_VEC.len());
        let mut t: Vec<char> = x.format(TIME_RULE_VEC[f]).to_string().chars().collect();
        if rng.chance(0.5) {
            let pos = rng.below(t.len() + 1);
            match rng.below(3) {
                0 => t.insert(pos, *rng.pick(MUT_CHARS)),
                1 if pos < t.len() => {
                    t.remove(pos);
                },
                _ if pos < t.len() => t[pos] = *rng.pick(MUT_CHARS),
                _ => {},
            }
        }
        let t: String = t.iter().collect();
        dt_lines(&mut out, &t, *rng.pick::<&str>(UNITS), if rng.chance(0.5) { None } else { Some(f) }, "p");
    }
    out
}

fn time_stream(tier: &str, rng: &mut Rng) -> Vec<String> {
    let mut out = vec![];
    for h in [0u32, 1, 9, 12, 23, 24, 99] {
        for m in [0u32, 5, 59, 60] {
            for s in [0u32, 7, 59, 60, 61] {
                let base = format!("{:02}:{:02}:{:02}", h, m, s);
                time_lines(&mut out, &base, None);
                for fr in ["0", "5", "789", "000001", "999999999", "1234567891"] {
                    time_lines(&mut out, &format!("{}.{}", base, fr), None);
                }
            }
        }
    }
    for t in ["", "invalid", "12:34", "1:2:3", "12:34:56 ", " 12:34:56", "12:34:56.", "12-34-56", "é", "12:34:56.789", "24:00:00", "12:34:56.7é"] {
        time_lines(&mut out, t, None);
        for f in ["%H:%M:%S%.3f", "%H:%M:%S", "%H%M%S", "%I:%M %p", "%", "%Q"] {
            time_lines(&mut out, t, Some(f));
        }
    }
    for m in mutations("12:34:56.789") {
        time_lines(&mut out, &m, None);
    }
    let n = if tier == "thorough" { 20_000 } else { 500 };
    for _ in 0..n {
        let w = rng.below(10);
        let mut t = format!("{:02}:{:02}:{:02}", rng.below(24), rng.below(60), rng.below(60));
        if w > 0 {
            t.push('.');
            for _ in 0..w {
                t.push((b'0' + rng.below(10) as u8) as char);
            }
        }
        time_lines(&mut out, &t, None);
    }
    out
}

pub fn generate(tier: &str, rng: &mut Rng) -> (Vec<String>, bool) {
    let mut out = td_stream(tier, rng);
    out.extend(dt_stream(tier, rng));
    out.extend(time_stream(tier, rng));
    (out, true)
}

pub fn rule(tier: &str) -> String {
    let thorough = tier == "thorough";
    format!(
        "TimeDelta::parse / FromStr: exhaustive = every string of length 0..={} over the alphabet {:?}; every sequence of 1..=2 terms over {{none,+,-}} x {{0,1,12}} x the ten units; \
         every unit x sign x {} boundary numbers (around i64::MAX/K, i64::MAX/1000/K, i32::MAX/K, 2^32/K, 20-digit, zero-padded), alone and combined with a +-1 term before/after; \
         crafted sums at the chrono Duration bounds and partial-sum overflows; every single-position insertion/deletion/substitution/transposition of {:?} into 8 well-formed strings \
         (multi-byte characters at every offset); then {} grammar-based random strings of 0..=6 terms (widths up to 20 digits) with random mutations. Each string is run twice: exact outcome \
         (value / error kind / panic) vs the Lean model and vs the from-scratch sum when well-formed, and totality (T/P). \
         DateTime: format->parse round trip for units s/ms/us/ns x default format and the 11 listed formats x a grid of instants (epoch, leap days, 1000-01-01..9999-12-31, edges of the \
         nanosecond range, years 10000/0/-1, chrono's MIN_UTC/MAX_UTC) + random instants (80% in years 1000..=9999, 20% anywhere in chrono's range); formats that write %Y directly against %m are only required to round-trip for years 0..=9999; 12 whole-second instants x the first 3 listed formats at the four units one after the other (the same text at every unit), read back through FromStr; parsing of texts in every listed format around each unit's range limits, \
         with/without explicit format, through parse and FromStr, single-position mutations of 4 texts, malformed explicit formats; chrono's own answers are passed to the model as its chrono parameter. \
         Time::parse: grid of HH:MM:SS[.f] incl. out-of-range fields and leap second, explicit formats, mutations, random valid times. non-trivial = output not null.",
        if thorough { 5 } else { 4 },
        SMALL_ALPHABET,
        boundary_numbers().len(),
        MUT_CHARS,
        if thorough { 300_000 } else { 6_000 }
    )
}

pub fn valid_case(r: &Req) -> bool {
    if !FNS.contains(&r.f.as_str()) {
        return false;
    }
    let s = dec(r.s("s"));
    if r.f.starts_with("dt_") {
        // the chrono fields must be chrono's answers for exactly this text and format
        if !UNITS.contains(&r.s("u")) {
            return false;
        }
        let fmt: Option<String> = if r.s("f") == "d" || !r.has("f") {
            None
        } else if let (false, Ok(i)) = (r.s("f").contains(','), r.s("f").parse::<usize>()) {
            if i >= TIME_RULE_VEC.len() {
                return false;
            }
            Some(TIME_RULE_VEC[i].to_string())
        } else {
            Some(dec(r.s("f")))
        };
        if (r.f == "dt_rt" || r.f == "dt_rtl") && chrono_format(r.s("u"), r.i64("v"), fmt.as_deref().unwrap_or(DEFAULT_FMT)).as_deref() != Some(s.as_str()) {
            return false;
        }
        if r.f == "dt_rtl" {
            // formatted with the listed rule, read back through the whole list
            return fmt.is_some() && chrono_fields(&s, None) == format!("cdt={} cd={}", r.s("cdt"), r.s("cd"));
        }
        return chrono_fields(&s, fmt.as_deref()) == format!("cdt={} cd={}", r.s("cdt"), r.s("cd"));
    }
    if r.f.starts_with("time_") {
        let fmt = if r.has("f") { Some(dec(r.s("f"))) } else { None };
        return ct_tok(&s, fmt.as_deref()) == r.s("ct");
    }
    true
}

/// evidence histogram: which function / outcome class / error kind each case reached
pub fn tags(r: &Req, imp: &str) -> Vec<String> {
    let mut t = vec![];
    let class = if imp.starts_with("V:") {
        "value".to_string()
    } else if imp.starts_with("E:") {
        imp.to_string()
    } else {
        imp.chars().take(1).collect()
    };
    t.push(format!("{}:{}", r.f, class));
    if r.f == "td_parse" {
        let s = dec(r.s("s"));
        if !s.is_ascii() {
            t.push("td:multibyte".into());
        }
        if s.is_empty() {
            t.push("td:empty".into());
        }
    }
    t
}
