//! C17: date-time / duration / time-of-day arithmetic of tea-time (inverse laws, truncation)
//!
//! request keys (chosen not to collide with other handlers): `tu` unit (s ms us ns), `dx` / `da` /
//! `db` date-time values in unit counts (`_` = NaT), `mo` / `ns` months and nanoseconds of a
//! `TimeDelta` (`mo=_` = NaT), `dur` duration string handed to `TimeDelta::parse` (then `mo`/`ns`
//! carry the same duration for the model), `tod` raw time of day, `sk` / `sl` i32 scalars.
use crate::proto::Req;
use crate::rng::Rng;
pub use imp::run;

pub const FNS: &[&str] = &["dt_add", "dt_sub", "dt_add_sub", "dt_diff_add", "td_law", "time_new", "time_shift", "dt_trunc"];
pub const UNITS: &[&str] = &["s", "ms", "us", "ns"];
pub const LAWS: &[&str] = &["add", "sub", "neg", "mul", "assoc", "comm", "zero", "distrib", "scale_add"];

pub fn mult(u: &str) -> i64 {
    match u {
        "s" => 1_000_000_000,
        "ms" => 1_000_000,
        "us" => 1_000,
        _ => 1,
    }
}

mod imp {
    use std::panic::{catch_unwind, AssertUnwindSafe};

    use chrono::{DateTime as CrDateTime, Duration, Months, Utc};
    use tea_time::unit::{Microsecond, Millisecond, Nanosecond, Second};
    use tea_time::{DateTime, Time, TimeDelta, Timelike};

    use crate::proto::Req;

    fn guard<F: FnOnce() -> String>(f: F) -> String {
        catch_unwind(AssertUnwindSafe(f)).unwrap_or_else(|_| "P".to_string())
    }

    fn dur_of_ns(n: i128) -> Duration {
        let secs = n.div_euclid(1_000_000_000) as i64;
        let nanos = n.rem_euclid(1_000_000_000) as u32;
        Duration::new(secs, nanos).expect("generator keeps durations representable")
    }

    fn dur_ns(d: &Duration) -> i128 {
        d.num_seconds() as i128 * 1_000_000_000 + d.subsec_nanos() as i128
    }

    fn td(r: &Req, mk: &str, nk: &str) -> TimeDelta {
        if r.s(mk) == "_" {
            TimeDelta::nat()
        } else if mk == "mo" && r.has("dur") {
            TimeDelta::parse(r.s("dur")).expect("generated duration strings are well formed")
        } else {
            TimeDelta { months: r.i32(mk), inner: dur_of_ns(r.s(nk).parse::<i128>().unwrap_or(0)) }
        }
    }

    fn tok_td(d: TimeDelta) -> String {
        if d.is_nat() { "_".into() } else { format!("{}:{}", d.months, dur_ns(&d.inner)) }
    }

    fn tok_i(v: i64) -> String {
        if v == i64::MIN { "_".into() } else { v.to_string() }
    }

    fn raw(r: &Req, k: &str) -> i64 {
        if r.s(k) == "_" { i64::MIN } else { r.i64(k) }
    }

    /// chrono used directly on its naive types (calendar oracle for `x ± d`)
    fn oracle(u: &str, x: i64, d: &TimeDelta, sub: bool) -> String {
        if x == i64::MIN || d.is_nat() {
            return "_".into();
        }
        let dt: Option<CrDateTime<Utc>> = match u {
            "s" => CrDateTime::from_timestamp(x, 0),
            "ms" => CrDateTime::from_timestamp_millis(x),
            "us" => CrDateTime::from_timestamp_micros(x),
            _ => Some(CrDateTime::from_timestamp_nanos(x)),
        };
        let Some(dt) = dt else { return "P".into() };
        let ndt = dt.naive_utc();
        let k = if sub { -(d.months as i64) } else { d.months as i64 };
        let date = if k >= 0 { ndt.date().checked_add_months(Months::new(k as u32)) } else { ndt.date().checked_sub_months(Months::new((-k) as u32)) };
        let Some(date) = date else { return "P".into() };
        let moved = date.and_time(ndt.time());
        let res = if sub { moved.checked_sub_signed(d.inner) } else { moved.checked_add_signed(d.inner) };
        let Some(res) = res else { return "P".into() };
        let res = res.and_utc();
        let v = match u {
            "s" => res.timestamp(),
            "ms" => res.timestamp_millis(),
            "us" => res.timestamp_micros(),
            _ => match res.timestamp_nanos_opt() {
                Some(v) => v,
                None => return "P".into(),
            },
        };
        tok_i(v)
    }

    macro_rules! with_unit {
        ($u:expr, $U:ident => $body:expr) => {
            match $u {
                "s" => { type $U = Second; $body },
                "ms" => { type $U = Millisecond; $body },
                "us" => { type $U = Microsecond; $body },
                _ => { type $U = Nanosecond; $body },
            }
        };
    }

    fn td_law(r: &Req) -> String {
        let a = td(r, "mo1", "ns1");
        let b = td(r, "mo2", "ns2");
        let c = td(r, "mo3", "ns3");
        let k = r.i32("sk");
        let l = r.i32("sl");
        let zero = TimeDelta { months: 0, inner: Duration::zero() };
        let two = |x: String, y: String| format!("{};{}", x, y);
        match r.s("law") {
            "add" => guard(|| tok_td(a + b)),
            "sub" => two(guard(|| tok_td(a - b)), guard(|| tok_td(a + (-b)))),
            "neg" => two(guard(|| tok_td(-a)), guard(|| tok_td(a + (-a)))),
            "mul" => guard(|| tok_td(a * k)),
            "assoc" => two(guard(|| tok_td((a + b) + c)), guard(|| tok_td(a + (b + c)))),
            "comm" => two(guard(|| tok_td(a + b)), guard(|| tok_td(b + a))),
            "zero" => two(guard(|| tok_td(a + zero)), guard(|| tok_td(zero + a))),
            "distrib" => two(guard(|| tok_td((a + b) * k)), guard(|| tok_td(a * k + b * k))),
            "scale_add" => two(guard(|| tok_td(a * k.checked_add(l).expect("i32 overflow"))), guard(|| tok_td(a * k + a * l))),
            _ => "?".into(),
        }
    }

    fn time_new(r: &Req) -> String {
        let (h, mi, s, f) = (r.i64("hh"), r.i64("mi"), r.i64("sec"), r.i64("frac"));
        let kind = r.s("kind").to_string();
        let t = catch_unwind(AssertUnwindSafe(|| match kind.as_str() {
            "hms" => Time::from_hms(h, mi, s),
            "milli" => Time::from_hms_milli(h, mi, s, f),
            "micro" => Time::from_hms_micro(h, mi, s, f),
            "secs" => Time::from_num_seconds_from_midnight(s, f),
            _ => Time::from_hms_nano(h, mi, s, f),
        }));
        let Ok(t) = t else { return "P".into() };
        format!(
            "{};{},{},{},{};{}",
            t.0,
            guard(|| t.hour().to_string()),
            guard(|| t.minute().to_string()),
            guard(|| t.second().to_string()),
            guard(|| t.nanosecond().to_string()),
            guard(|| Time::from_cr(&t.as_cr().unwrap()).0.to_string())
        )
    }

    fn time_shift(r: &Req) -> String {
        let t = Time(r.i64("tod"));
        let d = td(r, "mo", "ns");
        let sub = r.s("op") == "sub";
        let fwd = catch_unwind(AssertUnwindSafe(|| if sub { t - d } else { t + d }));
        let Ok(v) = fwd else { return "P".into() };
        if v.is_nat() {
            // NaT on the left of `Time ± TimeDelta` is C16's subject (F8)
            return "_;_".into();
        }
        format!("{};{}", v.0, guard(|| tok_i((if sub { v + d } else { v - d }).0)))
    }

    pub fn run(r: &Req) -> Option<String> {
        if !super::FNS.contains(&r.f.as_str()) {
            return None;
        }
        let u = if r.has("tu") { r.s("tu") } else { "ns" };
        Some(match r.f.as_str() {
            "dt_add" | "dt_sub" => {
                let sub = r.f == "dt_sub";
                let d = td(r, "mo", "ns");
                let x = raw(r, "dx");
                let res = with_unit!(u, U => {
                    let v: DateTime<U> = DateTime::new(x);
                    guard(|| tok_i((if sub { v - d } else { v + d }).0))
                });
                format!("{};{}", res, oracle(u, x, &d, sub))
            },
            "dt_add_sub" => {
                let d = td(r, "mo", "ns");
                let x = raw(r, "dx");
                with_unit!(u, U => {
                    let v: DateTime<U> = DateTime::new(x);
                    guard(|| tok_i(((v + d) - d).0))
                })
            },
            "dt_diff_add" => {
                let (a, b) = (raw(r, "da"), raw(r, "db"));
                with_unit!(u, U => {
                    let (a, b): (DateTime<U>, DateTime<U>) = (DateTime::new(a), DateTime::new(b));
                    format!("{};{}", guard(|| tok_td(a - b)), guard(|| tok_i((b + (a - b)).0)))
                })
            },
            "dt_trunc" => {
                let d = td(r, "mo", "ns");
                let x = raw(r, "dx");
                with_unit!(u, U => {
                    let v: DateTime<U> = DateTime::new(x);
                    guard(|| tok_i(v.duration_trunc(d).0))
                })
            },
            "td_law" => td_law(r),
            "time_new" => time_new(r),
            "time_shift" => time_shift(r),
            _ => return None,
        })
    }
}

pub fn valid_case(r: &Req) -> bool {
    FNS.contains(&r.f.as_str()) && (!r.has("tu") || UNITS.contains(&r.s("tu")))
}

/// F23: `DateTime<coarse unit>` combined with a month-free duration that is not a whole number of
/// units. Results that are not whole units are floored to the unit, so `(x + d) - d = x - 1` and
/// `duration_trunc` returns `floor_unit(d * floor(x / d))` instead of a multiple of `d`.
/// Only exactly that deviation is classified; any other failure on such inputs stays a violation.
pub fn known_finding(r: &Req, imp: &str, spec: &str) -> Option<String> {
    let u = r.s("tu");
    if u == "ns" || u.is_empty() || r.s("mo") != "0" || r.s("dx") == "_" {
        return None;
    }
    let m = mult(u) as i128;
    let n: i128 = r.s("ns").parse().ok()?;
    if n % m == 0 {
        return None;
    }
    let got: i128 = imp.parse().ok()?;
    match r.f.as_str() {
        "dt_add_sub" => {
            let x: i128 = r.s("dx").parse().ok()?;
            if got == x - 1 && spec == x.to_string() { Some("F23".into()) } else { None }
        },
        "dt_trunc" => {
            let (p, q) = spec.split_once('/')?;
            let (p, q): (i128, i128) = (p.parse().ok()?, q.parse().ok()?);
            if q > 0 && got == p.div_euclid(q) { Some("F23".into()) } else { None }
        },
        _ => None,
    }
}

pub fn tags(r: &Req, imp: &str) -> Vec<String> {
    let mut t = vec![];
    if r.has("tu") {
        t.push(format!("unit={}", r.s("tu")));
    }
    if r.has("mo") {
        t.push(match r.s("mo") {
            "_" => "delta=NaT".to_string(),
            "0" => "month-free".to_string(),
            _ => "with-months".to_string(),
        });
    }
    if r.has("dur") {
        t.push("parsed-duration".into());
    }
    if r.s("dx") == "_" || r.s("da") == "_" || r.s("db") == "_" {
        t.push("NaT-operand".into());
    }
    if r.f == "td_law" {
        t.push(format!("law={}", r.s("law")));
    }
    if r.f == "time_new" {
        t.push(format!("ctor={}", r.s("kind")));
    }
    if let Ok(x) = r.s("dx").parse::<i128>() {
        t.push(if x < 0 { "before-1970".into() } else { "from-1970".into() });
    }
    if imp.starts_with('P') {
        t.push("impl-panic".into());
    }
    t
}

// ---------------------------------------------------------------------------------------------
// generators
// ---------------------------------------------------------------------------------------------

/// days since 1970-01-01 (proleptic Gregorian)
fn days_from_civil(y: i64, m: i64, d: i64) -> i64 {
    let y = if m <= 2 { y - 1 } else { y };
    let era = y.div_euclid(400);
    let yoe = y - era * 400;
    let mp = (m + 9) % 12;
    let doy = (153 * mp + 2) / 5 + d - 1;
    let doe = yoe * 365 + yoe / 4 - yoe / 100 + doy;
    era * 146097 + doe - 719468
}

fn secs_of(y: i64, m: i64, d: i64, hh: i64, mi: i64, ss: i64) -> i64 {
    days_from_civil(y, m, d) * 86400 + hh * 3600 + mi * 60 + ss
}

fn dim(y: i64, m: i64) -> i64 {
    match m {
        2 => if (y % 4 == 0 && y % 100 != 0) || y % 400 == 0 { 29 } else { 28 },
        4 | 6 | 9 | 11 => 30,
        _ => 31,
    }
}

/// landmark instants (seconds since the epoch) across 1678..2262
fn landmark_secs() -> Vec<i64> {
    vec![
        secs_of(1678, 1, 1, 0, 0, 0),
        secs_of(1699, 12, 31, 23, 59, 59),
        secs_of(1900, 2, 28, 12, 0, 0),
        secs_of(1900, 3, 1, 0, 0, 0),
        secs_of(1969, 12, 31, 23, 59, 59),
        secs_of(1970, 1, 1, 0, 0, 0),
        secs_of(2000, 2, 29, 6, 7, 8),
        secs_of(2023, 1, 31, 0, 0, 0),
        secs_of(2023, 5, 15, 14, 30, 45),
        secs_of(2024, 2, 29, 23, 59, 59),
        secs_of(2024, 12, 31, 0, 0, 1),
        secs_of(2100, 2, 28, 1, 2, 3),
        secs_of(2261, 12, 31, 23, 59, 59),
    ]
}

/// the date-time grid at a unit, in unit counts (`_` = NaT)
fn x_grid(u: &str) -> Vec<String> {
    let per_sec = 1_000_000_000 / mult(u);
    let mut v: Vec<i64> = vec![0, 1, -1, 2, -2, 999, -999, 1000, -1000, 1001, -1001];
    for s in landmark_secs() {
        for off in [-1i64, 0, 1, per_sec / 2 + 1] {
            v.push(s * per_sec + off);
        }
    }
    v.sort();
    v.dedup();
    let mut out: Vec<String> = v.into_iter().map(|x| x.to_string()).collect();
    out.push("_".into());
    out
}

const NS_GRID: &[i64] = &[
    0, 1, 999, 1000, 1001, 999_999, 1_000_000, 999_999_999, 1_000_000_000, 1_000_000_001, 1_500_000_000,
    60_000_000_000, 3_600_000_000_000, 86_400_000_000_000, 86_400_000_000_001, 604_800_000_000_000,
];

/// month-free durations (both signs) and NaT as `(mo, ns)` strings
fn fixed_grid() -> Vec<(String, String)> {
    let mut v = vec![];
    for n in NS_GRID {
        v.push(("0".to_string(), n.to_string()));
        if *n != 0 {
            v.push(("0".to_string(), (-n).to_string()));
        }
    }
    v.push(("_".to_string(), "0".to_string()));
    v
}

const UNIT_NAMES: [&str; 10] = ["y", "mo", "w", "d", "h", "m", "s", "ms", "us", "ns"];
const UNIT_NS: [i64; 10] = [0, 0, 604_800_000_000_000, 86_400_000_000_000, 3_600_000_000_000, 60_000_000_000, 1_000_000_000, 1_000_000, 1_000, 1];

/// duration string of the shared grammar and its (months, nanoseconds) value
fn dur_of(coef: &[i64; 10]) -> (String, i64, i64) {
    let mut s = String::new();
    let (mut months, mut ns) = (0i64, 0i64);
    for (i, c) in coef.iter().enumerate() {
        if *c == 0 {
            continue;
        }
        s.push_str(&format!("{}{}", c, UNIT_NAMES[i]));
        match i {
            0 => months += 12 * c,
            1 => months += c,
            _ => ns += c * UNIT_NS[i],
        }
    }
    if s.is_empty() {
        s.push_str("0s");
    }
    (s, months, ns)
}

fn push_dur_case(out: &mut Vec<String>, f: &str, u: &str, x: &str, coef: &[i64; 10]) {
    let (s, mo, ns) = dur_of(coef);
    out.push(format!("{} tu={} dx={} mo={} ns={} dur={}", f, u, x, mo, ns, s));
    if mo == 0 && f == "dt_add" {
        out.push(format!("dt_add_sub tu={} dx={} mo=0 ns={} dur={}", u, x, ns, s));
    }
}

const TD_GRID: &[(&str, &str)] = &[
    ("0", "0"), ("1", "0"), ("-1", "1"), ("14", "-86400000000000"), ("-25", "1500000000"), ("0", "-1"),
    ("3", "604800000000000"), ("2147483647", "1"), ("-2147483647", "-1"), ("1073741824", "9223372036854775807000000"),
    ("-1073741824", "-9223372036854775807000000"), ("_", "0"),
];

pub fn generate(tier: &str, rng: &mut Rng) -> (Vec<String>, bool) {
    let thorough = tier == "thorough";
    let mut out: Vec<String> = vec![];
    let fixed = fixed_grid();

    // ---- exhaustive-small stream ----------------------------------------------------------
    // (1) x ± d, (x + d) - d : units x date-time grid x month-free duration grid
    for u in UNITS {
        let xs = x_grid(u);
        for x in &xs {
            for (mo, ns) in &fixed {
                for f in ["dt_add", "dt_sub", "dt_add_sub"] {
                    out.push(format!("{} tu={} dx={} mo={} ns={}", f, u, x, mo, ns));
                }
            }
        }
    }
    // (2) calendar months: every day 1, 28..31 of every month of five years x month counts
    let month_counts: &[i64] = &[-1200, -13, -12, -11, -1, 1, 2, 3, 12, 13, 1200];
    for u in ["s", "ns"] {
        let per_sec = 1_000_000_000 / mult(u);
        for y in [1899i64, 1900, 2000, 2023, 2024] {
            for m in 1..=12 {
                for d in [1i64, 28, 29, 30, 31] {
                    if d > dim(y, m) {
                        continue;
                    }
                    let x = secs_of(y, m, d, 14, 30, 45) * per_sec;
                    for (i, k) in month_counts.iter().enumerate() {
                        let ns = [0i64, 1, -1, 86_400_000_000_000][(i + d as usize) % 4];
                        out.push(format!("dt_add tu={} dx={} mo={} ns={}", u, x, k, ns));
                        out.push(format!("dt_sub tu={} dx={} mo={} ns={}", u, x, k, ns));
                    }
                }
            }
        }
    }
    // every month count -1200..=1200 from an end-of-month date
    for k in -1200i64..=1200 {
        let x = secs_of(2024, 1, 31, 23, 59, 59);
        out.push(format!("dt_add tu=s dx={} mo={} ns=0", x, k));
        if thorough || k % 7 == 0 {
            out.push(format!("dt_add_sub tu=ms dx={} mo={} ns=0", x * 1000 + 7, k));
        }
    }
    // (3) b + (a - b) : all pairs of a reduced grid, all units
    for u in UNITS {
        let xs = x_grid(u);
        let sel: Vec<&String> = xs.iter().enumerate().filter(|(i, _)| thorough || i % 2 == 0 || *i + 1 == xs.len()).map(|(_, x)| x).collect();
        for a in &sel {
            for b in &sel {
                out.push(format!("dt_diff_add tu={} da={} db={}", u, a, b));
            }
        }
    }
    // (4) duration algebra: all pairs / triples of the duration grid, scalars
    let scalars: &[i64] = &[-3, -1, 0, 1, 2, 2147483647];
    for (a, (m1, n1)) in TD_GRID.iter().enumerate() {
        for law in ["neg", "zero"] {
            out.push(format!("td_law law={} mo1={} ns1={}", law, m1, n1));
        }
        for k in scalars {
            out.push(format!("td_law law=mul mo1={} ns1={} sk={}", m1, n1, k));
            for l in scalars {
                out.push(format!("td_law law=scale_add mo1={} ns1={} sk={} sl={}", m1, n1, k, l));
            }
        }
        for (b, (m2, n2)) in TD_GRID.iter().enumerate() {
            for law in ["add", "sub", "comm"] {
                out.push(format!("td_law law={} mo1={} ns1={} mo2={} ns2={}", law, m1, n1, m2, n2));
            }
            out.push(format!("td_law law=distrib mo1={} ns1={} mo2={} ns2={} sk={}", m1, n1, m2, n2, scalars[(a + b) % scalars.len()]));
            for (m3, n3) in TD_GRID.iter() {
                out.push(format!("td_law law=assoc mo1={} ns1={} mo2={} ns2={} mo3={} ns3={}", m1, n1, m2, n2, m3, n3));
            }
        }
    }
    // (5) time of day: every hour x minute, boundary seconds and sub-second parts, all constructors
    for h in 0..24 {
        for mi in 0..60 {
            for s in [0i64, 59] {
                for (kind, fs) in [("nano", [0i64, 999_999_999]), ("micro", [1, 999_999]), ("milli", [2, 999])] {
                    for f in fs {
                        out.push(format!("time_new kind={} hh={} mi={} sec={} frac={}", kind, h, mi, s, f));
                    }
                }
                out.push(format!("time_new kind=hms hh={} mi={} sec={} frac=0", h, mi, s));
            }
        }
    }
    let step = if thorough { 1 } else { 13 };
    let mut s = 0i64;
    while s < 86400 {
        out.push(format!("time_new kind=secs hh=0 mi=0 sec={} frac={}", s, (s * 7919 * 104729) % 1_000_000_000));
        s += step;
    }
    out.push("time_new kind=secs hh=0 mi=0 sec=86399 frac=999999999".into());
    // outside a day: every getter panics (as_cr is None) or the constructor overflows
    for (h, mi, s, f) in [(24i64, 0i64, 0i64, 0i64), (23, 59, 60, 0), (23, 59, 59, 1_000_000_000), (0, 0, -1, 0), (0, 0, 0, -1), (-1, 0, 0, 0), (0, 60, 0, 0), (0, 0, 60, 5),
        (1193046, 0, 0, 0), (2562047788015216, 0, 0, 0), (0, 0, 9223372036, 854775807), (0, 0, 9223372037, 0), (0, 0, 4294967301, 0), (0, 0, -4294967291, 0)] {
        out.push(format!("time_new kind=nano hh={} mi={} sec={} frac={}", h, mi, s, f));
        out.push(format!("time_new kind=secs hh=0 mi=0 sec={} frac={}", s, f));
    }
    // (6) time of day ± duration
    for tod in [0i64, 1, 43_200_000_000_000, 86_399_999_999_999, 45_296_000_000_789] {
        for (mo, ns) in &fixed {
            for op in ["add", "sub"] {
                out.push(format!("time_shift tod={} mo={} ns={} op={}", tod, mo, ns, op));
            }
        }
        for (mo, ns) in [("1", "0"), ("-12", "5"), ("0", "9223372036854775807"), ("0", "-9223372036854775807"), ("0", "9223372036854775808"), ("0", "-9223372036854775809")] {
            for op in ["add", "sub"] {
                out.push(format!("time_shift tod={} mo={} ns={} op={}", tod, mo, ns, op));
            }
        }
    }
    // (7) truncation: units x date-time grid x {fixed spans, month counts, degenerate spans}
    let spans: &[(&str, &str)] = &[
        ("0", "1000000000"), ("0", "60000000000"), ("0", "3600000000000"), ("0", "86400000000000"), ("0", "604800000000000"),
        ("0", "1000000"), ("0", "1000"), ("0", "7"), ("0", "1500000000"), ("0", "1"), ("0", "0"), ("0", "-1000000000"),
        ("1", "0"), ("2", "0"), ("3", "0"), ("4", "0"), ("6", "0"), ("12", "0"), ("5", "0"), ("7", "0"), ("24", "0"), ("1", "86400000000000"),
        ("-1", "0"), ("_", "0"),
    ];
    for u in UNITS {
        for x in x_grid(u) {
            for (mo, ns) in spans {
                out.push(format!("dt_trunc tu={} dx={} mo={} ns={}", u, x, mo, ns));
            }
        }
    }
    // truncation by months from every month of a year (first, middle and last instant)
    for m in 1..=12 {
        for (d, hh, mi, ss) in [(1i64, 0i64, 0i64, 0i64), (15, 14, 30, 45), (dim(2023, m), 23, 59, 59)] {
            for y in [1899i64, 2023] {
                let x = secs_of(y, m, d, hh, mi, ss);
                for dm in [1, 2, 3, 4, 6, 12, 5, 18] {
                    out.push(format!("dt_trunc tu=s dx={} mo={} ns=0", x, dm));
                    out.push(format!("dt_trunc tu=ns dx={} mo={} ns=0", x * 1_000_000_000 + 999_999_999, dm));
                }
            }
        }
    }
    // (8) the ten-unit duration grammar: every subset of units (signs cycling), every single unit
    //     and every pair with every sign combination
    let lm = landmark_secs();
    let coef_abs: [i64; 10] = [1, 2, 1, 3, 5, 7, 11, 13, 17, 19];
    let mut combo = 0usize;
    let mut emit = |out: &mut Vec<String>, coef: &[i64; 10]| {
        let u = UNITS[combo % 4];
        let x = lm[(combo / 4) % lm.len()] * (1_000_000_000 / mult(u)) + (combo % 3) as i64;
        combo += 1;
        push_dur_case(out, "dt_add", u, &x.to_string(), coef);
        if combo % 2 == 0 {
            push_dur_case(out, "dt_sub", u, &x.to_string(), coef);
        }
    };
    for mask in 1usize..1024 {
        let n_signs = if thorough { 4 } else { 1 };
        for sv in 0..n_signs {
            let mut coef = [0i64; 10];
            for i in 0..10 {
                if mask >> i & 1 == 1 {
                    let neg = ((mask * 7 + i * 3 + sv * 5) / 2) % 2 == 1;
                    coef[i] = if neg { -coef_abs[i] } else { coef_abs[i] };
                }
            }
            emit(&mut out, &coef);
        }
    }
    for i in 0..10 {
        for si in [1i64, -1] {
            let mut coef = [0i64; 10];
            coef[i] = si * coef_abs[i];
            emit(&mut out, &coef);
            for j in i + 1..10 {
                for sj in [1i64, -1] {
                    let mut c2 = coef;
                    c2[j] = sj * coef_abs[j];
                    emit(&mut out, &c2);
                }
            }
        }
    }
    let exhaustive_part = out.len();
    let _ = exhaustive_part;

    // ---- structured random stream ---------------------------------------------------------
    let n_rand = if thorough { 400_000 } else { 24_000 };
    // representable span of every unit inside 1678..2262
    let lo_s = secs_of(1678, 1, 1, 0, 0, 0);
    let hi_s = secs_of(2261, 12, 31, 23, 59, 59);
    for _ in 0..n_rand {
        let u = *rng.pick(UNITS);
        let per_sec = 1_000_000_000 / mult(u);
        let rand_x = |rng: &mut Rng| -> i64 { rng.range(lo_s, hi_s) * per_sec + rng.range(0, per_sec - 1) };
        let x = rand_x(rng);
        let fam = rng.below(10);
        match fam {
            0 | 1 | 2 => {
                // random duration from the grammar, months within -1200..=1200
                let mut coef = [0i64; 10];
                let with_months = rng.chance(0.5);
                for i in 0..10 {
                    if rng.chance(0.4) {
                        coef[i] = match i {
                            0 => rng.range(-99, 99),
                            1 => rng.range(-11, 11),
                            2 => rng.range(-500, 500),
                            3 => rng.range(-4000, 4000),
                            4 => rng.range(-100, 100),
                            7 | 8 | 9 => rng.range(-2_000_000, 2_000_000),
                            _ => rng.range(-100_000, 100_000),
                        };
                    }
                }
                if !with_months {
                    coef[0] = 0;
                    coef[1] = 0;
                }
                let f = if fam == 0 { "dt_sub" } else { "dt_add" };
                push_dur_case(&mut out, f, u, &x.to_string(), &coef);
            },
            3 => {
                let k = rng.range(-1200, 1200);
                let ns = if rng.chance(0.5) { 0 } else { rng.range(-90_000_000_000_000, 90_000_000_000_000) };
                out.push(format!("{} tu={} dx={} mo={} ns={}", if rng.chance(0.5) { "dt_add" } else { "dt_sub" }, u, x, k, ns));
            },
            4 => {
                let ns = match rng.below(3) {
                    0 => rng.range(-5_000_000_000, 5_000_000_000),
                    1 => rng.range(-1_000_000, 1_000_000) * mult(u),
                    _ => rng.range(-1_000_000_000_000_000_000, 1_000_000_000_000_000_000),
                };
                out.push(format!("dt_add_sub tu={} dx={} mo=0 ns={}", u, x, ns));
            },
            5 => {
                let b = rand_x(rng);
                out.push(format!("dt_diff_add tu={} da={} db={}", u, x, b));
            },
            6 => {
                let law = *rng.pick(LAWS);
                let mut s = format!("td_law law={}", law);
                for i in 1..=3 {
                    let big = rng.chance(0.1);
                    let mo = if rng.chance(0.03) { "_".to_string() } else if big { rng.range(-2147483647, 2147483647).to_string() } else { rng.range(-1200, 1200).to_string() };
                    let ns: i128 = if big { rng.range(-4_000_000_000_000_000_000, 4_000_000_000_000_000_000) as i128 * rng.range(1, 2_000_000) as i128 } else { rng.range(-1_000_000_000_000_000, 1_000_000_000_000_000) as i128 };
                    s.push_str(&format!(" mo{}={} ns{}={}", i, mo, i, ns));
                }
                let k = if rng.chance(0.1) { rng.range(-2147483648, 2147483647) } else { rng.range(-50, 50) };
                let l = if rng.chance(0.1) { rng.range(-2147483648, 2147483647) } else { rng.range(-50, 50) };
                s.push_str(&format!(" sk={} sl={}", k, l));
                out.push(s);
            },
            7 => {
                let tod = rng.range(0, 86_399_999_999_999);
                if rng.chance(0.5) {
                    let secs = tod / 1_000_000_000;
                    let (h, mi, s) = (secs / 3600, secs / 60 % 60, secs % 60);
                    let frac = tod % 1_000_000_000;
                    let (kind, f) = match rng.below(3) {
                        0 => ("nano", frac),
                        1 => ("micro", frac / 1000),
                        _ => ("milli", frac / 1_000_000),
                    };
                    out.push(format!("time_new kind={} hh={} mi={} sec={} frac={}", kind, h, mi, s, f));
                } else {
                    let ns = if rng.chance(0.8) { rng.range(-86_400_000_000_000, 86_400_000_000_000) } else { rng.range(-4_000_000_000_000_000_000, 4_000_000_000_000_000_000) * 2 };
                    out.push(format!("time_shift tod={} mo=0 ns={} op={}", tod, ns, if rng.chance(0.5) { "add" } else { "sub" }));
                }
            },
            _ => {
                if rng.chance(0.4) {
                    let dm = *rng.pick(&[1i64, 2, 3, 4, 6, 12, 12, 5, 9, 24, 120]);
                    out.push(format!("dt_trunc tu={} dx={} mo={} ns=0", u, x, dm));
                } else {
                    let ns = match rng.below(4) {
                        0 => *rng.pick(&[1_000_000_000i64, 60_000_000_000, 3_600_000_000_000, 86_400_000_000_000, 604_800_000_000_000]),
                        1 => rng.range(1, 1000) * mult(u),
                        2 => rng.range(1, 5_000_000_000),
                        _ => rng.range(1, 400) * 86_400_000_000_000,
                    };
                    out.push(format!("dt_trunc tu={} dx={} mo=0 ns={}", u, x, ns));
                }
            },
        }
    }
    (out, true)
}

pub fn rule(tier: &str) -> String {
    let thorough = tier == "thorough";
    format!(
        "exhaustive grids first: (1) dt_add / dt_sub / (x+d)-d over 4 units x date-time grid (13 landmark instants 1678..2261 incl. leap days, month ends, 1969/1970 boundary, each -1/0/+1/+half-unit; 0, +-1, +-2, +-999..1001; NaT) x 31 month-free durations of both signs (0, 1ns..1w, sub-unit and unit-multiple) and NaT; (2) month arithmetic: days 1,28..31 of all months of 1899,1900,2000,2023,2024 x months {{-1200,-13,-12,-11,-1,1,2,3,12,13,1200}} at units s and ns, and every month count -1200..=1200 from 2024-01-31, each with chrono's naive-date month arithmetic as a second oracle; (3) b+(a-b) over all pairs of the {} grid at 4 units; (4) duration algebra: 9 laws over all pairs / triples of 12 durations (incl. i32 / chrono range ends, NaT) and 6 scalars; (5) Time constructors hms/milli/micro/nano for every hour x minute x sec in {{0,59}} x extreme sub-second parts, from_num_seconds_from_midnight for every {} second of the day, 28 out-of-day / wrapping / overflowing inputs; (6) Time +- duration over 5 times x 32 durations + months / overflow cases; (7) duration_trunc over 4 units x date-time grid x 24 spans (1s 1m 1h 1d 1w 1ms 1us 7ns 1.5s 1ns, 0 and negative, 1 2 3 4 6 12 5 7 24 months, months+days, negative months, NaT) and every month of 1899 and 2023 (first / middle / last instant) x month counts 1 2 3 4 6 12 5 18; (8) the ten-unit duration grammar through TimeDelta::parse: every non-empty subset of units ({} sign patterns each), every single unit and every pair with all sign combinations. Then {} random cases (dates uniform over 1678..2262 at random unit, grammar durations, months -1200..1200, times of day over the whole day, duration laws with range-end operands, truncation spans). non-trivial = at least one non-null output token.",
        if thorough { "full" } else { "half" },
        if thorough { "" } else { "13th" },
        if thorough { 4 } else { 1 },
        if thorough { 400_000 } else { 24_000 }
    )
}
