//! C07: independence of input backend, output container and out-buffer path.
//! (a) accessor table of every backend against the logical sequence;
//! (b) every catalogued function on every backend / output container / path: full values
//!     against the single model result (requests are the functions' own requests).
use crate::catalog::*;
use crate::cases::*;
use crate::proto::Req;
use crate::rng::Rng;
pub use imp::run;

mod imp {
use tevec::prelude::*;

use crate::proto::{toks, Req, Tok};
use crate::with_view;

/// contents of a slice, whatever type the backend hands out
pub trait SlF { fn items(self) -> Vec<f64>; }
impl SlF for &[f64] { fn items(self) -> Vec<f64> { self.to_vec() } }
impl SlF for std::collections::vec_deque::Iter<'_, f64> { fn items(self) -> Vec<f64> { self.cloned().collect() } }
impl SlF for crate::backends::ArrayView1<'_, f64> { fn items(self) -> Vec<f64> { self.iter().cloned().collect() } }

/// the mutable siblings of the accessors: `try_as_slice_mut` (when offered it is the logical
/// sequence) and `Vec1::sort_unstable_by`, which sorts through it or through a copy, on the owned
/// containers — Vec, VecDeque in a rotation, Array1 in standard layout and with an inverted axis
/// (contiguous, stride -1) — and the offered slice of forward / reversed `ArrayViewMut1`.
/// `<slice or N>;<contents after sorting ascending | ->`
fn accmut(b: &str, xs: &[f64]) -> String {
    use crate::backends::{s, Array1};
    macro_rules! own { ($c:expr) => {{
        let mut c = $c;
        let sl = match c.try_as_slice_mut() { Some(s) => toks(&s.to_vec()), None => "N".into() };
        let ok = Vec1::sort_unstable_by(&mut c, |a: &f64, b: &f64| a.partial_cmp(b).unwrap()).is_ok();
        let it: Vec<f64> = c.titer().collect();
        format!("{};{}{}", sl, if ok { "" } else { "E:" }, toks(&it))
    }} }
    let rev: Vec<f64> = xs.iter().rev().cloned().collect();
    match b {
        "vec" => own!(xs.to_vec()),
        "nd" => own!(Array1::from_vec(xs.to_vec())),
        "ndinv" => own!({ let mut a = Array1::from_vec(rev.clone()); a.invert_axis(tevec::export::ndarray::Axis(0)); a }),
        "ndvm" => { let mut a = Array1::from_vec(xs.to_vec()); let mut v = a.view_mut(); let sl = match v.try_as_slice_mut() { Some(s) => toks(&s.to_vec()), None => "N".into() }; format!("{};-", sl) },
        "ndvm-1" => { let mut a = Array1::from_vec(rev.clone()); let mut v = a.slice_mut(s![..;-1]); let sl = match v.try_as_slice_mut() { Some(s) => toks(&s.to_vec()), None => "N".into() }; format!("{};-", sl) },
        _ => match b.strip_prefix("deque") {
            Some(k) => own!(crate::backends::deque_rot(&xs.to_vec(), k.parse().unwrap_or(0))),
            None => "?badcase".into(),
        },
    }
}

pub fn run(r: &Req) -> Option<String> {
    if r.f == "accmut" {
        let xs = crate::types::as_f64(&r.series("xs"));
        return Some(match std::panic::catch_unwind(|| accmut(r.s("b"), &xs)) { Ok(s) => s, Err(_) => "P".into() });
    }
    if r.f != "acc" {
        return None;
    }
    let xs = crate::types::as_f64(&r.series("xs"));
    let n = xs.len();
    if r.s("b") == "opt" || r.s("b") == "optnd" {
        // the option view of a float container: every accessor must describe the decoded sequence
        macro_rules! opt_table {
            ($base:expr) => {{
                let o = $base.opt();
                let view = &o;
                let mut g: Vec<String> = vec![];
                g.push(format!("{}", GetLen::len(view)));
                let gets: Vec<String> = (0..=n).map(|i| match Vec1View::<Option<f64>>::get(view, i) { Ok(v) => v.tok(), Err(_) => "E".into() }).collect();
                g.push(gets.join(","));
                // vget: bounds + null handling in one call
                let it: Vec<Option<f64>> = TIter::<Option<f64>>::titer(view).collect();
                g.push(toks(&it));
                let rv: Vec<Option<f64>> = TIter::<Option<f64>>::titer(view).rev().collect();
                g.push(toks(&rv));
                let h = TIter::<Option<f64>>::titer(view).size_hint();
                g.push(format!("{}:{}", h.0, h.1.map(|x| x.to_string()).unwrap_or("_".into())));
                let mut sl: Vec<String> = vec![];
                for a in 0..=n {
                    for b in a..=n {
                        let s = match Vec1View::<Option<f64>>::slice(view, a, b) {
                            Ok(v) => if v.is_empty() { "e".to_string() } else { v.iter().map(|x| x.tok()).collect::<Vec<_>>().join("|") },
                            Err(_) => "E".into(),
                        };
                        sl.push(s);
                    }
                }
                g.push(if sl.is_empty() { "[]".into() } else { sl.join(",") });
                g.push(match Vec1View::<Option<f64>>::try_as_slice(view) { Some(s) => format!("S,{}", toks(s)), None => "N".into() });
                g.join(";")
            }};
        }
        if r.s("b") == "optnd" {
            let d = crate::backends::Array1::from_vec(xs.clone());
            return Some(opt_table!(d));
        }
        return Some(opt_table!(xs));
    }
    Some(with_view!(r.s("b"), xs, f64::NAN, view => {
        let mut g: Vec<String> = vec![];
        g.push(format!("{}", GetLen::len(view)));
        // checked get at every index, and one past the end
        let gets: Vec<String> = (0..=n).map(|i| match Vec1View::<f64>::get(view, i) { Ok(v) => v.tok(), Err(_) => "E".into() }).collect();
        g.push(gets.join(","));
        let it: Vec<f64> = TIter::<f64>::titer(view).collect();
        g.push(toks(&it));
        let rv: Vec<f64> = TIter::<f64>::titer(view).rev().collect();
        g.push(toks(&rv));
        // iterator length hints
        let h = TIter::<f64>::titer(view).size_hint();
        g.push(format!("{}:{}", h.0, h.1.map(|x| x.to_string()).unwrap_or("_".into())));
        // every sub-slice a <= b <= len
        let mut sl: Vec<String> = vec![];
        for a in 0..=n {
            for b in a..=n {
                let s = match Vec1View::<f64>::slice(view, a, b) { Ok(s) => { let v = s.items(); if v.is_empty() { "e".to_string() } else { v.iter().map(|x| x.tok()).collect::<Vec<_>>().join("|") } }, Err(_) => "E".into() };
                sl.push(s);
            }
        }
        g.push(if sl.is_empty() { "[]".into() } else { sl.join(",") });
        // contiguous view when offered
        g.push(match Vec1View::<f64>::try_as_slice(view) { Some(s) => format!("S,{}", toks(s)), None => "N".into() });
        g.join(";")
    }))
}
}

pub fn compare(r: &Req, imp: &str, model: &str) -> Option<bool> {
    if r.f == "accmut" {
        // the contiguous view is optional; when offered it is the logical sequence. The sorted
        // contents (owned containers) are the sorted sequence.
        let (a, m): (Vec<&str>, Vec<&str>) = (imp.split(';').collect(), model.split(';').collect());
        if a.len() != 2 || m.len() != 2 {
            return Some(false);
        }
        let mode = crate::cmp::Mode::of("f64");
        return Some((a[0] == "N" || crate::cmp::line_eq(a[0], m[0], mode)) && (a[1] == "-" || crate::cmp::line_eq(a[1], m[1], mode)));
    }
    if r.f != "acc" {
        return None;
    }
    let a: Vec<&str> = imp.split(';').collect();
    let b: Vec<&str> = model.split(';').collect();
    if a.len() != 7 || b.len() != 7 {
        return Some(false);
    }
    let mode = crate::cmp::Mode::of("f64");
    for i in 0..5 {
        if !crate::cmp::line_eq(a[i], b[i], mode) {
            return Some(false);
        }
    }
    // slices: tokens are `|`-joined element lists
    let sa = crate::proto::split_list(a[5]);
    let sb = crate::proto::split_list(b[5]);
    if sa.len() != sb.len() {
        return Some(false);
    }
    for (x, y) in sa.iter().zip(sb.iter()) {
        if !crate::cmp::line_eq(&x.replace('|', ","), &y.replace('|', ","), mode) {
            return Some(false);
        }
    }
    // contiguous view: not offered is fine; when offered it must be the logical sequence
    Some(a[6] == "N" || crate::cmp::line_eq(a[6], b[6], mode))
}

pub fn valid_case(r: &Req) -> bool {
    if r.f == "acc" {
        return true;
    }
    if r.f == "accmut" {
        return !r.list("xs").iter().any(|x| *x == "_") && (matches!(r.s("b"), "vec" | "nd" | "ndinv" | "ndvm" | "ndvm-1") || r.s("b").starts_with("deque"));
    }
    if r.f == "vcut" {
        return super::c14::valid_case(r) && matches!(r.s("oc"), "vec" | "deque" | "nd") && matches!(r.s("cm"), "plain" | "trusted");
    }
    super::c05::valid_case(r)
}

pub fn generate(tier: &str, rng: &mut Rng) -> (Vec<String>, bool) {
    let thorough = tier == "thorough";
    let mut out = vec![];
    // (a) accessor table: every backend, all series over {null,0,1} up to len 4 + a few longer
    for b in crate::backends::BACKENDS_SMALL.iter().chain(["opt", "optnd"].iter()) {
        for len in 0..=(if thorough { 6 } else { 4 }) {
            for s in all_series(&["_", "1", "2"], len) {
                out.push(format!("acc b={} xs={}", b, join(&s)));
            }
        }
        for _ in 0..(if thorough { 200 } else { 20 }) {
            let len = 5 + rng.below(if *b == "arr" { 4 } else { 30 });
            out.push(format!("acc b={} xs={}", b, join(&rand_series(rng, len, 8, false, true))));
        }
    }
    // (a') the mutable siblings: the offered mutable slice and an in-place sort, owned containers incl.
    //      an Array1 with an inverted axis, forward and reversed mutable views
    for b in ["vec", "deque0", "deque1", "deque3", "nd", "ndinv", "ndvm", "ndvm-1"] {
        for len in 0..=(if thorough { 5 } else { 4 }) {
            for s in all_series(&["3", "1", "2"], len) {
                out.push(format!("accmut b={} xs={}", b, join(&s)));
            }
        }
    }
    // (c) a fallible mapping collected into every output container by both fallible collectors: the labels,
    // or the first per-element error, whatever the container
    for len in 0..=(if thorough { 4 } else { 3 }) {
        for xs in all_series(&["_", "-5", "5", "15", "25"], len) {
            for (ab, labels) in [(0, "1,2"), (1, "1,2,3,4")] {
                for right in 0..2 {
                    for oc in ["vec", "deque", "nd"] {
                        for cm in ["plain", "trusted"] {
                            let t = if (len + right) % 2 == 0 { "f64" } else { "oi32" };
                            out.push(format!("vcut t={} lt=oi32 oc={} cm={} xs={} bins=0,10,20 labels={} right={} ab={}", t, oc, cm, join(&xs), labels, right, ab));
                        }
                    }
                }
            }
        }
    }
    // (b) functions: backend regime and output-container/path regime
    let maxlen = if thorough { 6 } else { 4 };
    let mut k = 0usize;
    for f in ROLL {
        for len in 0..=maxlen {
            let alpha: &[&str] = if f.nullable { &["_", "1", "3"] } else { &["1", "3"] };
            for (si, s) in all_series(alpha, len).into_iter().enumerate() {
                // break ties / collinearity a little: add the position to non-null values
                let xs: Vec<String> = s.iter().enumerate().map(|(i, v)| if v == "_" { v.clone() } else { format!("{}", v.parse::<i64>().unwrap() + (i as i64 % 3)) }).collect();
                let ys: Vec<String> = s.iter().enumerate().map(|(i, v)| if v == "_" && (i + si) % 2 == 0 { "_".to_string() } else { format!("{}", (i * i + si) % 5) }).collect();
                for w in [1, 2, 3, len + 1] {
                    if w > len + 2 { continue; }
                    for mp in [None, Some(1.min(w)), Some(w)] {
                        if mp.is_none() && f.mp_none_needs_len_ge_w && len < w { continue; }
                        k += 1;
                        let tail = format!("{}{}", if f.arity == 2 { format!(" ys={}", join(&ys)) } else { String::new() }, f.extra);
                        // every backend
                        let b = crate::backends::BACKENDS_SIZED[k % crate::backends::BACKENDS_SIZED.len()];
                        let t = if f.nullable && k % 2 == 0 { "of64" } else { "f64" };
                        out.push(format!("{} w={} mp={} b={} t={} o=f64 xs={}{}", f.name, w, mp_tok(mp), b, t, join(&xs), tail));
                        // the option view as input backend (null-aware single-series functions), both paths
                        if f.nullable && f.arity == 1 && k % 2 == 0 {
                            let p = ["ret", "out"][(k / 2) % 2];
                            out.push(format!("{} w={} mp={} b=opt p={} t=f64 o=f64 xs={}{}", f.name, w, mp_tok(mp), p, join(&xs), tail));
                        }
                        // every output container x path
                        let oc = ["vec", "deque", "nd", "nds", "dqw"][k % 5];
                        let p = if oc == "nds" || oc == "dqw" { "out" } else { ["ret", "out"][(k / 5) % 2] };
                        out.push(format!("{} w={} mp={} oc={} p={} t=f64 o=f64 xs={}{}", f.name, w, mp_tok(mp), oc, p, join(&xs), tail));
                    }
                }
            }
        }
    }
    // Polars cells (the harness is always built with `--features polars`): lengths up to 3 in the quick
    // tier, up to 5 in the thorough tier
    {
        let plmax = if thorough { 5 } else { 3 };
        for k in 1..=3 {
            for len in 0..=plmax {
                for s in all_series(&["_", "1", "2"], len) {
                    out.push(format!("acc b=pl{} xs={}", k, join(&s)));
                }
            }
        }
        let mut k = 0usize;
        for f in ROLL.iter().filter(|f| f.nullable && f.arity == 1 && f.family != "fdiff") {
            for len in 0..=plmax {
                for s in all_series(&["_", "1", "3"], len) {
                    let xs: Vec<String> = s.iter().enumerate().map(|(i, v)| if v == "_" { v.clone() } else { format!("{}", v.parse::<i64>().unwrap() + (i as i64 % 3)) }).collect();
                    for w in [1, 2, 3, len + 1] {
                        if w > len + 2 { continue; }
                        let mp = [None, Some(1.min(w)), Some(w)][k % 3];
                        if mp.is_none() && f.mp_none_needs_len_ge_w && len < w { continue; }
                        k += 1;
                        out.push(format!("{} w={} mp={} b=pl{} t=of64 o=f64 xs={}{}", f.name, w, mp_tok(mp), 1 + k % 3, join(&xs), f.extra));
                        // ChunkedArray as output container (returned path), from a Polars, a VecDeque and a Vec input
                        let b = ["pl2", "deque1", "vec"][k % 3];
                        out.push(format!("{} w={} mp={} b={} oc=pl t=of64 o=of64 xs={}{}", f.name, w, mp_tok(mp), b, join(&xs), f.extra));
                    }
                }
            }
        }
    }
    (out, true)
}

/// F44: a fast-path input backend (Vec / array / ndarray) asked to return a Polars ChunkedArray
/// goes through `O::uninit` + `uset`, which the Polars backend does not implement
pub fn known_finding(r: &Req, imp: &str, _spec: &str) -> Option<String> {
    if r.s("oc") == "pl" && !r.s("b").starts_with("pl") && !r.s("b").starts_with("deque") && imp.starts_with("P:") && imp.contains("do not support set") {
        return Some("F44".into());
    }
    None
}

pub fn rule(tier: &str) -> String {
    format!("(a) accessor table (len, checked get at 0..=len, iteration both directions, size hint, every sub-slice a<=b<=len, contiguous view when offered) of 17 input backends (the option view of a Vec and of an ndarray, Vec, slice, [T;N], Arc<Vec>, VecDeque head offsets 0/1/3, Arc<VecDeque>, Array1, ArrayViewMut1, ArrayView1 step 1,2,3,-1,-2) against the logical sequence, exhaustive over {{null,1,2}}^len, len <= {}; (b) every catalogued function ({}) on every sized backend (round-robin) and every output container x {{returned, caller buffer}} (incl. a strided ndarray view as caller buffer, checked for writes outside its slots, and a VecDeque caller buffer whose ring storage wraps around): full values against the single model result. Polars cells (ChunkedArray with 1..3 chunks and validity as input backend, and as output container of the returned path): series up to length 3 in the quick tier, 5 in the thorough tier. (c) vcut on every series over {{null,-5,5,15,25}} up to length 3 (4), edges 0,10,20 with and without open outer bounds, both closure sides, collected by try_collect_vec1 and try_collect_trusted_vec1 into Vec / VecDeque / Array1: the labels, or the first per-element error, whatever the container. non-trivial = len >= 2 with a non-null output.", if tier == "thorough" { 6 } else { 4 }, ROLL.len())
}
