//! C02: the eight rolling drivers observed through a recording, stateful callback
use crate::proto::Req;
use crate::rng::Rng;
pub use imp::run;

pub const DRIVERS: &[&str] = &["rolling_apply", "rolling_apply_idx", "rolling2_apply", "rolling2_apply_idx", "rolling_custom", "rolling2_custom", "rolling_custom_iter"];
pub const OUTC: &[&str] = &["vec", "deque", "nd", "nds", "dqw"];

/// the caller-buffer path: `no` = a fresh uninitialised container of type `$O`; `yes` = a *strided*
/// uninitialised ndarray view (every second slot of a base array pre-filled with a sentinel): results
/// must land in the view's slots, in order, and nowhere else
macro_rules! out_path {
    (no, $O:ty, $len:expr, $call_out:expr) => {{
        let mut buf = <$O as Vec1<i64>>::uninit($len);
        { let r = <$O as Vec1<i64>>::uninit_ref_mut(&mut buf); $call_out(r); }
        let o: $O = unsafe { buf.assume_init() };
        o.titer().collect::<Vec<i64>>()
    }};
    (wrap, $O:ty, $len:expr, $call_out:expr) => {{
        // a VecDeque<MaybeUninit<i64>> caller buffer whose ring storage wraps around (head offset > 0,
        // two non-empty slices for len >= 2): every logical slot must be written, in order
        use std::mem::MaybeUninit;
        const SENT: i64 = -7_777_777;
        let n: usize = $len;
        let mut buf: VecDeque<MaybeUninit<i64>> = VecDeque::with_capacity(n);
        for _ in 0..n { buf.push_back(MaybeUninit::new(SENT)); }
        if n >= 2 {
            let mut extra = 1;
            let mut guard = 0;
            while (buf.as_slices().1.is_empty() || extra > 0) && guard < 4 * n + 8 {
                if !buf.as_slices().1.is_empty() { extra -= 1; }
                buf.pop_front();
                buf.push_back(MaybeUninit::new(SENT));
                guard += 1;
            }
        }
        { let r = &mut buf; $call_out(r); }
        let mut v: Vec<i64> = buf.iter().map(|m| unsafe { m.assume_init() }).collect();
        let mut unwritten = false;
        let mut j = 0;
        while j < v.len() { if v[j] == SENT { unwritten = true; } j += 1; }
        if unwritten { v.push(i64::MIN + 1); }
        v
    }};
    (yes, $O:ty, $len:expr, $call_out:expr) => {{
        use std::mem::MaybeUninit;
        const SENT: i64 = -7_777_777;
        let mut base = Array1::<MaybeUninit<i64>>::from_elem(2 * $len, MaybeUninit::new(SENT));
        { let r = base.slice_mut(crate::backends::s![..;2]); $call_out(r); }
        let all: Vec<i64> = base.iter().map(|m| unsafe { m.assume_init() }).collect();
        let mut v: Vec<i64> = vec![];
        { let mut k = 0; while k < all.len() { v.push(all[k]); k += 2; } }
        // a slot outside the view was written / a slot of the view was not: make the output differ
        let mut clobbered = false;
        let mut k = 1;
        while k < all.len() { if all[k] != SENT { clobbered = true; } k += 2; }
        let mut unwritten = false;
        let mut j = 0;
        while j < v.len() { if v[j] == SENT { unwritten = true; } j += 1; }
        if clobbered { v.push(i64::MIN); }
        if unwritten { v.push(i64::MIN + 1); }
        v
    }};
}

mod imp {
use std::cell::RefCell;
use std::collections::VecDeque;

use tevec::prelude::*;

use crate::backends::Array1;
use crate::proto::{show_list, Req};
use crate::{with_view, with_view_static};

/// contents of a window slice, whatever type the backend hands out
pub trait SlItems { fn items(self) -> Vec<i64>; }
impl SlItems for &[i64] { fn items(self) -> Vec<i64> { self.to_vec() } }
impl SlItems for std::collections::vec_deque::Iter<'_, i64> { fn items(self) -> Vec<i64> { self.cloned().collect() } }
impl SlItems for crate::backends::ArrayView1<'_, i64> { fn items(self) -> Vec<i64> { self.iter().cloned().collect() } }

fn opt_tok<T: std::fmt::Display>(o: &Option<T>) -> String {
    match o {
        None => "_".into(),
        Some(v) => format!("{}", v),
    }
}

fn slice_tok<I: Iterator<Item = i64>>(it: I) -> String {
    let v: Vec<String> = it.map(|x| x.to_string()).collect();
    if v.is_empty() { "e".into() } else { v.join(".") }
}

fn mask_last(calls: &mut [(String, String)], w: usize, len: usize) -> Vec<String> {
    calls.iter().enumerate().map(|(i, (a, b))| {
        format!("{}:{}", if w > len && i + 1 == len { "?" } else { a.as_str() }, b)
    }).collect()
}

/// the rolling2_custom arm; `C2` selects whether it is compiled (its callback bound needs `Self: 'static`)
macro_rules! c2_arm {
    (yes, $view:ident, $ys:ident, $w:expr, $path:expr, $O:ty, $len:expr, $slog:ident, $next:ident) => {{
        if $path == "ret" {
            let o: $O = $view.rolling2_custom::<$O, i64, _, _, _>(&$ys, $w, |a, b| { $slog.borrow_mut().push(format!("{}&{}", slice_tok(a.items().into_iter()), slice_tok(b.items().into_iter()))); $next() }, None).unwrap();
            o.titer().collect::<Vec<i64>>()
        } else {
            let mut buf = <$O as Vec1<i64>>::uninit($len);
            { let r = <$O as Vec1<i64>>::uninit_ref_mut(&mut buf);
              $view.rolling2_custom::<$O, i64, _, _, _>(&$ys, $w, |a, b| { $slog.borrow_mut().push(format!("{}&{}", slice_tok(a.items().into_iter()), slice_tok(b.items().into_iter()))); $next() }, Some(r)); }
            let o: $O = unsafe { buf.assume_init() };
            o.titer().collect::<Vec<i64>>()
        }
    }};
    (no, $view:ident, $ys:ident, $w:expr, $path:expr, $O:ty, $len:expr, $slog:ident, $next:ident) => {{
        panic!("rolling2_custom is not callable on a borrowed view")
    }};
}

/// run one driver on view `$view` (elements i64), output container `$O`, path ret/out
macro_rules! drive {
    (@nds $nds:ident, $c2:ident, $f:expr, $view:ident, $ys:ident, $w:expr, $path:expr, $O:ty, $len:expr) => {{
        let log: RefCell<Vec<(String, String)>> = RefCell::new(vec![]);
        let slog: RefCell<Vec<String>> = RefCell::new(vec![]);
        let cnt: RefCell<i64> = RefCell::new(0);
        let next = || { let mut c = cnt.borrow_mut(); let k = *c; *c += 1; k };
        let w: usize = $w;
        let out_vec: Vec<i64> = {
            macro_rules! finish {
                ($call_ret:expr, $call_out:expr) => {{
                    if $path == "ret" {
                        let o: $O = $call_ret;
                        o.titer().collect::<Vec<i64>>()
                    } else {
                        out_path!($nds, $O, $len, $call_out)
                    }
                }};
            }
            match $f {
                "rolling_apply" => finish!(
                    $view.rolling_apply::<$O, i64, _>(w, |rm, v| { log.borrow_mut().push((opt_tok(&rm), v.to_string())); next() }, None).unwrap(),
                    |r| { $view.rolling_apply::<$O, i64, _>(w, |rm, v| { log.borrow_mut().push((opt_tok(&rm), v.to_string())); next() }, Some(r)); }),
                "rolling_apply_idx" => finish!(
                    $view.rolling_apply_idx::<$O, i64, _>(w, |s, e, v| { log.borrow_mut().push((opt_tok(&s), format!("{}:{}", e, v))); next() }, None).unwrap(),
                    |r| { $view.rolling_apply_idx::<$O, i64, _>(w, |s, e, v| { log.borrow_mut().push((opt_tok(&s), format!("{}:{}", e, v))); next() }, Some(r)); }),
                "rolling2_apply" => finish!(
                    $view.rolling2_apply::<$O, i64, _, _, _>(&$ys, w, |rm, v| { log.borrow_mut().push((match rm { None => "_".into(), Some((a, b)) => format!("{}.{}", a, b) }, format!("{}.{}", v.0, v.1))); next() }, None).unwrap(),
                    |r| { $view.rolling2_apply::<$O, i64, _, _, _>(&$ys, w, |rm, v| { log.borrow_mut().push((match rm { None => "_".into(), Some((a, b)) => format!("{}.{}", a, b) }, format!("{}.{}", v.0, v.1))); next() }, Some(r)); }),
                "rolling2_apply_idx" => finish!(
                    $view.rolling2_apply_idx::<$O, i64, _, _, _>(&$ys, w, |s, e, v| { log.borrow_mut().push((opt_tok(&s), format!("{}:{}.{}", e, v.0, v.1))); next() }, None).unwrap(),
                    |r| { $view.rolling2_apply_idx::<$O, i64, _, _, _>(&$ys, w, |s, e, v| { log.borrow_mut().push((opt_tok(&s), format!("{}:{}.{}", e, v.0, v.1))); next() }, Some(r)); }),
                "rolling_custom" => finish!(
                    $view.rolling_custom::<$O, i64, _>(w, |sl| { slog.borrow_mut().push(slice_tok(sl.items().into_iter())); next() }, None).unwrap(),
                    |r| { $view.rolling_custom::<$O, i64, _>(w, |sl| { slog.borrow_mut().push(slice_tok(sl.items().into_iter())); next() }, Some(r)); }),
                "rolling_custom_iter" => {
                    // the lazy iterator form: consumed by plain iteration, hint checked first
                    let it = $view.rolling_custom_iter(w, |sl| { slog.borrow_mut().push(slice_tok(sl.items().into_iter())); next() });
                    let hint = it.size_hint();
                    let v: Vec<i64> = it.collect();
                    assert!(hint == (v.len(), Some(v.len())), "size hint {:?} but {} items", hint, v.len());
                    v
                },
                "rolling2_custom" => c2_arm!($c2, $view, $ys, w, $path, $O, $len, slog, next),
                other => panic!("unknown driver {other}"),
            }
        };
        let calls = if $f.contains("custom") { slog.borrow().clone() } else { mask_last(&mut log.borrow_mut(), w, $len) };
        format!("{};{}", show_list(&calls, |s| s.clone()), show_list(&out_vec, |x| x.to_string()))
    }};
    ($c2:ident, $f:expr, $view:ident, $ys:ident, $w:expr, $path:expr, $O:ty, $len:expr) => {
        drive!(@nds no, $c2, $f, $view, $ys, $w, $path, $O, $len)
    };
}

pub fn run(r: &Req) -> Option<String> {
    if !super::DRIVERS.contains(&r.f.as_str()) || !r.has("n") {
        return None;
    }
    let n = r.usize("n");
    let w = r.usize("w");
    let xs: Vec<i64> = (0..n as i64).map(|i| i + 10).collect();
    // the second series may be longer than the first (`n2=`): only its first `n` elements matter
    let n2 = if r.has("n2") { r.usize("n2") } else { n };
    let ys: Vec<i64> = (0..n2 as i64).map(|i| i + 50).collect();
    let path = r.s("p");
    let f = r.f.as_str();
    let b = if r.s("b").is_empty() { "vec" } else { r.s("b") };
    if f == "rolling2_custom" {
        return Some(with_view_static!(b, xs, -1i64, view => {
            match r.s("oc") {
                "deque" => drive!(yes, f, view, ys, w, path, VecDeque<i64>, n),
                "nd" => drive!(yes, f, view, ys, w, path, Array1<i64>, n),
                "nds" => drive!(@nds yes, yes, f, view, ys, w, path, Array1<i64>, n),
                "dqw" => drive!(@nds wrap, yes, f, view, ys, w, path, VecDeque<i64>, n),
                _ => drive!(yes, f, view, ys, w, path, Vec<i64>, n),
            }
        }));
    }
    Some(with_view!(b, xs, -1i64, view => {
        match r.s("oc") {
            "deque" => drive!(no, f, view, ys, w, path, VecDeque<i64>, n),
            "nd" => drive!(no, f, view, ys, w, path, Array1<i64>, n),
            "nds" => drive!(@nds yes, no, f, view, ys, w, path, Array1<i64>, n),
            "dqw" => drive!(@nds wrap, no, f, view, ys, w, path, VecDeque<i64>, n),
            _ => drive!(no, f, view, ys, w, path, Vec<i64>, n),
        }
    }))
}
}

pub fn valid_case(r: &Req) -> bool {
    r.usize("w") >= 1
}

pub fn generate(tier: &str, _rng: &mut Rng) -> (Vec<String>, bool) {
    let maxn = if tier == "thorough" { 12 } else { 8 };
    let mut out = vec![];
    for f in DRIVERS {
        for b in crate::backends::BACKENDS_SMALL {
            if *f == "rolling2_custom" && !crate::backends::BACKENDS_STATIC.contains(b) {
                continue; // not callable on borrowed views (higher-ranked callback bound)
            }
            for oc in OUTC {
                for p in ["ret", "out"] {
                    if *f == "rolling_custom_iter" && (p == "out" || *oc != "vec") {
                        continue; // lazy iterator: no output container involved
                    }
                    if (*oc == "nds" || *oc == "dqw") && (p == "ret" || *f == "rolling2_custom") {
                        continue; // the strided view / the wrapped ring buffer exist as caller buffers only
                    }
                    for n in 0..=maxn {
                        for w in 1..=n + 3 {
                            let sh = if p == "out" || matches!(*b, "vec" | "slice" | "arr" | "arc" | "nd" | "ndvm") || b.starts_with("ndv") { "to" } else { "iter" };
                            out.push(format!("{} b={} oc={} p={} sh={} n={} w={}", f, b, oc, p, sh, n, w));
                            if f.contains('2') && (n + w) % 3 == 0 {
                                // a longer second series: the output is as long as the *first* series
                                out.push(format!("{} b={} oc={} p={} sh={} n={} w={} n2={}", f, b, oc, p, sh, n, w, n + 1 + (w % 3)));
                            }
                        }
                    }
                }
            }
        }
    }
    (out, true)
}

pub fn rule(tier: &str) -> String {
    format!("exhaustive: 7 driver entry points incl. the lazy rolling_custom_iter (+ their *_to forms through p=out) x 15 input backends (Vec, slice, [T;N], Arc<Vec>, VecDeque at head offsets 0/1/3, Arc<VecDeque>, Array1, ArrayViewMut1, ArrayView1 with step 1,2,3,-1,-2) x 3 output containers x {{returned, caller buffer}} + a strided ndarray view as caller buffer (results must land in its slots and nowhere else) + a VecDeque caller buffer whose ring storage wraps around x len 0..={} x window 1..=len+3, with a recording stateful callback (returns a running counter). non-trivial = len >= 2.", if tier == "thorough" { 12 } else { 8 })
}
