//! C16: NaT is absorbing; unit conversions of date-times agree with the calendar (chrono)
//!
//! Requests (`ua`,`ub` = unit s|ms|us|ns, `tx`,`ty` = i64 or `_` for NaT, `mo` = months (i32 or `_` for a
//! NaT duration), `dn` (+ `dsec` seconds) = nanoseconds of the duration, `kf` = i32 factor; the key names
//! are deliberately not shared with other properties' requests):
//!   c16_into_unit ua ub tx   -> into_unit ; Cast<DateTime<ub>> ; chrono oracle
//!   c16_opt_i64   ua tx      -> into_opt_i64 ; Cast<Option<i64>> ; is_none ; from_opt_i64∘into_opt_i64 ; Cast from Option<i64> ; to_opt ; null flags of the casts to Option<i32|u64|usize|isize|u8|f32|f64> (the bool target rejects values other than 0/1: C15)
//!   c16_as_cr     ua tx      -> as_cr instant in ns ; field getters ; From<chrono>(as_cr) ; chrono field oracle
//!   c16_from_cr   ua sec nano -> From<chrono> ; as_cr of it (instant in ns) ; From<Option<NaiveDateTime>> Some / None
//!   c16_dt_add / c16_dt_sub  ua tx mo dn ; c16_dt_diff ua tx ty
//!   c16_td_neg mo dn ; c16_td_add / c16_td_sub mo dn mo2 dn2 ; c16_td_mul mo dn kf
//!   c16_time_add / c16_time_sub tx mo dn [dsec] ; c16_time_misc tx
//!   c16_from_none ua         -> NaT flags of `None::<f64|f32|i64|i32|u64|usize|isize|u8>` cast to DateTime<ua> / TimeDelta / Time
//!   c16_cr_range             -> chrono's representable range (validates the constants of the model)
use crate::proto::Req;
use crate::rng::Rng;
pub use imp::run;

pub const UNITS: &[&str] = &["s", "ms", "us", "ns"];

pub fn mult(u: &str) -> i128 {
    match u {
        "s" => 1_000_000_000,
        "ms" => 1_000_000,
        "us" => 1_000,
        _ => 1,
    }
}

/// chrono's representable instants, in nanoseconds since the epoch
/// (-262143-01-01T00:00:00 ..= +262142-12-31T23:59:59.999999999; checked by `c16_cr_range`)
pub const CR_MIN_S: i128 = -8334601228800;
pub const CR_MAX_S: i128 = 8210266876799;
pub fn cr_min_ns() -> i128 {
    CR_MIN_S * 1_000_000_000
}
pub fn cr_max_ns() -> i128 {
    CR_MAX_S * 1_000_000_000 + 999_999_999
}

mod imp {
use std::panic::{catch_unwind, AssertUnwindSafe};

use chrono::{DateTime as Cr, Datelike, Duration, NaiveDateTime, Timelike, Utc};
use tea_time::unit::{Microsecond, Millisecond, Nanosecond, Second};
use tea_time::{DateTime, Time, TimeDelta, TimeUnitTrait};
use tevec::prelude::{Cast, IsNone};

use crate::proto::Req;

macro_rules! with_unit {
    ($s:expr, $U:ident => $body:expr) => {
        match $s {
            "s" => { type $U = Second; $body },
            "ms" => { type $U = Millisecond; $body },
            "us" => { type $U = Microsecond; $body },
            "ns" => { type $U = Nanosecond; $body },
            other => panic!("unknown unit {other}"),
        }
    };
}

/// a panic inside the code under test is the outcome `P`
fn guard<F: FnOnce() -> String>(f: F) -> String {
    catch_unwind(AssertUnwindSafe(f)).unwrap_or_else(|_| "P".to_string())
}

fn raw_tok(v: i64) -> String {
    if v == i64::MIN { "_".into() } else { v.to_string() }
}
fn dt_tok<U: TimeUnitTrait>(d: DateTime<U>) -> String {
    raw_tok(d.0)
}
fn opt_tok(o: Option<i64>) -> String {
    match o {
        None => "_".into(),
        // Some(i64::MIN) would be a NaT leaking through as a value: make it visible
        Some(i64::MIN) => "SomeNaT".into(),
        Some(v) => v.to_string(),
    }
}
fn dt_of<U: TimeUnitTrait>(s: &str) -> DateTime<U> {
    if s == "_" { DateTime::nat() } else { DateTime::new(s.parse().expect("x")) }
}
fn time_of(s: &str) -> Time {
    if s == "_" { Time::nat() } else { Time::from_i64(s.parse().expect("x")) }
}
fn td_of(mo: &str, d: i64, ds: i64) -> TimeDelta {
    if mo == "_" {
        let mut t = TimeDelta::nat();
        t.inner = Duration::seconds(ds) + Duration::nanoseconds(d);
        t
    } else {
        TimeDelta { months: mo.parse().expect("mo"), inner: Duration::seconds(ds) + Duration::nanoseconds(d) }
    }
}
fn td_tok(t: TimeDelta) -> String {
    if t.months == i32::MIN {
        "_".into()
    } else {
        let ns = t.inner.num_seconds() as i128 * 1_000_000_000 + t.inner.subsec_nanos() as i128;
        format!("{}:{}", t.months, ns)
    }
}
fn time_tok(t: Time) -> String {
    raw_tok(t.0)
}
fn instant(c: &Cr<Utc>) -> i128 {
    c.timestamp() as i128 * 1_000_000_000 + c.timestamp_subsec_nanos() as i128
}
fn fields(c: &Cr<Utc>) -> String {
    format!("{}.{}.{}.{}.{}.{}", c.year(), c.month(), c.day(), c.hour(), c.minute(), c.second())
}

/// chrono as the calendar oracle: the instant of `x` (unit `u`) expressed in unit `v`
fn chrono_convert(u: &str, v: &str, x: &str) -> String {
    if x == "_" || x == "-9223372036854775808" {
        return "_".into();
    }
    let x: i64 = x.parse().expect("x");
    let c = match u {
        "s" => Cr::from_timestamp(x, 0),
        "ms" => Cr::from_timestamp_millis(x),
        "us" => Cr::from_timestamp_micros(x),
        _ => Some(Cr::from_timestamp_nanos(x)),
    };
    let Some(c) = c else { return "na".into() };
    let r = match v {
        "s" => Some(c.timestamp()),
        "ms" => Some(c.timestamp_millis()),
        "us" => Some(c.timestamp_micros()),
        _ => c.timestamp_nanos_opt(),
    };
    match r {
        Some(t) => t.to_string(),
        None => "ovf".into(),
    }
}

/// chrono's calendar fields of the instant `x * mult(u)` built from floor seconds + nanoseconds
fn chrono_fields(u: &str, x: &str) -> String {
    if x == "_" || x == "-9223372036854775808" {
        return "_".into();
    }
    let t = x.parse::<i64>().expect("x") as i128 * super::mult(u);
    let secs = t.div_euclid(1_000_000_000);
    let nanos = t.rem_euclid(1_000_000_000);
    if secs < i64::MIN as i128 || secs > i64::MAX as i128 {
        return "_".into();
    }
    match Cr::from_timestamp(secs as i64, nanos as u32) {
        Some(c) => fields(&c),
        None => "_".into(),
    }
}

pub fn run(r: &Req) -> Option<String> {
    let f = r.f.as_str();
    if !f.starts_with("c16_") {
        return None;
    }
    let u = r.s("ua");
    let x = r.s("tx");
    let d = r.i64("dn");
    let ds = r.i64("dsec");
    Some(match f {
        "c16_into_unit" => {
            let v = r.s("ub");
            let a = with_unit!(u, U => with_unit!(v, V => guard(|| dt_tok(dt_of::<U>(x).into_unit::<V>()))));
            let b = with_unit!(u, U => with_unit!(v, V => guard(|| {
                let o: DateTime<V> = Cast::<DateTime<V>>::cast(dt_of::<U>(x));
                dt_tok(o)
            })));
            format!("{};{};{}", a, b, chrono_convert(u, v, x))
        },
        "c16_opt_i64" => with_unit!(u, U => {
            let t = dt_of::<U>(x);
            let a = opt_tok(t.into_opt_i64());
            let b = opt_tok(Cast::<Option<i64>>::cast(t));
            let c = if IsNone::is_none(&t) { "1" } else { "0" };
            let e = dt_tok(DateTime::<U>::from_opt_i64(t.into_opt_i64()));
            let g: DateTime<U> = Cast::<DateTime<U>>::cast(t.into_opt_i64());
            let h = if t.to_opt().is_some() { "1" } else { "0" };
            // the other optional targets of impl_time_cast!: null exactly for NaT (the value itself is C15's)
            fn fl<X>(o: Option<X>) -> char { if o.is_none() { '1' } else { '0' } }
            let k: String = [
                fl(Cast::<Option<i32>>::cast(t)), fl(Cast::<Option<u64>>::cast(t)), fl(Cast::<Option<usize>>::cast(t)),
                fl(Cast::<Option<isize>>::cast(t)), fl(Cast::<Option<u8>>::cast(t)),
                fl(Cast::<Option<f32>>::cast(t)), fl(Cast::<Option<f64>>::cast(t)),
            ].iter().collect();
            format!("{};{};{};{};{};{};{}", a, b, c, e, dt_tok(g), h, k)
        }),
        "c16_as_cr" => with_unit!(u, U => {
            let t = dt_of::<U>(x);
            let c = t.as_cr();
            // the deprecated alias `to_cr` is the same conversion
            #[allow(deprecated)]
            let alias = t.to_cr();
            let a = if alias != c {
                format!("ALIAS:{}", match &alias { None => "_".to_string(), Some(c) => instant(c).to_string() })
            } else {
                match &c { None => "_".to_string(), Some(c) => instant(c).to_string() }
            };
            let fl = match (t.year(), t.month(), t.day(), t.hour(), t.minute(), t.second()) {
                (Some(y), Some(mo), Some(dd), Some(h), Some(mi), Some(s)) => format!("{}.{}.{}.{}.{}.{}", y, mo, dd, h, mi, s),
                (None, None, None, None, None, None) => "_".to_string(),
                _ => "mixed".to_string(),
            };
            let back = match c { None => "_".to_string(), Some(c) => guard(|| dt_tok(DateTime::<U>::from(c))) };
            format!("{};{};{};{}", a, fl, back, chrono_fields(u, x))
        }),
        "c16_from_cr" => with_unit!(u, U => {
            let c = Cr::from_timestamp(r.i64("sec"), r.i64("nano") as u32).expect("generator stays inside chrono's range");
            match catch_unwind(AssertUnwindSafe(|| DateTime::<U>::from(c))) {
                Err(_) => "P;P".to_string(),
                Ok(t) => {
                    let back = match t.as_cr() { None => "_".to_string(), Some(c) => instant(&c).to_string() };
                    // the Option<NaiveDateTime> route gives the same value; None gives NaT
                    let t2 = DateTime::<U>::from(Some(c.naive_utc()));
                    let t3 = DateTime::<U>::from(None::<NaiveDateTime>);
                    format!("{};{};{};{}", dt_tok(t), back, dt_tok(t2), dt_tok(t3))
                },
            }
        }),
        "c16_dt_add" => with_unit!(u, U => guard(|| dt_tok(dt_of::<U>(x) + td_of(r.s("mo"), d, ds)))),
        "c16_dt_sub" => with_unit!(u, U => guard(|| dt_tok(dt_of::<U>(x) - td_of(r.s("mo"), d, ds)))),
        "c16_dt_diff" => with_unit!(u, U => guard(|| td_tok(dt_of::<U>(x) - dt_of::<U>(r.s("ty"))))),
        "c16_td_neg" => guard(|| td_tok(-td_of(r.s("mo"), d, ds))),
        "c16_td_add" => guard(|| td_tok(td_of(r.s("mo"), d, ds) + td_of(r.s("mo2"), r.i64("dn2"), 0))),
        "c16_td_sub" => guard(|| td_tok(td_of(r.s("mo"), d, ds) - td_of(r.s("mo2"), r.i64("dn2"), 0))),
        "c16_td_mul" => guard(|| td_tok(td_of(r.s("mo"), d, ds) * r.i32("kf"))),
        "c16_time_add" => guard(|| time_tok(time_of(x) + td_of(r.s("mo"), d, ds))),
        "c16_time_sub" => guard(|| time_tok(time_of(x) - td_of(r.s("mo"), d, ds))),
        "c16_time_misc" => {
            let t = time_of(x);
            let a = match t.as_cr() { None => "_".to_string(), Some(c) => format!("{}.{}", c.num_seconds_from_midnight(), c.nanosecond()) };
            let b = opt_tok(Cast::<Option<i64>>::cast(t));
            let c = if IsNone::is_none(&t) { "1" } else { "0" };
            let e = time_tok(Time::from(Cast::<Option<i64>>::cast(t)));
            format!("{};{};{};{}", a, b, c, e)
        },
        "c16_from_none" => with_unit!(u, U => {
            // a missing optional number cast to the three time types: NaT, whatever the number type
            macro_rules! flags { ($($T:ty),*) => {{
                let mut s = String::new();
                $(
                    let a: DateTime<U> = Cast::<DateTime<U>>::cast(None::<$T>);
                    let b: TimeDelta = Cast::<TimeDelta>::cast(None::<$T>);
                    let c: Time = Cast::<Time>::cast(None::<$T>);
                    s.push(if a.is_nat() { '1' } else { '0' });
                    s.push(if b.is_nat() { '1' } else { '0' });
                    s.push(if c.is_nat() { '1' } else { '0' });
                )*
                s
            }}; }
            flags!(f64, f32, i64, i32, u64, usize, isize, u8)
        }),
        "c16_cr_range" => {
            let lo = Cr::<Utc>::MIN_UTC;
            let hi = Cr::<Utc>::MAX_UTC;
            format!("{};{};{};{}", instant(&lo), instant(&hi), fields(&lo), fields(&hi))
        },
        _ => return None,
    })
}
}

fn in_cr(u: &str, x: i64) -> bool {
    let t = x as i128 * mult(u);
    cr_min_ns() <= t && t <= cr_max_ns()
}

pub fn valid_case(r: &Req) -> bool {
    let unit_ok = |k: &str| !r.has(k) || UNITS.contains(&r.s(k));
    let int_ok = |k: &str| !r.has(k) || r.s(k) == "_" || r.s(k).parse::<i64>().is_ok();
    let mo_ok = |k: &str| !r.has(k) || r.s(k) == "_" || r.s(k).parse::<i32>().is_ok();
    if !(unit_ok("ua") && unit_ok("ub") && int_ok("tx") && int_ok("ty") && mo_ok("mo") && mo_ok("mo2")) {
        return false;
    }
    for k in ["dn", "dn2", "dsec", "sec", "nano"] {
        if r.has(k) && r.s(k).parse::<i64>().is_err() {
            return false;
        }
    }
    if r.has("kf") && r.s("kf").parse::<i32>().is_err() {
        return false;
    }
    let nat = |k: &str| r.s(k) == "_" || r.s(k) == "-9223372036854775808";
    let mo_nat = |k: &str| r.s(k) == "_" || r.s(k) == "-2147483648";
    match r.f.as_str() {
        "c16_from_cr" => {
            // inside chrono's range, and inside the representable range of the unit (only ns is narrower)
            let (s, n) = (r.i64("sec") as i128, r.i64("nano") as i128);
            if !(0..1_000_000_000).contains(&n) {
                return false;
            }
            let t = s * 1_000_000_000 + n;
            if t < cr_min_ns() || t > cr_max_ns() {
                return false;
            }
            r.s("ua") != "ns" || (t >= i64::MIN as i128 && t <= i64::MAX as i128)
        },
        // date-time ± duration with calendar months on valid operands is C17's subject, not modelled here
        "c16_dt_add" | "c16_dt_sub" => nat("tx") || mo_nat("mo") || r.s("mo") == "0",
        _ => true,
    }
}

/// regime tags for the evidence histogram
pub fn tags(r: &Req, imp: &str) -> Vec<String> {
    let mut t = vec![];
    let nat = |k: &str| r.s(k) == "_" || r.s(k) == "-9223372036854775808";
    if r.has("tx") {
        t.push(if nat("tx") { "tx=NaT".to_string() } else if r.s("tx").starts_with('-') { "tx<0".into() } else { "tx>=0".into() });
    }
    if r.has("ty") && nat("ty") {
        t.push("ty=NaT".into());
    }
    for k in ["mo", "mo2"] {
        if r.has(k) && (r.s(k) == "_" || r.s(k) == "-2147483648") {
            t.push(format!("{}=NaT", k));
        }
    }
    if r.f == "c16_into_unit" {
        let (a, b) = (mult(r.s("ua")), mult(r.s("ub")));
        t.push(if a == b { "same-unit".to_string() } else if a < b { "to-coarser".into() } else { "to-finer".into() });
        if a < b && !nat("tx") && (r.i64("tx") as i128 * a).rem_euclid(b) != 0 {
            t.push(if r.s("tx").starts_with('-') { "inexact-pre-epoch".to_string() } else { "inexact-post-epoch".into() });
        }
    }
    let first = imp.split(';').next().unwrap_or("");
    t.push(match first {
        "_" => "out=NaT/None".to_string(),
        "P" => "out=panic".into(),
        _ => "out=value".into(),
    });
    t
}

fn push_into_unit(out: &mut Vec<String>, x: i128) {
    if x < i64::MIN as i128 || x > i64::MAX as i128 {
        return;
    }
    for u in UNITS {
        for v in UNITS {
            out.push(format!("c16_into_unit ua={} ub={} tx={}", u, v, x));
        }
    }
}

/// values that matter for every unit pair: small, powers of the unit ratios ± 1, ends of the ranges
/// in which a widening multiplication still fits, ends of chrono's range, ends of i64
fn edge_values() -> Vec<i128> {
    let mut v: Vec<i128> = vec![];
    let (lo, hi) = (i64::MIN as i128, i64::MAX as i128);
    for p in [1_000i128, 1_000_000, 1_000_000_000, 1_000_000_000_000, 1_000_000_000_000_000, 1_000_000_000_000_000_000] {
        for k in [1i128, 2, 7, 86400] {
            for e in -2..=2 {
                v.push(p * k + e);
                v.push(-(p * k) + e);
            }
        }
    }
    for k in [1_000i128, 1_000_000, 1_000_000_000] {
        for e in -2..=2 {
            v.push(hi / k + e);
            v.push(lo / k + e);
            v.push(lo.div_euclid(k) + e);
        }
    }
    for m in [1i128, 1_000, 1_000_000, 1_000_000_000] {
        for e in -2..=2 {
            v.push(cr_min_ns().div_euclid(m) + e);
            v.push(cr_max_ns().div_euclid(m) + e);
        }
    }
    for e in 0..=3 {
        v.push(lo + e);
        v.push(hi - e);
    }
    v.retain(|x| *x >= lo && *x <= hi);
    v.sort();
    v.dedup();
    v
}

/// random i64 with a uniformly chosen bit length and sign (covers every magnitude)
fn rand_i64(rng: &mut Rng) -> i64 {
    let bits = rng.below(64) as u32;
    let m = if bits == 0 { 0 } else { rng.next() >> (64 - bits) };
    let v = (m >> 1) as i64;
    if rng.chance(0.5) { v } else { -v - (rng.below(2) as i64) }
}

fn x_tok(x: i128) -> String {
    if x == i64::MIN as i128 { "_".into() } else { x.to_string() }
}

pub fn generate(tier: &str, rng: &mut Rng) -> (Vec<String>, bool) {
    let thorough = tier == "thorough";
    let small: i128 = if thorough { 3100 } else { 1100 };
    let n_rand = if thorough { 100_000 } else { 10_000 };
    let mut out: Vec<String> = vec!["c16_cr_range".to_string()];
    for u in UNITS {
        out.push(format!("c16_from_none ua={}", u));
    }
    let edges = edge_values();

    // ---- 1. unit conversion: exhaustive small + edges, all 4x4 pairs; NaT in both spellings -------
    for u in UNITS {
        for v in UNITS {
            out.push(format!("c16_into_unit ua={} ub={} tx=_", u, v));
        }
    }
    for x in -small..=small {
        push_into_unit(&mut out, x);
    }
    for x in &edges {
        push_into_unit(&mut out, *x);
    }

    // ---- 2. optional integer / calendar value / From<chrono> --------------------------------------
    let mut xs: Vec<i128> = (-130..=130).collect();
    xs.extend(edges.iter().cloned());
    for u in UNITS {
        out.push(format!("c16_opt_i64 ua={} tx=_", u));
        out.push(format!("c16_as_cr ua={} tx=_", u));
        for x in &xs {
            out.push(format!("c16_opt_i64 ua={} tx={}", u, x));
            out.push(format!("c16_as_cr ua={} tx={}", u, x));
        }
    }
    let mut secs: Vec<i128> = (-3..=3).collect();
    for s in [59i128, 60, 3599, 3600, 86399, 86400, 86401, 951782400, 951868800, 1709164800, 4102444800, 253402300799, 253402300800] {
        secs.push(s);
        secs.push(-s);
    }
    for e in -2..=2 {
        secs.push(9223372036 + e);
        secs.push(-9223372037 + e);
        secs.push(CR_MIN_S + e);
        secs.push(CR_MAX_S + e);
    }
    let nanos: [i64; 16] = [0, 1, 999, 1000, 1001, 999_999, 1_000_000, 1_000_001, 145_224_191, 145_224_192, 145_224_193, 500_000_000, 854_775_807, 854_775_808, 999_999_000, 999_999_999];
    for u in UNITS {
        for s in &secs {
            for n in &nanos {
                let l = format!("c16_from_cr ua={} sec={} nano={}", u, s, n);
                if valid_case(&Req::parse(&l)) {
                    out.push(l);
                }
            }
        }
    }

    // ---- 3. operators: every operand position NaT / valid --------------------------------------------
    let dts: Vec<String> = ["_", "0", "1", "-1", "999", "-1001", "86400", "-86401", "1700000000", "-1700000000123"].iter().map(|s| s.to_string()).collect();
    let mos = ["_", "0", "1", "-1", "14"];
    let ds: [i64; 9] = [0, 1, -1, 1500, -1500, 999_999_999, -1_000_000_001, 3_600_000_000_000, -86_400_000_000_001];
    for u in UNITS {
        for x in &dts {
            for mo in mos {
                for d in ds {
                    for f in ["c16_dt_add", "c16_dt_sub"] {
                        let l = format!("{} ua={} tx={} mo={} dn={}", f, u, x, mo, d);
                        if valid_case(&Req::parse(&l)) {
                            out.push(l);
                        }
                    }
                }
            }
            for y in &dts {
                out.push(format!("c16_dt_diff ua={} tx={} ty={}", u, x, y));
            }
        }
        // operands outside chrono's range, and the ends of i64
        for x in [i64::MAX, i64::MIN + 1] {
            out.push(format!("c16_dt_add ua={} tx={} mo=0 dn=0", u, x));
            out.push(format!("c16_dt_add ua={} tx={} mo=_ dn=0", u, x));
            out.push(format!("c16_dt_diff ua={} tx={} ty=_", u, x));
            out.push(format!("c16_dt_diff ua={} tx=_ ty={}", u, x));
        }
    }
    let tmos = ["_", "0", "1", "-1", "14", "2147483647", "-2147483647", "-1073741824"];
    for mo in tmos {
        for d in ds {
            out.push(format!("c16_td_neg mo={} dn={}", mo, d));
            for k in [0, 1, -1, 2, -3, 1000, i32::MAX, i32::MIN] {
                out.push(format!("c16_td_mul mo={} dn={} kf={}", mo, d, k));
            }
            for mo2 in tmos {
                for d2 in [0i64, 1, -1500, 86_400_000_000_000] {
                    out.push(format!("c16_td_add mo={} dn={} mo2={} dn2={}", mo, d, mo2, d2));
                    out.push(format!("c16_td_sub mo={} dn={} mo2={} dn2={}", mo, d, mo2, d2));
                }
            }
        }
    }
    let times: Vec<String> = ["_", "0", "1", "-1", "43200000000000", "86399999999999", "86400000000000", "9223372036854775807", "-9223372036854775807"].iter().map(|s| s.to_string()).collect();
    for x in &times {
        out.push(format!("c16_time_misc tx={}", x));
        for mo in mos {
            for d in ds {
                out.push(format!("c16_time_add tx={} mo={} dn={}", x, mo, d));
                out.push(format!("c16_time_sub tx={} mo={} dn={}", x, mo, d));
            }
            // a duration too long for `num_nanoseconds`
            for dsec in [9_223_372_037i64, -9_223_372_037, 9_223_372_036, -9_223_372_036] {
                out.push(format!("c16_time_add tx={} mo={} dn=0 dsec={}", x, mo, dsec));
                out.push(format!("c16_time_sub tx={} mo={} dn=-1 dsec={}", x, mo, dsec));
            }
        }
    }
    for x in -50..=50i64 {
        out.push(format!("c16_time_misc tx={}", x * 1_000_000_007));
        out.push(format!("c16_time_misc tx={}", 86_400_000_000_000i64 + x));
    }

    // ---- 4. random stream over the whole i64 range ----------------------------------------------------
    for _ in 0..n_rand {
        let x = rand_i64(rng) as i128;
        let u = *rng.pick(UNITS);
        let v = *rng.pick(UNITS);
        out.push(format!("c16_into_unit ua={} ub={} tx={}", u, v, x_tok(x)));
    }
    for _ in 0..n_rand / 4 {
        let u = *rng.pick(UNITS);
        let x = x_tok(rand_i64(rng) as i128);
        out.push(format!("c16_as_cr ua={} tx={}", u, x));
        out.push(format!("c16_opt_i64 ua={} tx={}", u, x));
        // an instant inside chrono's range
        let s = rng.range(CR_MIN_S as i64, CR_MAX_S as i64);
        let s = if rng.chance(0.5) { s } else { rng.range(-9_223_372_036, 9_223_372_035) };
        let n = rng.range(0, 999_999_999);
        let l = format!("c16_from_cr ua={} sec={} nano={}", u, s, n);
        if valid_case(&Req::parse(&l)) {
            out.push(l);
        }
        // operators with random operands, each NaT with probability 1/4
        let nat_or = |rng: &mut Rng, v: String| if rng.chance(0.25) { "_".to_string() } else { v };
        let xv = if in_cr(u, 1) { rng.range(-4_000_000_000, 4_000_000_000) } else { 0 };
        let xt = nat_or(rng, xv.to_string());
        let yv = rng.range(-4_000_000_000, 4_000_000_000);
        let yt = nat_or(rng, yv.to_string());
        let mo = nat_or(rng, "0".to_string());
        let d = rng.range(-100_000_000_000_000, 100_000_000_000_000);
        out.push(format!("{} ua={} tx={} mo={} dn={}", if rng.chance(0.5) { "c16_dt_add" } else { "c16_dt_sub" }, u, xt, mo, d));
        out.push(format!("c16_dt_diff ua={} tx={} ty={}", u, xt, yt));
        let (m1v, m2v) = (rng.range(-1000, 1000), rng.range(-1000, 1000));
        let m1 = nat_or(rng, m1v.to_string());
        let m2 = nat_or(rng, m2v.to_string());
        let d2 = rng.range(-100_000_000_000_000, 100_000_000_000_000);
        out.push(format!("{} mo={} dn={} mo2={} dn2={}", if rng.chance(0.5) { "c16_td_add" } else { "c16_td_sub" }, m1, d, m2, d2));
        out.push(format!("c16_td_mul mo={} dn={} kf={}", m1, d, rng.range(-2000, 2000)));
        let tv = rng.range(0, 86_399_999_999_999);
        let tt = nat_or(rng, tv.to_string());
        out.push(format!("{} tx={} mo={} dn={}", if rng.chance(0.5) { "c16_time_add" } else { "c16_time_sub" }, tt, mo, d));
    }
    (out, true)
}

pub fn rule(tier: &str) -> String {
    let (small, n) = if tier == "thorough" { (3100, 100_000) } else { (1100, 10_000) };
    format!("exhaustive: into_unit and Cast<DateTime<_>> on all 4x4 unit pairs x (NaT, every timestamp in -{small}..={small}, \
10^3k*(1,2,7,86400) +-2 of both signs, i64::MAX/k and i64::MIN/k +-2 for the three unit ratios k, both ends of chrono's range in every unit +-2, \
i64::MIN..MIN+3, i64::MAX-3..MAX), each also compared with chrono (from_timestamp_* then timestamp_*); into_opt_i64 / Cast<Option<i64>> / IsNone / as_cr (and its deprecated alias to_cr) / \
year..second getters / From<chrono> round trip on 4 units x (NaT, -130..=130, the same edge values); From<chrono> on 4 units x 33 second values x 16 sub-second values; \
every operator (DateTime+-TimeDelta, DateTime-DateTime, TimeDelta neg + - *i32, Time+-TimeDelta) on grids that put NaT in every operand position; \
then {n} random conversions over the whole i64 range (uniform bit length) and {} random cases of each other request. A missing optional number (None of f64, f32, i64, i32, u64, usize, isize, u8) cast to DateTime of each unit, TimeDelta and Time must be NaT (24 flags per unit). non-trivial = output has a non-null token.", n / 4)
}
