//! C03: rolling extrema / arg-extrema / rank / min-max normalisation / z-score
use crate::cases::*;
use crate::proto::Req;
use crate::rng::Rng;
pub use imp::run;

pub const FNS: &[&str] = &["ts_vmin", "ts_vmax", "ts_vargmin", "ts_vargmax", "ts_vrank", "ts_vminmaxnorm", "ts_vzscore"];

/// the function configurations of the exhaustive stream: (function, pct, rev)
pub const CONFIGS: &[(&str, &str, &str)] = &[
    ("ts_vmin", "", ""),
    ("ts_vmax", "", ""),
    ("ts_vargmin", "", ""),
    ("ts_vargmax", "", ""),
    ("ts_vrank", "0", "0"),
    ("ts_vrank", "0", "1"),
    ("ts_vrank", "1", "0"),
    ("ts_vrank", "1", "1"),
    ("ts_vminmaxnorm", "", ""),
    ("ts_vzscore", "", ""),
];

/// exact token of a finite dyadic float: `p` or `p/q` in lowest terms (what `Proto.showRat`
/// prints), so that min / max / arg / rank are compared as strings, without tolerance
pub fn exact_tok(x: f64) -> String {
    if x.is_nan() {
        return "_".into();
    }
    if x.is_infinite() {
        return if x > 0. { "f:inf".into() } else { "f:-inf".into() };
    }
    let mut den: u64 = 1;
    let mut y = x;
    while y.fract() != 0. && den < (1u64 << 52) {
        y *= 2.;
        den *= 2;
    }
    if y.fract() != 0. || y.abs() >= 9.0e15 {
        return format!("f:{:e}", x);
    }
    let num = y as i64;
    if den == 1 { format!("{}", num) } else { format!("{}/{}", num, den) }
}

/// calls into the repository; the only module that imports the prelude
mod imp {
use std::collections::VecDeque;

use tevec::prelude::*;

use super::exact_tok;
use crate::proto::{show_list, toks, Req, Tok};
use crate::{with_out, with_xs_all, with_xs_f};

/// output element printed exactly (floats) or literally (integers)
pub trait ExTok { fn ex(&self) -> String; }
impl ExTok for f64 { fn ex(&self) -> String { exact_tok(*self) } }
impl ExTok for f32 { fn ex(&self) -> String { exact_tok(*self as f64) } }
impl ExTok for i32 { fn ex(&self) -> String { self.tok() } }
impl ExTok for Option<i32> { fn ex(&self) -> String { self.tok() } }
impl ExTok for Option<f64> {
    fn ex(&self) -> String {
        match self {
            None => "_".into(),
            Some(v) => if v.is_nan() { "SomeNaN".into() } else { exact_tok(*v) },
        }
    }
}
fn ex_toks<T: ExTok>(v: &[T]) -> String {
    show_list(v, |x| x.ex())
}

/// run `$body` with `$view` bound to the Vec itself (two-phase `*_to` fast path) or to a
/// VecDeque holding the same sequence (default iterator body of the driver)
macro_rules! on_backend {
    ($r:expr, $v:ident, $view:ident => $body:expr) => {{
        if $r.s("b") == "deque" {
            let __d: VecDeque<_> = $v.iter().cloned().collect();
            let $view = &__d;
            $body
        } else {
            let $view = &$v;
            $body
        }
    }};
}

/// all element types on Vec, f64 / Option<f64> on VecDeque (keeps monomorphisations bounded)
macro_rules! dispatch {
    ($r:expr, $view:ident, $O:ident => $body:expr) => {{
        if $r.s("b") == "deque" {
            with_xs_f!($r, "xs", v => with_out!($r, $O => on_backend!($r, v, $view => $body)))
        } else {
            with_xs_all!($r, "xs", v => with_out!($r, $O => { let $view = &v; $body }))
        }
    }};
}

pub fn run(r: &Req) -> Option<String> {
    let w = r.usize("w");
    let mp = r.opt_usize("mp");
    let f = r.f.as_str();
    // cross-cutting regimes (every backend / output container / out-buffer path): shared dispatch
    if super::FNS.contains(&f) && r.s("b") != "deque" && crate::rollrun::regime(r) != "types" {
        return Some(crate::roll1_dispatch!(r, with_xs_all, with_xs_f, yes, |view, OC, U, out| crate::roll1_valid_call!(f, view, OC, U, out, w, mp, r).unwrap()));
    }
    match r.f.as_str() {
        "ts_vmin" => Some(dispatch!(r, view, O => { let out: Vec<O> = view.ts_vmin(w, mp); ex_toks(&out) })),
        "ts_vmax" => Some(dispatch!(r, view, O => { let out: Vec<O> = view.ts_vmax(w, mp); ex_toks(&out) })),
        "ts_vargmin" => Some(dispatch!(r, view, O => { let out: Vec<O> = view.ts_vargmin(w, mp); ex_toks(&out) })),
        "ts_vargmax" => Some(dispatch!(r, view, O => { let out: Vec<O> = view.ts_vargmax(w, mp); ex_toks(&out) })),
        "ts_vrank" => {
            let (pct, rev) = (r.bool("pct"), r.bool("rev"));
            // the percentage rank divides by the count: not dyadic, compared within tolerance
            Some(dispatch!(r, view, O => {
                let out: Vec<O> = view.ts_vrank(w, mp, pct, rev);
                if pct { toks(&out) } else { ex_toks(&out) }
            }))
        },
        "ts_vminmaxnorm" => Some(dispatch!(r, view, O => { let out: Vec<O> = view.ts_vminmaxnorm(w, mp); toks(&out) })),
        "ts_vzscore" => Some(dispatch!(r, view, O => { let out: Vec<O> = view.ts_vzscore(w, mp); toks(&out) })),
        _ => None,
    }
}
}

pub fn valid_case(r: &Req) -> bool {
    let w = r.usize("w");
    let len = r.list("xs").len();
    // the property quantifies over len >= 1, windows 1..=len+2, min_periods 0..=w
    if len < 1 || w < 1 || w > len + 2 {
        return false;
    }
    if let Some(mp) = r.opt_usize("mp") {
        if mp > w {
            return false;
        }
    }
    let t = r.s("t");
    if matches!(t, "i32" | "i64") && r.list("xs").iter().any(|x| *x == "_") {
        return false;
    }
    if matches!(t, "i32" | "i64" | "oi32") && r.list("xs").iter().any(|x| x.contains('/')) {
        return false;
    }
    if r.s("b") == "deque" && !matches!(t, "f64" | "of64") {
        return false;
    }
    if r.s("o") == "i32" && matches!(r.f.as_str(), "ts_vmin" | "ts_vmax") {
        return false;
    }
    // infinities: float encodings and outputs, order-only functions
    if r.list("xs").iter().any(|x| x.ends_with("inf"))
        && (!matches!(t, "f64" | "of64" | "f32") || !matches!(r.s("o"), "f64" | "of64" | "f32")
            || matches!(r.f.as_str(), "ts_vminmaxnorm" | "ts_vzscore")) {
        return false;
    }
    true
}

const TYPES_NULL: &[&str] = &["f64", "of64", "f32", "oi32"];
const TYPES_INT: &[&str] = &["i32", "i64"];
const OUTS: &[&str] = &["f64", "of64", "f32", "i32"];

fn push_case(out: &mut Vec<String>, cfg: &(&str, &str, &str), xs: &[String], w: usize, mp: Option<usize>, t: &str, o: &str, deque: bool) {
    // `Option<T>` -> i32 has no null (the cast of a masked slot panics: cast algebra, C15), so
    // the value-returning functions are observed through the null-capable outputs only
    let o = if o == "i32" && matches!(cfg.0, "ts_vmin" | "ts_vmax") { "of64" } else { o };
    let mut l = format!("{} w={} mp={} t={} o={}", cfg.0, w, mp_tok(mp), t, o);
    if deque {
        l.push_str(" b=deque sh=iter");
    } else {
        l.push_str(" b=vec sh=to");
    }
    if cfg.0 == "ts_vrank" {
        l.push_str(&format!(" pct={} rev={}", cfg.1, cfg.2));
    }
    l.push_str(&format!(" xs={}", join(xs)));
    out.push(l);
}

/// element / output type / backend rotation for case number `k` of a null-capable series
fn rotate(k: usize, has_null: bool, integral: bool) -> (&'static str, &'static str, bool) {
    let deque = k % 5 == 4;
    let t = if deque {
        ["f64", "of64"][(k / 5) % 2]
    } else if !has_null && integral && k % 3 == 0 {
        TYPES_INT[(k / 3) % 2]
    } else if integral {
        TYPES_NULL[k % 4]
    } else {
        TYPES_NULL[k % 3]
    };
    // three of four cases use a float output so that exact (string) comparison applies
    let o = OUTS[(k / 2) % 4];
    (t, o, deque)
}

fn all_mps(w: usize) -> Vec<Option<usize>> {
    let mut mps: Vec<Option<usize>> = vec![None];
    mps.extend((0..=w).map(Some));
    mps
}

/// structured series aimed at the cached-extreme logic
fn shaped_series(rng: &mut Rng, len: usize, int: bool) -> Vec<String> {
    let kind = rng.below(8);
    let val = |k: i64| -> String {
        if int || k % 8 == 0 { format!("{}", if int { k } else { k / 8 }) } else { rand_frac(k) }
    };
    fn rand_frac(k: i64) -> String {
        let mut p = k;
        let mut q = 8;
        while p % 2 == 0 && q > 1 {
            p /= 2;
            q /= 2;
        }
        if q == 1 { format!("{}", p) } else { format!("{}/{}", p, q) }
    }
    let mut v: Vec<String> = vec![];
    let base = rng.range(-20, 20);
    let mut cur = base;
    for i in 0..len {
        let x = match kind {
            0 => base + i as i64,                            // strictly increasing: min expires at every step
            1 => base - i as i64,                            // strictly decreasing: max expires at every step
            2 => base + (i / (1 + rng.below(3))) as i64,     // non-decreasing with plateaus
            3 => base,                                       // constant: every comparison is a tie
            4 => { if rng.chance(0.3) { cur += rng.range(-1, 1); } cur }, // slow walk, long plateaus
            5 => rng.range(0, 2),                            // tiny alphabet, many ties
            6 => rng.range(0, 4),
            _ => if i % 2 == 0 { base + i as i64 } else { base - i as i64 }, // zig-zag
        };
        v.push(val(x));
    }
    // null pattern on top: none / sparse / dense / a block that covers whole windows
    match rng.below(5) {
        0 => {},
        1 => for x in v.iter_mut() { if rng.chance(0.15) { *x = "_".into(); } },
        2 => for x in v.iter_mut() { if rng.chance(0.6) { *x = "_".into(); } },
        3 => {
            let a = rng.below(len + 1);
            let b = (a + 1 + rng.below(len + 1)).min(len);
            for x in v[a..b].iter_mut() { *x = "_".into(); }
        },
        _ => {
            // a null enters exactly when an extreme is about to expire: null every k-th position
            let k = 2 + rng.below(4);
            for (i, x) in v.iter_mut().enumerate() { if i % k == k - 1 { *x = "_".into(); } }
        },
    }
    v
}

pub fn generate(tier: &str, rng: &mut Rng) -> (Vec<String>, bool) {
    let mut out = vec![];
    let thorough = tier == "thorough";
    // stream 1: exhaustive. every series over {null,0,1} (maximal tie density), every window
    // 1..=len+2, every min_periods in {omitted} ∪ 0..=w, every function configuration
    let full_len = if thorough { 7 } else { 6 };
    let alpha: &[&str] = &["_", "0", "1"];
    let mut k = 0usize;
    for len in 1..=full_len {
        for xs in all_series(alpha, len) {
            let has_null = xs.iter().any(|x| x == "_");
            for w in 1..=len + 2 {
                for mp in all_mps(w) {
                    for cfg in CONFIGS {
                        k += 1;
                        let (t, o, dq) = rotate(k, has_null, true);
                        push_case(&mut out, cfg, &xs, w, mp, t, o, dq);
                    }
                }
            }
        }
    }
    // stream 2: exhaustive over the series and windows of the next lengths, min_periods and the
    // function configuration rotated (every (series, window) pair meets every configuration
    // class over the stream, not every combination)
    let rot_len = if thorough { 10 } else { 8 };
    for len in full_len + 1..=rot_len {
        for xs in all_series(alpha, len) {
            let has_null = xs.iter().any(|x| x == "_");
            for w in 1..=len + 2 {
                k += 1;
                let mps = all_mps(w);
                let mp = mps[(k / CONFIGS.len()) % mps.len()];
                let cfg = &CONFIGS[k % CONFIGS.len()];
                let (t, o, dq) = rotate(k / 3, has_null, true);
                push_case(&mut out, cfg, &xs, w, mp, t, o, dq);
            }
        }
    }
    // stream 3: exhaustive over {null,0,1,2} for short series (three distinct values: the
    // extreme, a tie of it, and something in between), all windows, min_periods in {0, 1, w}
    let tri_len = if thorough { 6 } else { 5 };
    for len in 1..=tri_len {
        for xs in all_series(&["_", "0", "1", "2"], len) {
            let has_null = xs.iter().any(|x| x == "_");
            for w in 1..=len + 2 {
                k += 1;
                let mp = [Some(0), Some(1), Some(w), None][k % 4];
                for cfg in [&CONFIGS[(k / 4) % CONFIGS.len()], &CONFIGS[(k / 4 + 5) % CONFIGS.len()]] {
                    let (t, o, dq) = rotate(k, has_null, true);
                    push_case(&mut out, cfg, &xs, w, mp, t, o, dq);
                }
            }
        }
    }
    // stream 4: structured random
    let n_rand = if thorough { 80000 } else { 6000 };
    let max_len = if thorough { 300 } else { 80 };
    for i in 0..n_rand {
        let len = 1 + if rng.chance(0.6) { rng.below(24) } else { rng.below(max_len) };
        let w = 1 + rng.below(len + 2);
        let mp = if rng.chance(0.2) { None } else { Some(rng.below(w + 1)) };
        let cfg = &CONFIGS[rng.below(CONFIGS.len())];
        let int = rng.chance(0.5);
        let xs = if rng.chance(0.7) {
            shaped_series(rng, len, int)
        } else if rng.chance(0.5) {
            // {null, 0..4}
            (0..len).map(|_| if rng.chance(0.2) { "_".to_string() } else { format!("{}", rng.below(5)) }).collect()
        } else {
            rand_series(rng, len, 8, int, true)
        };
        let has_null = xs.iter().any(|x| x == "_");
        let integral = xs.iter().all(|x| !x.contains('/'));
        let (t, o, dq) = rotate(i * 7 + rng.below(60), has_null, integral);
        push_case(&mut out, cfg, &xs, w, mp, t, o, dq);
    }

    // 64-bit integers beyond 2^53: neighbours that f64 cannot tell apart must still be ranked /
    // located exactly (outputs are small numbers, so they stay exact in the f64 output)
    let big: i64 = 1 << 53;
    let pool: Vec<String> = [0i64, 1, 2, 3].iter().flat_map(|k| vec![(big + k).to_string(), (-big - k).to_string()]).collect();
    let pool_refs: Vec<&str> = pool.iter().map(|s| s.as_str()).collect();
    for len in 1..=4usize {
        for (si, xs) in all_series(&pool_refs, len).into_iter().enumerate() {
            if si % 3 != 0 && len >= 3 { continue; }
            for w in 1..=len + 1 {
                for (f, extra) in [("ts_vrank", " pct=0 rev=0"), ("ts_vrank", " pct=0 rev=1"), ("ts_vargmin", ""), ("ts_vargmax", "")] {
                    out.push(format!("{} w={} mp=1 t=i64 o=f64{} xs={}", f, w, extra, join(&xs)));
                }
            }
        }
    }
    // min-max normalisation of such integers: the differences `v - min`, `max - min` are small and
    // must be formed before the conversion to f64 (neighbours collapse when converted first)
    let pool_pos: Vec<String> = [0i64, 1, 2, 3, 4].iter().map(|k| (big + k).to_string()).collect();
    let pool_pos_refs: Vec<&str> = pool_pos.iter().map(|s| s.as_str()).collect();
    for len in 2..=4usize {
        for (si, xs) in all_series(&pool_pos_refs, len).into_iter().enumerate() {
            if si % 2 != 0 && len >= 4 { continue; }
            for w in 2..=len + 1 {
                out.push(format!("ts_vminmaxnorm w={} mp=1 t=i64 o=f64 xs={}", w, join(&xs)));
            }
        }
    }
    // the same requests at tiny scales (2^-50, 2^-60): a spread far below any epsilon is still a spread
    crate::cases::add_scaled(&mut out, 13, &[50, 60], &["xs"]);
    // the two infinities: extrema, arg-extrema and ranks only compare (the model reads +-inf as +-2^1100)
    for len in 1..=(if thorough { 5 } else { 4 }) {
        for xs in all_series(&["_", "-inf", "1", "inf"], len) {
            if !xs.iter().any(|x| x.ends_with("inf")) {
                continue;
            }
            for w in 1..=len + 1 {
                for mp in [Some(0), Some(1), Some(w)] {
                    for cfg in &CONFIGS[..8] {
                        k += 1;
                        let t = ["f64", "of64", "f32"][k % 3];
                        let o = ["f64", "of64"][(k / 3) % 2];
                        push_case(&mut out, cfg, &xs, w, mp, t, o, k % 5 == 4 && t != "f32");
                    }
                }
            }
        }
    }
    (out, true)
}

pub fn rule(tier: &str) -> String {
    let th = tier == "thorough";
    format!("ts_vmin/vmax/vargmin/vargmax/vrank(pct x rev)/vminmaxnorm/vzscore = 10 function configurations on Vec (two-phase *_to driver; element types f64,f32,i32,i64,Option<f64>,Option<i32>) and VecDeque (default iterator driver; f64, Option<f64>), outputs f64,Option<f64>,f32,i32 rotated. min/max/arg/rank (non-pct) are compared as exact rational strings for float outputs (no tolerance); pct rank, minmaxnorm, zscore within 1e-9 rel. Stream 1 (exhaustive): every series over {{null,0,1}} of length 1..={}, every window 1..=len+2, every min_periods in {{omitted}} U 0..=w, every configuration. Stream 2: every series over {{null,0,1}} of length {}..={} x every window, configuration and min_periods rotated. Stream 3: every series over {{null,0,1,2}} of length 1..={} x every window, min_periods in {{0,1,w,omitted}} and two configurations rotated. Stream 4 (random): lengths up to {}, strictly monotone runs, plateaus, constant, slow walks, alphabets {{0..2}},{{0..4}}, zig-zag, values k/8, null overlays (sparse, dense, block covering whole windows, periodic). Every output position is compared, so every prefix history is covered. The extrema, arg-extrema and rank configurations also run on every series over {{null,-inf,1,+inf}} up to length 4 (5) containing an infinity (float encodings and outputs; the model reads +-inf as +-2^1100). non-trivial = distinct request with >= 2 input elements and >= 1 non-null output.",
        if th { 7 } else { 6 }, if th { 8 } else { 7 }, if th { 10 } else { 8 }, if th { 6 } else { 5 }, if th { 300 } else { 80 })
}
