//! C08: NaN ≡ None. Every null-aware entry point is run on the same logical series under all
//! four null-capable encodings (f64/f32: NaN, Option<f64>/Option<i32>: None) and with all four
//! output element types; every cell must equal the one model result. Null-insertion
//! transparency of the aggregations is checked with relational requests (`C08ins`, see c11).
use crate::catalog::*;
use crate::cases::*;
use crate::proto::Req;
use crate::rng::Rng;

pub const ENC: &[&str] = &["f64", "f32", "of64", "oi32"];
pub const OUTS: &[&str] = &["f64", "f32", "of64", "oi32"];

pub fn valid_case(r: &Req) -> bool {
    if r.f.starts_with("C08") {
        return true;
    }
    if !super::c05::valid_case(r) {
        return false;
    }
    // integer-option encoding needs integral values
    !(r.s("t") == "oi32" && r.list("xs").iter().chain(r.list("ys").iter()).any(|x| x.contains('/')))
}

pub fn generate(tier: &str, rng: &mut Rng) -> (Vec<String>, bool) {
    let thorough = tier == "thorough";
    let maxlen = if thorough { 5 } else { 3 };
    let mut out = vec![];
    for f in ROLL.iter().filter(|f| f.nullable && f.family != "fdiff") {
        for len in 0..=maxlen {
            for (si, xs) in all_series(&["_", "0", "1", "3"], len).into_iter().enumerate() {
                let ys: Vec<String> = xs.iter().enumerate().map(|(i, v)| if v == "_" && (i + si) % 2 == 0 { "_".to_string() } else { format!("{}", (i * i + si + 1) % 4) }).collect();
                for w in [1usize, 2, 3, len + 1] {
                    if w > len + 2 || (w == 3 && len < 2) { continue; }
                    for mp in [None, Some(1.min(w)), Some(w)] {
                        if mp.is_none() && f.mp_none_needs_len_ge_w && len < w { continue; }
                        for t in ENC {
                            for o in OUTS {
                                let mut l = format!("{} w={} mp={} t={} o={} xs={}{}", f.name, w, mp_tok(mp), t, o, join(&xs), f.extra);
                                if f.arity == 2 { l.push_str(&format!(" ys={}", join(&ys))); }
                                out.push(l);
                            }
                        }
                    }
                }
            }
        }
        // random longer series (integral, so that every encoding can hold them)
        for _ in 0..(if thorough { 400 } else { 40 }) {
            let len = 5 + rng.below(40);
            let xs = rand_series(rng, len, 8, true, true);
            let ys = rand_series(rng, len, 8, true, true);
            let w = 1 + rng.below(len + 1);
            let mp = if rng.chance(0.3) && !f.mp_none_needs_len_ge_w { None } else { Some(rng.below(w + 1)) };
            for t in ENC {
                let o = OUTS[rng.below(4)];
                let mut l = format!("{} w={} mp={} t={} o={} xs={}{}", f.name, w, mp_tok(mp), t, o, join(&xs), f.extra);
                if f.arity == 2 { l.push_str(&format!(" ys={}", join(&ys))); }
                out.push(l);
            }
        }
    }
    out.extend(super::c08_extra(tier, rng));
    (out, true)
}

pub fn rule(tier: &str) -> String {
    format!("every null-aware catalogued entry point on the same logical series under the four encodings (f64 NaN, f32 NaN, Option<f64> None, Option<i32> None) x four output element types (f64, f32, Option<f64>, Option<i32>): all 16 cells must equal the single model result; exhaustive over {{null,0,1,3}}^len, len <= {}, windows {{1,2,3,len+1}}, min_periods {{omitted,1,w}}, plus random integral series to length 45; null-insertion transparency of aggregations via relational requests once the aggregation runner is merged. non-trivial = len >= 2 with a non-null output.", if tier == "thorough" { 5 } else { 3 })
}
