//! C08: NaN ≡ None. Every null-aware entry point is run on the same logical series under all
//! four null-capable encodings (f64/f32: NaN, Option<f64>/Option<i32>: None) and with all four
//! output element types; every cell must equal the one model result. Null-insertion
//! transparency of the aggregations is checked with relational requests (`C08ins`, see c11).
use crate::catalog::*;
use crate::cases::*;
use crate::proto::Req;
use crate::rng::Rng;

pub const ENC: &[&str] = &["f64", "f32", "of64", "oi32"];
pub const OUTS: &[&str] = &["f64", "f32", "of64", "oi32"];

/// aggregations / order statistics whose value must not change under insertion or deletion of nulls:
/// (request name, extra parameters, two-series)
pub const TRANSPARENT: &[(&str, &str, bool)] = &[
    ("agg_count_valid", " src=owned", false), ("agg_vsum", " src=owned", false), ("agg_vmean", " src=owned", false),
    ("agg_vmax", " src=owned", false), ("agg_vmin", " src=owned", false),
    ("agg_vmean_var", " src=owned mp=1", false), ("agg_vvar", " src=owned mp=2", false), ("agg_vstd", " src=owned mp=1", false),
    ("agg_vskew", " src=owned mp=1", false), ("agg_vkurt", " src=owned mp=1", false),
    ("agg_vcov", " src=owned mp=1", true), ("agg_vcorr_pearson", " src=owned mp=1", true),
    // masked aggregations: the second series is the mask (`ms=`; an inserted 7 is a true flag, so a
    // null value under a true flag, a value under a null flag and a null under a null flag all occur)
    ("agg_n_vsum_filter", " mt=obool src=owned mp=0 ms", true), ("agg_n_sum_filter", " mt=obool src=owned mp=0 ms", true),
    ("agg_vmean_filter", " mt=obool src=owned mp=1 ms", true),
    ("vquantile", " q=1/4 m=linear", false), ("vquantile", " q=3/4 m=midpoint", false), ("vmedian", "", false),
    ("vpercentile_of", " s=1 m=rank", false), ("vpercentile_of", " s=2 m=weak", false),
    // per-element ranks: the ranks of the valid elements (nulls dropped) must not change
    ("vrank", " o=f64 pct=0 rev=0", false), ("vrank", " o=f64 pct=1 rev=0", false), ("vrank", " o=of64 pct=1 rev=1", false),
];

/// interleave: mask char '0' takes the next base element (pair), 'x' inserts a null into the first
/// series (and an arbitrary value into the second), 'y' the other way round, 'b' nulls in both
pub fn insert_nulls(base: &[&str], mask: &str, first: bool) -> Vec<String> {
    let mut it = base.iter();
    let mut out = vec![];
    for c in mask.chars() {
        match c {
            '0' => { if let Some(v) = it.next() { out.push(v.to_string()); } },
            'x' => out.push(if first { "_".into() } else { "7".into() }),
            'y' => out.push(if first { "7".into() } else { "_".into() }),
            _ => out.push("_".into()),
        }
    }
    out.extend(it.map(|v| v.to_string()));
    out
}

fn inner(r: &Req, xs: &[String], ys: Option<&[String]>) -> Req {
    let mut q = Req::parse(r.s("f"));
    for k in &r.order {
        if !matches!(k.as_str(), "f" | "xs" | "ys" | "ms" | "ins") {
            q.set(k, r.kv[k].clone());
        }
    }
    q.set("xs", join(xs));
    if let Some(ys) = ys {
        q.set(if r.has("ms") { "ms" } else { "ys" }, join(ys));
    }
    q
}

/// `C08ins f=<fn> ins=<mask> ... xs=<base> [ys=<base>]` → `<result on base>;<result with nulls inserted>`
pub fn run(r: &Req) -> Option<String> {
    if r.f == "C08enc" {
        // the same request under the NaN and the None encoding of its input(s): token-for-token equal
        // (a null prints `_` under both; `Some(NaN)` prints `SomeNaN`)
        let mut outs = vec![];
        for enc in ["f64", "of64"] {
            let mut q = Req::parse(r.s("f"));
            for k in &r.order {
                if !matches!(k.as_str(), "f" | "t" | "t2") {
                    q.set(k, r.kv[k].clone());
                }
            }
            q.set("t", enc.to_string());
            if r.has("ys") && !r.s("f").starts_with("agg_") {
                q.set("t2", enc.to_string());
            }
            outs.push(super::run(&q)?);
        }
        return Some(if outs[0] == outs[1] { "EQ".to_string() } else { format!("DIFF:{}|{}", outs[0].replace(';', "|"), outs[1].replace(';', "|")) });
    }
    if r.f != "C08ins" {
        return None;
    }
    let xs: Vec<String> = r.list("xs").iter().map(|s| s.to_string()).collect();
    let two = r.has("ys") || r.has("ms");
    let ys: Vec<String> = r.list(if r.has("ms") { "ms" } else { "ys" }).iter().map(|s| s.to_string()).collect();
    let xr: Vec<&str> = xs.iter().map(|s| s.as_str()).collect();
    let yr: Vec<&str> = ys.iter().map(|s| s.as_str()).collect();
    let xi = insert_nulls(&xr, r.s("ins"), true);
    let yi = insert_nulls(&yr, r.s("ins"), false);
    let a = super::run(&inner(r, &xs, if two { Some(&ys) } else { None }))?;
    let b = super::run(&inner(r, &xi, if two { Some(&yi) } else { None }))?;
    Some(format!("{};{}", a.replace(';', "|"), b.replace(';', "|")))
}

pub fn compare(r: &Req, imp: &str, model: &str) -> Option<bool> {
    if r.f != "C08ins" {
        return None;
    }
    let (a, b) = imp.split_once(';')?;
    let m = model.split(';').next().unwrap_or("");
    let mode = crate::cmp::Mode::of("f64");
    let tols = [1e-7f64; 4];
    // position-wise results (vrank): compare the entries of the valid elements only
    let drop_nulls = |x: &str| -> String {
        if r.s("f") != "vrank" { return x.to_string(); }
        let v: Vec<&str> = crate::proto::split_list(x).into_iter().filter(|t| *t != "_").collect();
        if v.is_empty() { "[]".into() } else { v.join(",") }
    };
    let (a, b, m) = (drop_nulls(a), drop_nulls(b), drop_nulls(m));
    let (a, b, m) = (a.as_str(), b.as_str(), m.as_str());
    let tols = [1e-7f64; 64];
    let eq = |x: &str| crate::cmp::line_eq_tols(&x.replace('|', ";"), &m.replace('|', ";"), mode, Some(&tols));
    Some(eq(a) && eq(b))
}

pub fn valid_case(r: &Req) -> bool {
    if r.f.starts_with("C08") {
        return true;
    }
    if super::c13::FNS.contains(&r.f.as_str()) {
        return super::c13::valid_case(r);
    }
    if !super::c05::valid_case(r) {
        return false;
    }
    // integer-option encoding needs integral values
    !(r.s("t") == "oi32" && r.list("xs").iter().chain(r.list("ys").iter()).any(|x| x.contains('/')))
}

pub fn generate(tier: &str, rng: &mut Rng) -> (Vec<String>, bool) {
    let thorough = tier == "thorough";
    let maxlen = if thorough { 5 } else { 3 };
    let mut out = vec![];
    for f in ROLL.iter().filter(|f| f.nullable && f.family != "fdiff") {
        for len in 0..=maxlen {
            for (si, xs) in all_series(&["_", "0", "1", "3"], len).into_iter().enumerate() {
                let ys: Vec<String> = xs.iter().enumerate().map(|(i, v)| if v == "_" && (i + si) % 2 == 0 { "_".to_string() } else { format!("{}", (i * i + si + 1) % 4) }).collect();
                for w in [1usize, 2, 3, len + 1] {
                    if w > len + 2 || (w == 3 && len < 2) { continue; }
                    for mp in [None, Some(1.min(w)), Some(w)] {
                        if mp.is_none() && f.mp_none_needs_len_ge_w && len < w { continue; }
                        for t in ENC {
                            for o in OUTS {
                                let mut l = format!("{} w={} mp={} t={} o={} xs={}{}", f.name, w, mp_tok(mp), t, o, join(&xs), f.extra);
                                if f.arity == 2 { l.push_str(&format!(" ys={}", join(&ys))); }
                                out.push(l);
                            }
                        }
                    }
                }
            }
        }
        // random longer series (integral, so that every encoding can hold them)
        for _ in 0..(if thorough { 400 } else { 40 }) {
            let len = 5 + rng.below(40);
            let xs = rand_series(rng, len, 8, true, true);
            let ys = rand_series(rng, len, 8, true, true);
            let w = 1 + rng.below(len + 1);
            let mp = if rng.chance(0.3) && !f.mp_none_needs_len_ge_w { None } else { Some(rng.below(w + 1)) };
            for t in ENC {
                let o = OUTS[rng.below(4)];
                let mut l = format!("{} w={} mp={} t={} o={} xs={}{}", f.name, w, mp_tok(mp), t, o, join(&xs), f.extra);
                if f.arity == 2 { l.push_str(&format!(" ys={}", join(&ys))); }
                out.push(l);
            }
        }
    }
    // null-insertion transparency of the aggregations and order statistics
    let masks1 = ["1000", "0100", "0011", "1010", "00001", "11000", "10101", "0001000", "1110000"];
    let masks2 = ["x000", "0y00", "00b0", "xy00", "0x0y", "b0x0y", "000xyb"];
    let ins_len = if thorough { 5 } else { 4 };
    for (f, extra, two) in TRANSPARENT {
        for len in 0..=ins_len {
            for (si, xs) in all_series(&["_", "0", "1", "3"], len).into_iter().enumerate() {
                if xs.iter().filter(|v| *v != "_").count() > 4 && !thorough { continue; }
                let ys: Vec<String> = xs.iter().enumerate().map(|(i, v)| if v == "_" && (i + si) % 2 == 0 { "_".to_string() } else { format!("{}", (i * i + si + 1) % 4) }).collect();
                let t = ["f64", "of64", "oi32"][si % 3];
                for m in (if *two { &masks2[..] } else { &masks1[..] }).iter() {
                    let mk = if *two { m.to_string() } else { m.replace('1', "b") };
                    let masked = extra.ends_with(" ms");
                    let extra = extra.strip_suffix(" ms").unwrap_or(extra);
                    let mut l = format!("C08ins f={} ins={} t={}{} xs={}", f, mk, t, extra, join(&xs));
                    if masked {
                        // flags: null where `ys` is null, else true / false alternating with the position
                        let ms: Vec<String> = ys.iter().enumerate().map(|(i, v)| if v == "_" { "_".to_string() } else { format!("{}", (i + si) % 3 % 2 ^ 1) }).collect();
                        l.push_str(&format!(" ms={}", join(&ms)));
                    } else if *two {
                        l.push_str(&format!(" ys={}", join(&ys)));
                    }
                    out.push(l);
                }
            }
        }
    }
    // re-encoding under extreme magnitudes (overflow to inf, inf - inf = NaN, underflow) and the two
    // infinities: no model value exists, the two encodings of the input are compared with each other
    let big = crate::cases::pow2_str(600);
    let vals: Vec<String> = vec!["_".into(), "1".into(), "-3".into(), big.clone(), format!("-{}", big), format!("1/{}", big), "inf".into(), "-inf".into()];
    let n_enc = if thorough { 60 } else { 8 };
    let mut pick = |rng: &mut Rng, len: usize| -> Vec<String> { (0..len).map(|_| vals[rng.below(vals.len())].clone()).collect() };
    for f in ROLL.iter().filter(|f| f.nullable && f.family != "fdiff") {
        for i in 0..n_enc {
            let len = 1 + rng.below(8);
            let (xs, ys) = (pick(rng, len), pick(rng, len));
            let w = 1 + rng.below(len + 1);
            let mp = Some(rng.below(w + 1));
            let o = ["f64", "of64"][i % 2];
            let mut l = format!("C08enc f={} w={} mp={} o={} xs={}{}", f.name, w, mp_tok(mp), o, join(&xs), f.extra);
            if f.arity == 2 { l.push_str(&format!(" ys={}", join(&ys))); }
            out.push(l);
        }
    }
    for (f, extra, two) in TRANSPARENT {
        if f.starts_with("vquantile") || *f == "vmedian" || *f == "vpercentile_of" || *f == "vrank" || extra.ends_with(" ms") {
            continue;
        }
        for _ in 0..n_enc * 2 {
            let len = 1 + rng.below(6);
            let (xs, ys) = (pick(rng, len), pick(rng, len));
            let mut l = format!("C08enc f={}{} xs={}", f, extra, join(&xs));
            if *two { l.push_str(&format!(" ys={}", join(&ys))); }
            out.push(l);
        }
    }
    out.extend(super::c08_extra(tier, rng));
    (out, true)
}

pub fn rule(tier: &str) -> String {
    format!("every null-aware catalogued entry point on the same logical series under the four encodings (f64 NaN, f32 NaN, Option<f64> None, Option<i32> None) x four output element types (f64, f32, Option<f64>, Option<i32>): all 16 cells must equal the single model result; exhaustive over {{null,0,1,3}}^len, len <= {}, windows {{1,2,3,len+1}}, min_periods {{omitted,1,w}}, plus random integral series to length 45; null-insertion transparency: for 23 aggregation / order-statistic configurations (vrank x3 on the valid entries, count_valid, vsum, vmean, vmax, vmin, vmean_var, vvar, vstd, vskew, vkurt, vcov, vcorr_pearson, the masked n_vsum_filter / n_sum_filter / vmean_filter with the mask as second series, vquantile x2, vmedian, vpercentile_of x2) every base series over {{null,0,1,3}} up to length 4 with 7-9 insertion masks (leading, trailing, interleaved, blocks; pairwise patterns for two-series functions): result on the base series and on the series with nulls inserted both compared with the model; mappings: every null-aware mapping of tea-map (shift, vshift, vdiff, vpct_change, ffill, bfill, fill, the three *_mask forms with 6 predicates, vclip with lower / upper bounds incl. one-sided (null) bounds, vabs) on every series over {{null,-2,0,3}} up to length {} under each null-capable encoding it accepts (f64 NaN, Option<f64> None, Option<i32> None), each cell compared with the one model result; extreme magnitudes: every nullable rolling function and the 14 moment / extremum / covariance aggregations on random series over {{null, 1, -3, +-2^600, 2^-600, +-inf}} (sums overflow, inf - inf = NaN, products underflow) under the NaN and the None encoding of the input, the two results compared token for token with each other (no model value exists there). non-trivial = len >= 2 with a non-null output.", if tier == "thorough" { 5 } else { 3 }, if tier == "thorough" { 4 } else { 3 })
}
