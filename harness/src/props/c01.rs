//! C01: rolling moments / weighted averages / fractional differences
use crate::cases::*;
use crate::proto::Req;
use crate::rng::Rng;
pub use imp::run;

pub const VALID_FNS: &[&str] = &["ts_vsum", "ts_vmean", "ts_vewm", "ts_vwma", "ts_vstd", "ts_vvar", "ts_vskew", "ts_vkurt"];
pub const PLAIN_FNS: &[&str] = &["ts_sum", "ts_mean", "ts_ewm", "ts_wma", "ts_std", "ts_var", "ts_skew", "ts_kurt"];

/// calls into the repository; the only module that imports the prelude (its blanket traits
/// shadow `Iterator::{sum,count,any,all,min,max}`)
mod imp {
use tevec::prelude::*;

use crate::proto::{toks, Req};
use crate::{roll1_dispatch, roll1_plain_call, roll1_valid_call, with_out, with_xs_all, with_xs_num};

pub fn run(r: &Req) -> Option<String> {
    let w = r.usize("w");
    let mp = r.opt_usize("mp");
    let f = r.f.as_str();
    if crate::rollrun::ROLL1_VALID.contains(&f) {
        return Some(roll1_dispatch!(r, with_xs_all, with_xs_f, yes, |view, OC, U, out| roll1_valid_call!(f, view, OC, U, out, w, mp, r).unwrap()));
    }
    if crate::rollrun::ROLL1_PLAIN.contains(&f) {
        return Some(roll1_dispatch!(r, with_xs_num, with_xs_f64, no, |view, OC, U, out| roll1_plain_call!(f, view, OC, U, out, w, mp, r).unwrap()));
    }
    match r.f.as_str() {
        "ts_vfdiff" => {
            let d = r.f64("d");
            Some(with_xs_all!(r, "xs", v => with_out!(r, O => {
                let out: Vec<O> = v.ts_vfdiff(d, w, mp);
                toks(&out)
            })))
        },
        "ts_fdiff" => {
            let d = r.f64("d");
            Some(with_xs_num!(r, "xs", v => with_out!(r, O => {
                let out: Vec<O> = v.ts_fdiff(d, w);
                toks(&out)
            })))
        },
        _ => None,
    }
}
}

pub fn valid_case(r: &Req) -> bool {
    let w = r.usize("w");
    let len = r.list("xs").len();
    if w < 1 || w > len + 2 {
        return false;
    }
    if let Some(mp) = r.opt_usize("mp") {
        if mp > w {
            return false;
        }
    }
    let plain = PLAIN_FNS.contains(&r.f.as_str()) || r.f == "ts_fdiff";
    let int_t = matches!(r.s("t"), "i32" | "i64");
    if (plain || int_t) && r.list("xs").iter().any(|x| *x == "_") {
        return false;
    }
    if matches!(r.s("t"), "i32" | "i64" | "oi32") && r.list("xs").iter().any(|x| x.contains('/')) {
        return false;
    }
    true
}

const TYPES_NULL: &[&str] = &["f64", "f32", "of64", "oi32"];
const TYPES_PLAIN: &[&str] = &["f64", "f32", "i32", "i64"];
const OUTS: &[&str] = &["f64", "f32", "of64", "i32"];
const DS: &[&str] = &["1/2", "3/10", "1", "3/2", "19/10"];

fn push_case(out: &mut Vec<String>, f: &str, xs: &[String], w: usize, mp: Option<usize>, t: &str, o: &str, d: Option<&str>) {
    let mut l = format!("{} w={} mp={} t={} o={} xs={}", f, w, mp_tok(mp), t, o, join(xs));
    if let Some(d) = d {
        l.push_str(&format!(" d={}", d));
    }
    out.push(l);
}

pub fn generate(tier: &str, rng: &mut Rng) -> (Vec<String>, bool) {
    let mut out = vec![];
    let thorough = tier == "thorough";
    let (alpha_v, alpha_p, maxlen): (&[&str], &[&str], usize) =
        if thorough { (&["_", "-2", "0", "1", "3"], &["-2", "0", "1", "3"], 5) } else { (&["_", "0", "1", "3"], &["0", "1", "3"], 4) };
    // exhaustive-small stream
    for len in 0..=maxlen {
        let sv = all_series(alpha_v, len);
        let sp = all_series(alpha_p, len);
        for w in 1..=len + 2 {
            let mut mps: Vec<Option<usize>> = vec![None];
            mps.extend((0..=w).map(Some));
            for mp in mps {
                for (fi, f) in VALID_FNS.iter().enumerate() {
                    for (si, xs) in sv.iter().enumerate() {
                        let k = si + fi + w;
                        // the integer-Option type cannot hold every alphabet only when fractional: all integral here
                        let t = TYPES_NULL[k % TYPES_NULL.len()];
                        let o = OUTS[(k / 4) % OUTS.len()];
                        push_case(&mut out, f, xs, w, mp, t, o, None);
                    }
                }
                for (fi, f) in PLAIN_FNS.iter().enumerate() {
                    for (si, xs) in sp.iter().enumerate() {
                        let k = si + fi + w;
                        push_case(&mut out, f, xs, w, mp, TYPES_PLAIN[k % 4], OUTS[(k / 4) % 4], None);
                    }
                }
                for (si, xs) in sv.iter().enumerate() {
                    let d = DS[(si + w) % DS.len()];
                    push_case(&mut out, "ts_vfdiff", xs, w, mp, TYPES_NULL[si % 4], OUTS[(si / 4) % 4], Some(d));
                }
            }
            for (si, xs) in sp.iter().enumerate() {
                let d = DS[(si + w) % DS.len()];
                push_case(&mut out, "ts_fdiff", xs, w, None, TYPES_PLAIN[si % 4], OUTS[(si / 4) % 4], Some(d));
            }
        }
    }
    // structured random stream
    let n_rand = if thorough { 60000 } else { 3000 };
    let max_len = if thorough { 400 } else { 60 };
    for i in 0..n_rand {
        let len = if rng.chance(0.7) { rng.below(20) } else { rng.below(max_len + 1) };
        let w = 1 + rng.below(len + 2);
        let mp = if rng.chance(0.25) { None } else { Some(rng.below(w + 1)) };
        let fam = rng.below(10);
        if fam < 5 {
            let t = TYPES_NULL[rng.below(4)];
            let int = t == "oi32";
            let xs = rand_series(rng, len, 8, int, true);
            let f = VALID_FNS[rng.below(VALID_FNS.len())];
            push_case(&mut out, f, &xs, w, mp, t, OUTS[rng.below(4)], None);
        } else if fam < 8 {
            let t = TYPES_PLAIN[rng.below(4)];
            let int = t.starts_with('i');
            let xs = rand_series(rng, len, 8, int, false);
            let f = PLAIN_FNS[rng.below(PLAIN_FNS.len())];
            push_case(&mut out, f, &xs, w, mp, t, OUTS[rng.below(4)], None);
        } else if fam == 8 {
            let t = TYPES_NULL[rng.below(4)];
            let xs = rand_series(rng, len.min(40), 8, t == "oi32", true);
            let w = 1 + rng.below(xs.len() + 2);
            let mp = mp.map(|m| m.min(w));
            push_case(&mut out, "ts_vfdiff", &xs, w, mp, t, OUTS[rng.below(3)], Some(DS[i % DS.len()]));
        } else {
            let t = TYPES_PLAIN[rng.below(4)];
            let xs = rand_series(rng, len.min(40), 8, t.starts_with('i'), false);
            let w = 1 + rng.below(xs.len() + 2);
            push_case(&mut out, "ts_fdiff", &xs, w, None, t, OUTS[rng.below(3)], Some(DS[i % DS.len()]));
        }
    }
    // element types with fewer mantissa bits than the accumulators: f32 values k/4096 (15 significant
    // bits: exact in f32, their squares are not) and 32-bit integers whose squares overflow i32; the
    // closures must convert to f64 *before* multiplying (power sums stay exact in f64)
    let narrow = if thorough { 4000 } else { 400 };
    for i in 0..narrow {
        let len = 2 + rng.below(24);
        let w = 1 + rng.below(len + 1);
        let mp = if rng.chance(0.3) { None } else { Some(rng.below(w + 1)) };
        if i % 2 == 0 {
            let xs: Vec<String> = (0..len).map(|_| { let k = rng.range(-32767, 32767); if rng.chance(0.1) { "_".to_string() } else { format!("{}/4096", k) } }).collect();
            let f = VALID_FNS[rng.below(VALID_FNS.len())];
            push_case(&mut out, f, &xs, w, mp, "f32", "f64", None);
        } else {
            let xs: Vec<String> = (0..len).map(|_| format!("{}", rng.range(-60000, 60000))).collect();
            let f = ["ts_vsum", "ts_vmean", "ts_vstd", "ts_vvar", "ts_vwma", "ts_vewm", "ts_sum", "ts_mean", "ts_std", "ts_var"][rng.below(10)];
            let t = if VALID_FNS.contains(&f) { ["i32", "oi32"][rng.below(2)] } else { "i32" };
            push_case(&mut out, f, &xs, w, mp, t, "f64", None);
        }
    }
    // the same requests as small fluctuations around a large level (1024 + v/128)
    crate::cases::add_leveled(&mut out, 11, 1024, &["xs", "ys"]);
    // the same requests at scales 2^-12 .. 2^-15: variances a few orders of magnitude above EPS
    crate::cases::add_scaled(&mut out, 9, &[12, 13, 14, 15], &["xs", "ys"]);
    (out, true)
}

pub fn rule(tier: &str) -> String {
    format!("18 rolling feature entry points + ts_fdiff/ts_vfdiff on Vec input; exhaustive stream: every series over {} up to length {}, every window 1..=len+2, every min_periods in {{omitted}} U 0..=w, element/output types rotated over f64,f32,i32,i64,Option<f64>,Option<i32> x f64,f32,Option<f64>,i32; random stream: lengths up to {}, values k/8 with |k|<=64, 9 null patterns. Every output position is compared, so every prefix history is covered. non-trivial = distinct request with >= 2 input elements and >= 1 non-null output.",
        if tier == "thorough" { "{null,-2,0,1,3}" } else { "{null,0,1,3}" },
        if tier == "thorough" { 5 } else { 4 },
        if tier == "thorough" { 400 } else { 60 })
}
