//! C19: generators (`range`, `linspace`, `full`, `empty`) and the collector family, plus
//! `write_trust_iter` into uninitialised buffers (observed through a logging `UninitRefMut`)
use crate::proto::Req;
use crate::rng::Rng;
pub use imp::run;

pub const FNS: &[&str] = &["range", "linspace", "full", "empty", "collect", "try_collect", "write", "C19rng"];
pub const OUTC: &[&str] = &["vec", "deque", "nd"];
pub const ITYPES: &[&str] = &["i32", "i64", "usize"];

/// calls into the repository; the only module that imports the prelude
mod imp {
use std::cell::Cell;
use std::collections::VecDeque;
use std::panic::{catch_unwind, AssertUnwindSafe};

use tevec::prelude::*;

use crate::backends::Array1;
use crate::proto::{show_list, toks, Req, Tok};

/// an output "buffer" that records every `uset` (the instrumentation goes through the
/// library's public `UninitRefMut` trait; `write_trust_iter` is the provided method under test)
pub struct LogOut<T> {
    pub len: usize,
    pub log: Vec<(usize, T)>,
}
impl<T> GetLen for LogOut<T> {
    fn len(&self) -> usize {
        self.len
    }
}
impl<T> UninitRefMut<T> for LogOut<T> {
    unsafe fn uset(&mut self, idx: usize, v: T) {
        self.log.push((idx, v));
    }
}

fn guarded<F: FnOnce() -> String>(f: F) -> String {
    match catch_unwind(AssertUnwindSafe(f)) {
        Ok(s) => s,
        Err(_) => "P".to_string(),
    }
}

macro_rules! by_cont {
    ($oc:expr, $T:ty, $O:ident => $body:expr) => {
        match $oc {
            "deque" => { type $O = VecDeque<$T>; $body },
            "nd" => { type $O = Array1<$T>; $body },
            _ => { type $O = Vec<$T>; $body },
        }
    };
}

fn contents<T: Clone + Tok, O: Vec1View<T>>(o: &O) -> String {
    let v: Vec<T> = o.titer().collect();
    toks(&v)
}

fn range_of<T, O>(a: T, b: T, step: T) -> String
where
    T: Number + IsNone<Inner = T> + Tok,
    usize: Cast<T>,
    O: Vec1<T>,
{
    guarded(|| contents::<T, O>(&<O as Vec1Create<T>>::range(Some(a), b, Some(step))))
}

/// relational run for element types / values the exact model has no reading of (f32, decimal
/// fractions): `range(a, b, step)` judged in the element type's own arithmetic — every element is
/// `a + step * i`, lies strictly before `b` in the direction of the step, and `a + step * len` does not
fn range_check<T, O>(a: T, b: T, step: T) -> String
where
    T: Number + IsNone<Inner = T> + Tok + Copy,
    usize: Cast<T>,
    O: Vec1<T>,
{
    guarded(|| {
        let zero = T::zero();
        let o = <O as Vec1Create<T>>::range(Some(a), b, Some(step));
        let v: Vec<T> = o.titer().collect();
        let before = |x: T| if step > zero { x < b } else { x > b };
        for (i, x) in v.iter().enumerate() {
            let want: T = a + step * Cast::<T>::cast(i);
            if *x != want {
                return format!("ELEM:{}", i);
            }
            if !before(*x) {
                return format!("BEYOND:{}", i);
            }
        }
        let next: T = a + step * Cast::<T>::cast(v.len());
        if before(next) {
            return format!("MISSING:{}", v.len());
        }
        "OK".to_string()
    })
}

fn linspace_of<T, O>(a: T, b: T, n: usize) -> String
where
    T: Number + IsNone<Inner = T> + Tok,
    usize: Cast<T>,
    O: Vec1<T>,
{
    guarded(|| contents::<T, O>(&<O as Vec1Create<T>>::linspace(Some(a), b, n)))
}

/// a source whose `size_hint` is `(0, None)`
fn opaque<T>(v: Vec<T>) -> impl Iterator<Item = T> {
    let mut it = v.into_iter();
    std::iter::from_fn(move || it.next())
}

fn collect_of<O: Vec1<Option<f64>>>(m: &str, xs: Vec<Option<f64>>) -> String {
    let n = xs.len();
    guarded(|| {
        let o: O = match m {
            "plain" => opaque(xs).collect_vec1(),
            "trusted" => xs.into_iter().collect_trusted_vec1(),
            "withlen" => opaque(xs).collect_vec1_with_len(n),
            other => panic!("unknown collector {other}"),
        };
        contents::<Option<f64>, O>(&o)
    })
}

fn collect_opt_of<T: IsNone + Clone + Tok, O: Vec1<T>>(xs: Vec<Option<T>>) -> String {
    guarded(|| {
        let o: O = opaque(xs).collect_vec1_opt();
        contents::<T, O>(&o)
    })
}

fn try_collect_of<O: Vec1<f64>>(m: &str, xs: Vec<Result<f64, String>>) -> String {
    let pulled = Cell::new(0usize);
    let res = catch_unwind(AssertUnwindSafe(|| {
        let src = xs.into_iter().map(|v| {
            pulled.set(pulled.get() + 1);
            v.map_err(|k| TError::Str(k.into()))
        });
        let out: TResult<O> = match m {
            "plain" => {
                let mut src = src;
                std::iter::from_fn(move || src.next()).try_collect_vec1()
            },
            "trusted" => src.try_collect_trusted_vec1(),
            other => panic!("unknown collector {other}"),
        };
        match out {
            Ok(o) => contents::<f64, O>(&o),
            Err(e) => format!("E:{}", e),
        }
    }));
    match res {
        Ok(s) => format!("{};{}", s, pulled.get()),
        Err(_) => "P".to_string(),
    }
}

thread_local! {
    /// how the `src=trust` source of the current `write` request is prepared: (pre, over)
    static PREP: std::cell::Cell<(usize, usize)> = const { std::cell::Cell::new((0, 0)) };
}

/// the explicit-length source of a `write src=trust` request: `xs` as an opaque iterator wrapped by
/// `to_trust`. With `pre = p` the wrapped iterator starts with `p` extra items that are consumed by
/// one in-range `nth(p - 1)` before the write; with `over = q > 0` (only with `xs` empty) the jump is
/// `nth(p - 1 + q)`: past the end, the source is exhausted. Either way what is left to write is `xs`.
fn trust_src(xs: &[f64]) -> impl TrustedLen<Item = f64> {
    let (pre, over) = PREP.with(|c| c.get());
    let mut v: Vec<f64> = (0..pre).map(|i| 100. + i as f64).collect();
    v.extend_from_slice(xs);
    let n = v.len();
    let mut it = opaque(v).to_trust(n);
    if over > 0 {
        let _ = it.nth(n + over - 1);
    } else if pre > 0 {
        let _ = it.nth(pre - 1);
    }
    it
}

/// run `write_trust_iter` against the logging buffer: (status, slots, order)
fn write_log(len: usize, xs: &[f64], src: &str) -> (String, Vec<Option<f64>>, bool, String) {
    let mut out = LogOut::<f64> { len, log: vec![] };
    let res = catch_unwind(AssertUnwindSafe(|| {
        if src == "trust" {
            trust_src(xs).write(&mut out)
        } else {
            out.write_trust_iter(xs.to_vec().into_iter())
        }
    }));
    let status = match res {
        Ok(Ok(())) => "ok",
        Ok(Err(_)) => "err",
        Err(_) => "P",
    };
    let mut slots: Vec<Option<f64>> = vec![None; len];
    let mut dup = false;
    let mut oob = false;
    for (i, v) in &out.log {
        if *i >= len {
            oob = true;
        } else {
            if slots[*i].is_some() {
                dup = true;
            }
            slots[*i] = Some(*v);
        }
    }
    let order = if out.log.is_empty() { "e".to_string() } else { out.log.iter().map(|w| w.0.to_string()).collect::<Vec<_>>().join(".") };
    let order = if oob { format!("OOB.{}", order) } else { order };
    (status.to_string(), slots, dup, order)
}

fn slots_tok(slots: &[Option<f64>], dup: bool) -> String {
    if dup {
        return "D".into();
    }
    show_list(slots, |s| match s { None => "U".into(), Some(v) => v.tok() })
}

fn write_real<O: Vec1<f64>>(len: usize, xs: &[f64], src: &str) -> String {
    // the logging run tells whether reading the real buffer afterwards is defined
    let (_, slots, _, order) = write_log(len, xs, src);
    let complete = !slots.contains(&None) && !order.starts_with("OOB");
    if order.starts_with("OOB") {
        return "OOB;?".into();
    }
    guarded(|| {
        let mut buf = O::uninit(len);
        let res = {
            let mut r = O::uninit_ref_mut(&mut buf);
            if src == "trust" {
                trust_src(xs).write(&mut r)
            } else {
                r.write_trust_iter(xs.to_vec().into_iter())
            }
        };
        match res {
            Ok(()) => {
                if complete {
                    let o: O = unsafe { buf.assume_init() };
                    format!("ok;{}", contents::<f64, O>(&o))
                } else {
                    "ok;UNINIT".to_string()
                }
            },
            Err(_) => "err;?".to_string(),
        }
    })
}

pub fn run(r: &Req) -> Option<String> {
    if !super::FNS.contains(&r.f.as_str()) {
        return None;
    }
    let oc = r.s("oc");
    let t = if r.s("t").is_empty() { "f64" } else { r.s("t") };
    Some(match r.f.as_str() {
        "C19rng" => match t {
            "f32" => by_cont!(oc, f32, O => range_check::<f32, O>(if r.has("a") { r.f64("a") as f32 } else { 0. }, r.f64("b") as f32, r.f64("step") as f32)),
            _ => by_cont!(oc, f64, O => range_check::<f64, O>(if r.has("a") { r.f64("a") } else { 0. }, r.f64("b"), r.f64("step"))),
        },
        "range" => match t {
            "f32" => by_cont!(oc, f32, O => range_of::<f32, O>(r.f64("a") as f32, r.f64("b") as f32, r.f64("step") as f32)),
            "i32" => by_cont!(oc, i32, O => range_of::<i32, O>(r.i32("a"), r.i32("b"), r.i32("step"))),
            "i64" => by_cont!(oc, i64, O => range_of::<i64, O>(r.i64("a"), r.i64("b"), r.i64("step"))),
            "usize" => by_cont!(oc, usize, O => range_of::<usize, O>(r.usize("a"), r.usize("b"), r.usize("step"))),
            _ => by_cont!(oc, f64, O => range_of::<f64, O>(r.f64("a"), r.f64("b"), r.f64("step"))),
        },
        "linspace" => {
            let n = r.usize("n");
            match t {
                "i32" => by_cont!(oc, i32, O => linspace_of::<i32, O>(r.i32("a"), r.i32("b"), n)),
                "i64" => by_cont!(oc, i64, O => linspace_of::<i64, O>(r.i64("a"), r.i64("b"), n)),
                "usize" => by_cont!(oc, usize, O => linspace_of::<usize, O>(r.usize("a"), r.usize("b"), n)),
                _ => by_cont!(oc, f64, O => linspace_of::<f64, O>(r.f64("a"), r.f64("b"), n)),
            }
        },
        "full" => {
            let len = r.usize("len");
            match t {
                "i64" => by_cont!(oc, i64, O => guarded(|| contents::<i64, O>(&<O as Vec1<i64>>::full(len, r.i64("v"))))),
                _ => by_cont!(oc, f64, O => guarded(|| contents::<f64, O>(&<O as Vec1<f64>>::full(len, r.f64("v"))))),
            }
        },
        "empty" => by_cont!(oc, f64, O => guarded(|| contents::<f64, O>(&<O as Vec1<f64>>::empty()))),
        "collect" => {
            let xs = r.series("xs");
            match (r.s("m"), t) {
                ("opt", "oi64") => {
                    let v: Vec<Option<Option<i64>>> = xs.iter().map(|x| x.map(|y| Some(y as i64))).collect();
                    by_cont!(oc, Option<i64>, O => collect_opt_of::<Option<i64>, O>(v))
                },
                // element type without a null encoding: defined for sources that hold no None
                ("opt", "i64") => {
                    let v: Vec<Option<i64>> = xs.iter().map(|x| x.map(|y| y as i64)).collect();
                    by_cont!(oc, i64, O => collect_opt_of::<i64, O>(v))
                },
                ("opt", _) => by_cont!(oc, f64, O => collect_opt_of::<f64, O>(xs)),
                (m, _) => by_cont!(oc, Option<f64>, O => collect_of::<O>(m, xs)),
            }
        },
        "try_collect" => {
            let xs: Vec<Result<f64, String>> = r.list("xs").into_iter().map(|t| match t.strip_prefix('E') {
                Some(k) => Err(k.to_string()),
                None => Ok(crate::proto::rat_to_f64(t).unwrap_or(0.)),
            }).collect();
            by_cont!(oc, f64, O => try_collect_of::<O>(r.s("m"), xs))
        },
        "write" => {
            let xs: Vec<f64> = r.series("xs").into_iter().map(|x| x.unwrap_or(0.)).collect();
            let len = r.usize("len");
            let src = r.s("src");
            PREP.with(|c| c.set((if r.has("pre") { r.usize("pre") } else { 0 }, if r.has("over") { r.usize("over") } else { 0 })));
            match oc {
                "log" => {
                    let (st, slots, dup, order) = write_log(len, &xs, src);
                    format!("{};{};{}", st, slots_tok(&slots, dup), order)
                },
                _ => by_cont!(oc, f64, O => write_real::<O>(len, &xs, src)),
            }
        },
        _ => return None,
    })
}
}

fn q4(k: i64) -> String {
    if k % 4 == 0 { format!("{}", k / 4) } else if k % 2 == 0 { format!("{}/2", k / 2) } else { format!("{}/4", k) }
}

pub fn valid_case(r: &Req) -> bool {
    let t = r.s("t");
    let int_ok = |k: &str| r.s(k).parse::<i64>().is_ok();
    match r.f.as_str() {
        "C19rng" => r.f64("step") != 0. && r.f64("step").is_finite() && r.f64("b").is_finite(),
        "range" => {
            if t == "f64" || t == "f32" {
                r.f64("step") != 0. && r.f64("step").is_finite() && r.f64("a").is_finite() && r.f64("b").is_finite()
            } else {
                int_ok("a") && int_ok("b") && int_ok("step") && r.i64("step") != 0
                    && (t != "usize" || (r.i64("a") >= 0 && r.i64("b") >= 0 && r.i64("step") > 0))
            }
        },
        "linspace" => {
            if t == "f64" {
                r.f64("a").is_finite() && r.f64("b").is_finite()
            } else {
                // an unsigned linspace cannot descend (`b - a` is not representable)
                int_ok("a") && int_ok("b") && (t != "usize" || (r.i64("a") >= 0 && r.i64("a") <= r.i64("b")))
            }
        },
        "collect" => r.s("m") == "opt" || !r.s("xs").is_empty(),
        // a jump past the end leaves nothing: only with an empty remainder (the shrinker may not add one)
        "write" => !(r.has("over") && r.usize("over") > 0) || (r.series("xs").is_empty() && r.s("src") == "trust"),
        _ => true,
    }
}

fn items(n: usize, base: i64) -> String {
    if n == 0 { "[]".into() } else { (0..n as i64).map(|i| q4(base + 3 * i)).collect::<Vec<_>>().join(",") }
}

pub fn generate(tier: &str, rng: &mut Rng) -> (Vec<String>, bool) {
    let thorough = tier == "thorough";
    let mut out = vec![];
    // ---- exhaustive-small ----
    let r: i64 = if thorough { 8 } else { 6 };
    let nmax = if thorough { 10 } else { 8 };
    for oc in OUTC {
        // range: integers a, b, step in -r..=r, floats k/4
        for t in ["i32", "i64", "usize", "f64", "f32"] {
            for a in -r..=r {
                for b in -r..=r {
                    for s in -r..=r {
                        if s == 0 || (t == "usize" && (a < 0 || b < 0 || s < 0)) {
                            continue;
                        }
                        if t == "f64" || t == "f32" {
                            out.push(format!("range t={} oc={} a={} b={} step={}", t, oc, q4(a), q4(b), q4(s)));
                        } else {
                            out.push(format!("range t={} oc={} a={} b={} step={}", t, oc, a, b, s));
                        }
                    }
                }
            }
        }
        // range from 0 with decimal (not representable) end / step, f32 and f64, both directions:
        // judged in the element type's own arithmetic (`C19rng`)
        for t in ["f32", "f64"] {
            for sn in [1i64, -1] {
                for sk in [1i64, 2, 3, 5, 7, 15, 25, 110] {
                    for m in 0..=(if thorough { 40 } else { 24 }) {
                        // step = sk/100 (or /10 for the small ones), end = m * step and m * step +- a little
                        let (step, end) = (format!("{}/100", sn * sk * 5), format!("{}/100", sn * sk * 5 * m));
                        out.push(format!("C19rng t={} oc={} b={} step={}", t, oc, end, step));
                        out.push(format!("C19rng t={} oc={} b={} step={}", t, oc, format!("{}/1000", sn * (sk * 50 * m + 1)), step));
                        out.push(format!("C19rng t={} oc={} b={} step={}", t, oc, format!("{}/1000", sn * (sk * 50 * m - 1)), step));
                        // the same spans from a decimal start
                        for a10 in [1i64, 3, 8, -7] {
                            if (m + sk) % 3 == 0 {
                                out.push(format!("C19rng t={} oc={} a={}/10 b={}/100 step={}", t, oc, a10, a10 * 10 + sn * sk * 5 * m, step));
                            }
                        }
                    }
                }
            }
        }
        // linspace: n in 0..=nmax
        for t in ["i32", "i64", "usize", "f64"] {
            for a in -r..=r {
                for b in -r..=r {
                    if t == "usize" && (a < 0 || b < a) {
                        continue;
                    }
                    for n in 0..=nmax {
                        if t == "f64" {
                            out.push(format!("linspace t=f64 oc={} a={} b={} n={}", oc, q4(a), q4(b), n));
                        } else {
                            out.push(format!("linspace t={} oc={} a={} b={} n={}", t, oc, a, b, n));
                        }
                    }
                }
            }
        }
        // full / empty
        for len in 0..=nmax {
            for v in [-5i64, 0, 3, 7] {
                out.push(format!("full t=f64 oc={} len={} v={}", oc, len, q4(v)));
                out.push(format!("full t=i64 oc={} len={} v={}", oc, len, v));
            }
        }
        out.push(format!("empty oc={}", oc));
        // collectors: every length 0..=6; optional sources with every null pattern
        for n in 0..=6usize {
            for m in ["plain", "trusted", "withlen"] {
                out.push(format!("collect m={} oc={} xs={}", m, oc, items(n, -4)));
                if n > 0 {
                    // a null in the middle must stay in place
                    let mut v: Vec<String> = (0..n as i64).map(|i| q4(5 - 2 * i)).collect();
                    v[n / 2] = "_".into();
                    out.push(format!("collect m={} oc={} xs={}", m, oc, v.join(",")));
                }
            }
            for mask in 0..(1u32 << n) {
                let v: Vec<String> = (0..n).map(|i| if mask >> i & 1 == 1 { "_".to_string() } else { q4(4 * (i as i64) - 8) }).collect();
                let xs = if v.is_empty() { "[]".to_string() } else { v.join(",") };
                out.push(format!("collect m=opt t=f64 oc={} xs={}", oc, xs));
                out.push(format!("collect m=opt t=oi64 oc={} xs={}", oc, xs));
                if mask == 0 {
                    // all-Some source into an integer container (no null needed, none may be asked for)
                    let vi: Vec<String> = (0..n).map(|i| format!("{}", 4 * (i as i64) - 8)).collect();
                    out.push(format!("collect m=opt t=i64 oc={} xs={}", oc, if vi.is_empty() { "[]".to_string() } else { vi.join(",") }));
                }
            }
            // fallible sources: an error at every subset of positions (so also at every position)
            for mask in 0..(1u32 << n) {
                let v: Vec<String> = (0..n).map(|i| if mask >> i & 1 == 1 { format!("E{}", i + 1) } else { q4(3 * (i as i64) - 5) }).collect();
                let xs = if v.is_empty() { "[]".to_string() } else { v.join(",") };
                for m in ["plain", "trusted"] {
                    out.push(format!("try_collect m={} oc={} xs={}", m, oc, xs));
                }
            }
        }
    }
    // write_trust_iter: buffers 0..=6 against iterators of every length 0..=8
    for oc in ["log", "vec", "deque", "nd"] {
        for src in ["vec", "trust"] {
            for len in 0..=6usize {
                for k in 0..=8usize {
                    out.push(format!("write oc={} src={} len={} xs={}", oc, src, len, items(k, -3)));
                }
            }
        }
    }
    // … and against explicit-length sources that were partly consumed by a jump (`nth`) first: in
    // range (what is left is written as usual) and past the end (nothing is left)
    for oc in ["log", "vec", "deque", "nd"] {
        for len in 0..=4usize {
            for pre in 1..=3usize {
                for k in 0..=5usize {
                    out.push(format!("write oc={} src=trust len={} pre={} xs={}", oc, len, pre, items(k, -3)));
                }
                for over in 1..=2usize {
                    out.push(format!("write oc={} src=trust len={} pre={} over={} xs={}", oc, len, pre, over, items(0, -3)));
                }
            }
        }
    }
    // ---- structured random ----
    let n_rand = if thorough { 60000 } else { 6000 };
    for _ in 0..n_rand {
        let oc = *rng.pick(OUTC);
        match rng.below(6) {
            0 | 1 => {
                let t = *rng.pick(&["i32", "i64", "usize", "f64"]);
                let (mut a, mut b, mut s) = (rng.range(-400, 400), rng.range(-400, 400), rng.range(-40, 40));
                if rng.chance(0.3) {
                    // spans that are an exact multiple of the step (the boundary case)
                    let sz = if s == 0 { 1 } else { s };
                    b = a + sz * rng.range(0, 12);
                    s = sz;
                }
                if s == 0 {
                    s = 1;
                }
                if t == "usize" {
                    a = a.abs();
                    b = b.abs();
                    s = s.abs();
                }
                if t == "f64" {
                    out.push(format!("range t=f64 oc={} a={} b={} step={}", oc, q4(a), q4(b), q4(s)));
                } else {
                    out.push(format!("range t={} oc={} a={} b={} step={}", t, oc, a, b, s));
                }
            },
            2 => {
                let t = *rng.pick(&["i32", "i64", "usize", "f64"]);
                let (mut a, mut b) = (rng.range(-400, 400), rng.range(-400, 400));
                let n = rng.below(60);
                if t == "usize" {
                    a = a.abs();
                    b = b.abs();
                    if b < a {
                        std::mem::swap(&mut a, &mut b);
                    }
                }
                if t == "f64" {
                    out.push(format!("linspace t=f64 oc={} a={} b={} n={}", oc, q4(a), q4(b), n));
                } else {
                    out.push(format!("linspace t={} oc={} a={} b={} n={}", t, oc, a, b, n));
                }
            },
            3 => {
                let n = rng.below(40);
                let m = *rng.pick(&["plain", "trusted", "withlen", "opt"]);
                let t = *rng.pick(&["f64", "oi64"]);
                let scale = if m == "opt" && t == "oi64" { 4 } else { 1 };
                let v: Vec<String> = (0..n).map(|_| if rng.chance(0.2) { "_".to_string() } else { q4(scale * rng.range(-200, 200)) }).collect();
                let xs = if v.is_empty() { "[]".to_string() } else { v.join(",") };
                if m == "opt" {
                    out.push(format!("collect m=opt t={} oc={} xs={}", t, oc, xs));
                } else if n > 0 {
                    out.push(format!("collect m={} oc={} xs={}", m, oc, xs));
                }
            },
            4 => {
                let n = rng.below(40);
                let p = *rng.pick(&[0.0, 0.05, 0.3]);
                let v: Vec<String> = (0..n).map(|i| if rng.chance(p) { format!("E{}", i + 1) } else { q4(rng.range(-200, 200)) }).collect();
                let xs = if v.is_empty() { "[]".to_string() } else { v.join(",") };
                out.push(format!("try_collect m={} oc={} xs={}", rng.pick(&["plain", "trusted"]), oc, xs));
            },
            _ => {
                let len = rng.below(30);
                let k = match rng.below(4) { 0 => 0, 1 => 1, 2 => len, _ => rng.below(30) };
                let v: Vec<String> = (0..k).map(|_| q4(rng.range(-200, 200))).collect();
                let xs = if v.is_empty() { "[]".to_string() } else { v.join(",") };
                out.push(format!("write oc={} src={} len={} xs={}", rng.pick(&["log", "vec", "deque", "nd"]), rng.pick(&["vec", "trust"]), len, xs));
            },
        }
    }
    (out, true)
}

pub fn rule(tier: &str) -> String {
    let (r, n) = if tier == "thorough" { (8, 10) } else { (6, 8) };
    format!("exhaustive: range(a, b, step) for a, b, step in -{r}..={r} (step != 0) as i32 / i64 / usize (non-negative part) and as f64 with values k/4, and linspace(a, b, n) for the same a, b and n in 0..={n}, each through Vec1Create into Vec / VecDeque / Array1; full(len 0..={n}) and empty for the three containers; collect_vec1 / collect_trusted_vec1 / collect_vec1_with_len on sources of length 0..=6 (with and without a null), collect_vec1_opt on every null pattern of length 0..=6 (f64 -> NaN and Option<i64> -> None; all-Some sources also into plain i64), try_collect_vec1 / try_collect_trusted_vec1 on every Ok/Err pattern of length 0..=6 (so an error at every position, several errors, none) observing the returned value or error and the number of items pulled; write_trust_iter on buffers of length 0..=6 (a logging UninitRefMut and the real uninitialised Vec / VecDeque / Array1 buffers) against iterators of every length 0..=8 (vec::IntoIter and TrustIter). Then a seeded random stream with |a|,|b| <= 400 (or /4), |step| <= 40, n < 60, sources up to 40 items. Trusted collectors are only ever given iterators whose hint is their true length. non-trivial = a non-empty result.")
}
