//! C11: aggregations (AggValidBasic / AggBasic of tea-core/src/agg.rs, AggValidExt of tea-agg)
//!
//! request: `agg_<method> t=<elem type> src=<own|titer|opt|lazy> [mp=k] [v=x] [ps=seed] xs=.. [ys=..] [ms=..]`
//! `ps` (only for the symmetric aggregations): the implementation side shuffles the input with
//! SplitMix64(ps) before calling the real code; the Lean side ignores `ps`, so agreement IS
//! permutation invariance of the real code.
use crate::cases::*;
use crate::proto::Req;
use crate::rng::Rng;
pub use imp::run;

/// null-aware, one series, no min_periods
pub const V_PLAIN: &[&str] = &["count_valid", "count", "count_none", "vfirst", "vlast", "vsum", "vmean", "vmax", "vmin", "vargmax", "vargmin"];
/// null-aware, one series, min_periods
pub const V_MP: &[&str] = &["vmean_var", "vvar", "vstd", "vskew", "vkurt"];
pub const V_BOOL: &[&str] = &["vany", "vall"];
pub const V_TWO: &[&str] = &["vcov", "vcorr_pearson"];
pub const V_MASK: &[&str] = &["n_vsum_filter", "n_sum_filter", "vmean_filter"];
/// plain family (AggBasic): null-free input only (DESIGN 5.6)
pub const P_NUM: &[&str] = &["first", "last", "n_sum", "sum", "mean", "max", "min", "argmax", "argmin"];
pub const P_BOOL: &[&str] = &["any", "all"];
/// not invariant under permutation of the input
pub const ORDERED: &[&str] = &["vfirst", "vlast", "vargmax", "vargmin", "first", "last", "argmax", "argmin"];

pub fn method(r: &Req) -> Option<&str> {
    r.f.strip_prefix("agg_")
}

/// deterministic Fisher–Yates permutation of `0..n` from the seed `ps` (0 = identity)
pub fn permutation(n: usize, ps: u64) -> Vec<usize> {
    let mut p: Vec<usize> = (0..n).collect();
    if ps != 0 {
        let mut rng = Rng::new(ps);
        for i in (1..n).rev() {
            let j = rng.below(i + 1);
            p.swap(i, j);
        }
    }
    p
}

pub fn permuted<T: Clone>(v: &[T], p: &[usize]) -> Vec<T> {
    p.iter().filter(|i| **i < v.len()).map(|i| v[*i].clone()).collect()
}

/// calls into the repository; the only module that imports the prelude (its blanket traits
/// shadow `Iterator::{sum,count,any,all,min,max,last}` — here they are exactly what is under
/// test and are always called through the trait path)
mod imp {
use tevec::prelude::*;

use super::{method, permutation, permuted};
use crate::proto::{Req, Tok};

fn mk<T: IsNone>(x: Option<f64>) -> T
where
    f64: Cast<T::Inner>,
{
    match x {
        Some(x) => T::from_inner(x.cast()),
        None => T::none(),
    }
}

/// one null-aware series
#[allow(deprecated)]
fn valid1<T, I>(m: &str, r: &Req, it: I) -> Option<String>
where
    I: IntoIterator<Item = T>,
    T: IsNone + Tok,
    T::Inner: Number + Tok,
    f64: Cast<T::Inner>,
{
    let mp = r.usize("mp");
    Some(match m {
        "count_valid" => AggValidBasic::count_valid(it).tok(),
        "count" => AggValidBasic::count(it).tok(),
        "count_none" => AggValidBasic::count_none(it).tok(),
        "vcount_value" => AggValidBasic::vcount_value(it, mk::<T>(r.opt_f64("v").filter(|_| r.s("v") != "_"))).tok(),
        "vfirst" => AggValidBasic::vfirst(it).tok(),
        "vsum" => AggValidBasic::vsum(it).tok(),
        "vmean" => AggValidBasic::vmean(it).tok(),
        "vmean_var" => {
            let (mean, var) = AggValidBasic::vmean_var(it, mp);
            format!("{},{}", mean.tok(), var.tok())
        },
        "vvar" => AggValidBasic::vvar(it, mp).tok(),
        "vstd" => AggValidBasic::vstd(it, mp).tok(),
        "vskew" => AggValidBasic::vskew(it, mp).tok(),
        "vkurt" => AggValidExt::vkurt(it, mp).tok(),
        "vmax" => AggValidBasic::vmax(it).tok(),
        "vmin" => AggValidBasic::vmin(it).tok(),
        "vargmax" => AggValidBasic::vargmax(it).tok(),
        "vargmin" => AggValidBasic::vargmin(it).tok(),
        _ => return None,
    })
}

fn valid_last<T, I>(it: I) -> String
where
    I: IntoIterator<Item = T>,
    I::IntoIter: DoubleEndedIterator,
    T: IsNone + Tok,
{
    AggValidBasic::vlast(it).tok()
}

fn valid2<T, I, J>(m: &str, r: &Req, a: I, b: J) -> Option<String>
where
    I: IntoIterator<Item = T>,
    J: IntoIterator<Item = T>,
    T: IsNone,
    T::Inner: Number,
    T::Cast<f64>: Tok,
{
    let mp = r.usize("mp");
    Some(match m {
        "vcov" => AggValidBasic::vcov(a, b, mp).tok(),
        "vcorr_pearson" => AggValidBasic::vcorr_pearson::<f64, _, _>(a, b, mp).tok(),
        _ => return None,
    })
}

fn masked<T, I, U, J>(m: &str, r: &Req, it: I, mask: J) -> Option<String>
where
    I: IntoIterator<Item = T>,
    J: IntoIterator<Item = U>,
    T: IsNone,
    T::Inner: Number + Tok,
    U: IsNone,
    U::Inner: Cast<bool>,
{
    let mp = r.usize("mp");
    Some(match m {
        "n_vsum_filter" => {
            let (n, s) = AggValidExt::n_vsum_filter(it, mask);
            format!("{};{}", n.tok(), s.tok())
        },
        "n_sum_filter" => AggValidExt::n_sum_filter(it, mask).tok(),
        "vmean_filter" => AggValidExt::vmean_filter(it, mask, mp).tok(),
        _ => return None,
    })
}

fn vbool<T, I>(m: &str, it: I) -> Option<String>
where
    I: IntoIterator<Item = T>,
    T: IsNone,
    T::Inner: BoolType,
{
    Some(match m {
        "vany" => AggValidBasic::vany(it).tok(),
        "vall" => AggValidBasic::vall(it).tok(),
        _ => return None,
    })
}

fn pbool<I>(m: &str, it: I) -> Option<String>
where
    I: IntoIterator<Item = bool>,
{
    Some(match m {
        "any" => AggBasic::any(it).tok(),
        "all" => AggBasic::all(it).tok(),
        _ => return None,
    })
}

/// plain family on a null-free numeric series
fn plain<T, I>(m: &str, r: &Req, it: I) -> Option<String>
where
    I: IntoIterator<Item = T>,
    I::IntoIter: DoubleEndedIterator,
    T: Number + Tok,
    f64: Cast<T>,
{
    Some(match m {
        "count_value" => AggBasic::count_value(it, r.f64("v").cast()).tok(),
        "first" => AggBasic::first(it).tok(),
        "last" => AggBasic::last(it).tok(),
        "n_sum" => {
            let (n, s) = AggBasic::n_sum(it);
            format!("{};{}", n.tok(), s.tok())
        },
        "sum" => AggBasic::sum(it).tok(),
        "mean" => AggBasic::mean(it).tok(),
        "max" => AggBasic::max(it).tok(),
        "min" => AggBasic::min(it).tok(),
        "argmax" => AggBasic::argmax(it).tok(),
        "argmin" => AggBasic::argmin(it).tok(),
        _ => return None,
    })
}

fn bools(v: &[Option<f64>]) -> Vec<Option<bool>> {
    v.iter().map(|x| x.map(|y| y != 0.)).collect()
}

/// dispatch over the iterator source: owned Vec, borrowed `titer()`, option view `opt()`
macro_rules! with_src {
    ($r:expr, $v:ident, $it:ident => $body:expr) => {
        match $r.s("src") {
            "own" => { let $it = $v.clone(); $body },
            "opt" => { let __o = $v.opt(); let $it = &__o; $body },
            // an iterator whose size hint is not exact (lower bound 0): the aggregations may not rely on it
            "lazy" => { let $it = $v.clone().into_iter().filter(|_| true); $body },
            _ => { let $it = $v.titer(); $body },
        }
    };
}
/// sources whose iterator is double-ended (`&OptIter` boxes a `dyn TrustedLen`): the option
/// view is consumed through its own `titer()`
macro_rules! with_src_de {
    ($r:expr, $v:ident, $it:ident => $body:expr) => {
        match $r.s("src") {
            "own" => { let $it = $v.clone(); $body },
            "opt" => { let __o = $v.opt(); let $it = __o.titer(); $body },
            _ => { let $it = $v.titer(); $body },
        }
    };
}
macro_rules! with_t {
    ($r:expr, $s:expr, $v:ident => $body:expr) => {
        match $crate::types::elem_type($r) {
            "f64" => { let $v = $crate::types::as_f64($s); $body },
            "f32" => { let $v = $crate::types::as_f32($s); $body },
            "i32" => { let $v = $crate::types::as_i32($s); $body },
            "of64" => { let $v = $crate::types::as_of64($s); $body },
            "oi32" => { let $v = $crate::types::as_oi32($s); $body },
            t => panic!("unknown element type {t}"),
        }
    };
}

/// second series with the same element type as the first (selected by the type of `$a`)
macro_rules! with_t_same {
    ($r:expr, $s:expr, $a:ident, $b:ident => $body:expr) => {{
        let $b = SameAs::conv(&$a, $s);
        $body
    }};
}
trait SameAs {
    fn conv(&self, s: &[Option<f64>]) -> Self;
}
impl SameAs for Vec<f64> { fn conv(&self, s: &[Option<f64>]) -> Self { crate::types::as_f64(s) } }
impl SameAs for Vec<f32> { fn conv(&self, s: &[Option<f64>]) -> Self { crate::types::as_f32(s) } }
impl SameAs for Vec<i32> { fn conv(&self, s: &[Option<f64>]) -> Self { crate::types::as_i32(s) } }
impl SameAs for Vec<Option<f64>> { fn conv(&self, s: &[Option<f64>]) -> Self { crate::types::as_of64(s) } }
impl SameAs for Vec<Option<i32>> { fn conv(&self, s: &[Option<f64>]) -> Self { crate::types::as_oi32(s) } }

pub fn run(r: &Req) -> Option<String> {
    let m = method(r)?;
    let n = r.list("xs").len();
    let p = permutation(n, r.i64("ps") as u64);
    let xs = permuted(&r.series("xs"), &p);
    if super::V_BOOL.contains(&m) {
        let b = bools(&xs);
        return match r.s("t") {
            "obool" => with_src!(r, b, it => vbool(m, it)),
            _ => {
                let b: Vec<bool> = b.iter().map(|x| x.expect("null in bool series")).collect();
                with_src!(r, b, it => vbool(m, it))
            },
        };
    }
    if super::P_BOOL.contains(&m) {
        let b: Vec<bool> = bools(&xs).iter().map(|x| x.expect("null in bool series")).collect();
        return match r.s("src") {
            "own" => pbool(m, b.clone()),
            _ => pbool(m, b.titer()),
        };
    }
    if super::V_TWO.contains(&m) {
        let ys = permuted(&r.series("ys"), &p);
        return with_t!(r, &xs, a => with_t_same!(r, &ys, a, b => {
            match r.s("src") {
                "own" => valid2(m, r, a.clone(), b.clone()),
                "opt" => { let (oa, ob) = (a.opt(), b.opt()); valid2(m, r, &oa, &ob) },
                "lazy" => valid2(m, r, a.clone().into_iter().filter(|_| true), b.clone().into_iter().filter(|_| true)),
                _ => valid2(m, r, a.titer(), b.titer()),
            }
        }));
    }
    if super::V_MASK.contains(&m) {
        let ms = bools(&permuted(&r.series("ms"), &p));
        return with_t!(r, &xs, a => {
            if r.s("mt") == "obool" {
                with_src!(r, a, it => masked(m, r, it, ms.clone()))
            } else {
                let mb: Vec<bool> = ms.iter().map(|x| x.expect("null in bool mask")).collect();
                with_src!(r, a, it => masked(m, r, it, mb.titer()))
            }
        });
    }
    if super::P_NUM.contains(&m) || m == "count_value" {
        return match crate::types::elem_type(r) {
            "f64" => { let v = crate::types::as_f64(&xs); if r.s("src") == "own" { plain(m, r, v.clone()) } else { plain(m, r, v.titer()) } },
            "f32" => { let v = crate::types::as_f32(&xs); if r.s("src") == "own" { plain(m, r, v.clone()) } else { plain(m, r, v.titer()) } },
            "i32" => { let v = crate::types::as_i32(&xs); if r.s("src") == "own" { plain(m, r, v.clone()) } else { plain(m, r, v.titer()) } },
            t => panic!("unsupported element type {t}"),
        };
    }
    if m == "vlast" {
        return Some(with_t!(r, &xs, a => with_src_de!(r, a, it => valid_last(it))));
    }
    with_t!(r, &xs, a => with_src!(r, a, it => valid1(m, r, it)))
}

}

fn is_int_t(t: &str) -> bool {
    matches!(t, "i32" | "oi32")
}
fn nullable_t(t: &str) -> bool {
    matches!(t, "f64" | "f32" | "of64" | "oi32" | "obool")
}

pub fn valid_case(r: &Req) -> bool {
    let m = match method(r) {
        Some(m) => m,
        None => return false,
    };
    let t = r.s("t");
    let src = r.s("src");
    let xs = r.list("xs");
    let has_null = |k: &str| r.list(k).iter().any(|x| *x == "_");
    let frac = |k: &str| r.list(k).iter().any(|x| x.contains('/'));
    let plain = P_NUM.contains(&m) || P_BOOL.contains(&m) || m == "count_value";
    let is_bool = V_BOOL.contains(&m) || P_BOOL.contains(&m);
    if is_bool {
        if !matches!(t, "bool" | "obool") || (plain && t != "bool") {
            return false;
        }
        if xs.iter().any(|x| !matches!(*x, "0" | "1" | "_")) {
            return false;
        }
    } else if !matches!(t, "f64" | "f32" | "i32" | "of64" | "oi32") {
        return false;
    }
    if plain && (!matches!(t, "f64" | "f32" | "i32" | "bool") || src == "opt") {
        return false;
    }
    if !matches!(src, "own" | "titer" | "opt" | "lazy") || (plain && src == "lazy") {
        return false;
    }
    // nulls need a null-capable element type; the plain family is specified on null-free input
    if has_null("xs") && (plain || !nullable_t(t)) {
        return false;
    }
    if is_int_t(t) && (frac("xs") || frac("ys") || (r.has("v") && r.s("v").contains('/'))) {
        return false;
    }
    // infinities: float encodings, and only where the result is a comparison or a count
    let inf = |k: &str| r.list(k).iter().any(|x| x.ends_with("inf"));
    if inf("xs") || inf("ys") || (r.has("v") && r.s("v").ends_with("inf")) {
        if !matches!(t, "f64" | "of64" | "f32")
            || !matches!(m, "vmax" | "vmin" | "vargmax" | "vargmin" | "vfirst" | "vlast" | "count_valid" | "count_none" | "count"
                | "vcount_value" | "max" | "min" | "argmax" | "argmin" | "first" | "last" | "count_value") {
            return false;
        }
    }
    if V_TWO.contains(&m) {
        if r.list("ys").len() != xs.len() || (has_null("ys") && !nullable_t(t)) {
            return false;
        }
    }
    if V_MASK.contains(&m) {
        let ms = r.list("ms");
        if ms.len() != xs.len() || ms.iter().any(|x| !matches!(*x, "0" | "1" | "_")) {
            return false;
        }
        if has_null("ms") && r.s("mt") != "obool" {
            return false;
        }
    }
    if (m == "vcount_value" || m == "count_value") && !r.has("v") {
        return false;
    }
    if m == "vcount_value" && r.s("v") == "_" && !(nullable_t(t) || src == "opt") {
        return false;
    }
    if m == "count_value" && r.s("v") == "_" {
        return false;
    }
    if r.has("mp") && r.usize("mp") > xs.len() + 1 {
        return false;
    }
    if r.i64("ps") != 0 && ORDERED.contains(&m) {
        return false;
    }
    true
}

const T_NULL: &[&str] = &["f64", "of64", "oi32", "f32"];
const T_ANY: &[&str] = &["f64", "of64", "i32", "oi32", "f32"];
const T_PLAIN: &[&str] = &["f64", "i32", "f32"];
const SRC: &[&str] = &["own", "titer", "opt", "lazy"];

fn types_for(xs: &[String]) -> &'static [&'static str] {
    if xs.iter().any(|x| x == "_") { T_NULL } else { T_ANY }
}

struct Emit {
    out: Vec<String>,
    k: usize,
}
impl Emit {
    fn rot<'a>(&mut self, choices: &[&'a str]) -> &'a str {
        self.k += 1;
        choices[(self.k / 3) % choices.len()]
    }
    fn src(&mut self, plain: bool) -> &'static str {
        if plain { SRC[self.k % 2] } else { SRC[self.k % 4] }
    }
    /// all requests about one numeric series (types / sources rotated)
    fn one_series(&mut self, xs: &[String], pss: &[u64], int_only: bool) {
        let len = xs.len();
        let has_null = xs.iter().any(|x| x == "_");
        let _ = int_only;
        let ts: Vec<&str> = types_for(xs).to_vec();
        let ts: Vec<&str> = if xs.iter().any(|x| x.contains('/')) { ts.into_iter().filter(|t| !is_int_t(t)).collect() } else { ts };
        let sx = join(xs);
        for &ps in pss {
            let pst = if ps == 0 { String::new() } else { format!(" ps={}", ps) };
            for m in V_PLAIN {
                if ps != 0 && ORDERED.contains(m) {
                    continue;
                }
                let t = self.rot(&ts);
                let s = self.src(false);
                self.out.push(format!("agg_{} t={} src={}{} xs={}", m, t, s, pst, sx));
            }
            for m in V_MP {
                for mp in 0..=len + 1 {
                    if ps != 0 && mp != 0 && mp != 2 && mp != len {
                        continue;
                    }
                    let t = self.rot(&ts);
                    let s = self.src(false);
                    self.out.push(format!("agg_{} t={} src={} mp={}{} xs={}", m, t, s, mp, pst, sx));
                }
            }
            // vcount_value: every distinct element, one absent value, and null
            let mut vals: Vec<String> = vec![];
            for x in xs {
                if x != "_" && !vals.contains(x) {
                    vals.push(x.clone());
                }
            }
            vals.push("7".into());
            for v in &vals {
                let t = self.rot(&ts);
                let s = self.src(false);
                self.out.push(format!("agg_vcount_value t={} src={} v={}{} xs={}", t, s, v, pst, sx));
            }
            {
                let tn: Vec<&str> = ts.iter().cloned().filter(|t| nullable_t(t)).collect();
                let t = self.rot(&tn);
                let s = self.src(false);
                self.out.push(format!("agg_vcount_value t={} src={} v=_{} xs={}", t, s, pst, sx));
            }
            if !has_null {
                let tp: Vec<&str> = T_PLAIN.iter().cloned().filter(|t| ts.contains(t)).collect();
                for m in P_NUM {
                    if ps != 0 && ORDERED.contains(m) {
                        continue;
                    }
                    let t = self.rot(&tp);
                    let s = self.src(true);
                    self.out.push(format!("agg_{} t={} src={}{} xs={}", m, t, s, pst, sx));
                }
                for v in &vals {
                    let t = self.rot(&tp);
                    let s = self.src(true);
                    self.out.push(format!("agg_count_value t={} src={} v={}{} xs={}", t, s, v, pst, sx));
                }
            }
        }
    }
    /// order-only aggregations on series containing the two infinities (float encodings only)
    fn inf_series(&mut self, xs: &[String]) {
        let has_null = xs.iter().any(|x| x == "_");
        let sx = join(xs);
        let ts: &[&str] = &["f64", "of64", "f32"];
        for m in ["vmax", "vmin", "vargmax", "vargmin", "vfirst", "vlast", "count_valid", "count_none"] {
            let t = self.rot(ts);
            let s = self.src(false);
            self.out.push(format!("agg_{} t={} src={} xs={}", m, t, s, sx));
        }
        for v in ["inf", "-inf", "_"] {
            let t = self.rot(ts);
            let s = self.src(false);
            self.out.push(format!("agg_vcount_value t={} src={} v={} xs={}", t, s, v, sx));
        }
        if !has_null {
            for m in ["max", "min", "argmax", "argmin", "first", "last"] {
                let t = self.rot(&["f64", "f32"]);
                let s = self.src(true);
                self.out.push(format!("agg_{} t={} src={} xs={}", m, t, s, sx));
            }
        }
    }
    fn bool_series(&mut self, xs: &[String], pss: &[u64]) {
        let has_null = xs.iter().any(|x| x == "_");
        let sx = join(xs);
        for &ps in pss {
            let pst = if ps == 0 { String::new() } else { format!(" ps={}", ps) };
            for m in V_BOOL {
                self.k += 1;
                let t = if has_null || self.k % 2 == 0 { "obool" } else { "bool" };
                let s = self.src(false);
                self.out.push(format!("agg_{} t={} src={}{} xs={}", m, t, s, pst, sx));
            }
            if !has_null {
                for m in P_BOOL {
                    self.k += 1;
                    let s = self.src(true);
                    self.out.push(format!("agg_{} t=bool src={}{} xs={}", m, s, pst, sx));
                }
            }
        }
    }
    fn two_series(&mut self, xs: &[String], ys: &[String], pss: &[u64]) {
        let len = xs.len();
        let any_null = xs.iter().chain(ys.iter()).any(|x| x == "_");
        let any_frac = xs.iter().chain(ys.iter()).any(|x| x.contains('/'));
        let ts: Vec<&str> = (if any_null { T_NULL } else { T_ANY }).iter().cloned().filter(|t| !(any_frac && is_int_t(t))).collect();
        for &ps in pss {
            let pst = if ps == 0 { String::new() } else { format!(" ps={}", ps) };
            for m in V_TWO {
                for mp in 0..=len + 1 {
                    if ps != 0 && mp != 0 && mp != len {
                        continue;
                    }
                    let t = self.rot(&ts);
                    let s = self.src(false);
                    self.out.push(format!("agg_{} t={} src={} mp={}{} xs={} ys={}", m, t, s, mp, pst, join(xs), join(ys)));
                }
            }
        }
    }
    fn mask_series(&mut self, xs: &[String], ms: &[String], pss: &[u64]) {
        let len = xs.len();
        let ts: Vec<&str> = types_for(xs).iter().cloned().filter(|t| !(xs.iter().any(|x| x.contains('/')) && is_int_t(t))).collect();
        let mnull = ms.iter().any(|x| x == "_");
        for &ps in pss {
            let pst = if ps == 0 { String::new() } else { format!(" ps={}", ps) };
            for m in V_MASK {
                let mps: Vec<usize> = if *m == "vmean_filter" { (0..=len + 1).collect() } else { vec![0] };
                for mp in mps {
                    if ps != 0 && mp != 0 && mp != len {
                        continue;
                    }
                    let t = self.rot(&ts);
                    let s = self.src(false);
                    let mt = if mnull || self.k % 2 == 0 { "obool" } else { "bool" };
                    self.out.push(format!("agg_{} t={} mt={} src={} mp={}{} xs={} ms={}", m, t, mt, s, mp, pst, join(xs), join(ms)));
                }
            }
        }
    }
}

pub fn generate(tier: &str, rng: &mut Rng) -> (Vec<String>, bool) {
    let thorough = tier == "thorough";
    let mut e = Emit { out: vec![], k: 0 };
    let alpha: &[&str] = &["_", "-1", "0", "2"];
    let (max1, max2, maxm, maxb) = if thorough { (6, 4, 4, 8) } else { (5, 3, 3, 6) };
    // exhaustive-small stream (contains every permutation of every series)
    for len in 0..=max1 {
        for xs in all_series(alpha, len) {
            e.one_series(&xs, &[0], false);
        }
    }
    for len in 0..=maxb {
        for xs in all_series(&["_", "0", "1"], len) {
            e.bool_series(&xs, &[0]);
        }
    }
    // the infinities: extrema, arg-extrema, first / last and the counts only compare and count
    for len in 1..=(if thorough { 5 } else { 4 }) {
        for xs in all_series(&["_", "-inf", "3", "inf"], len) {
            if xs.iter().any(|x| x.ends_with("inf")) {
                e.inf_series(&xs);
            }
        }
    }
    for len in 0..=max2 {
        let all = all_series(alpha, len);
        for xs in &all {
            for ys in &all {
                e.two_series(xs, ys, &[0]);
            }
        }
    }
    for len in 0..=maxm {
        let all = all_series(alpha, len);
        let masks = all_series(&["_", "0", "1"], len);
        for xs in &all {
            for ms in &masks {
                e.mask_series(xs, ms, &[0]);
            }
        }
    }
    // structured random stream: every case also under 5 random shuffles of its input
    let n_rand = if thorough { 6000 } else { 500 };
    let max_len = if thorough { 200 } else { 60 };
    for _ in 0..n_rand {
        let len = if rng.chance(0.6) { rng.below(12) } else { rng.below(max_len + 1) };
        let mut pss: Vec<u64> = vec![0];
        for _ in 0..5 {
            pss.push(1 + (rng.next() % 1_000_000));
        }
        match rng.below(8) {
            0..=3 => {
                let int = rng.chance(0.4);
                let nullable = rng.chance(0.7);
                let xs = rand_series(rng, len, if int { 20 } else { 8 }, int, nullable);
                e.one_series(&xs[..], &pss, int);
            },
            4 => {
                let xs: Vec<String> = (0..len).map(|_| ["_", "0", "1", "1"][rng.below(4)].to_string()).collect();
                let xs: Vec<String> = if rng.chance(0.3) { xs.into_iter().map(|x| if x == "_" { "1".to_string() } else { x }).collect() } else { xs };
                e.bool_series(&xs, &pss);
            },
            5 | 6 => {
                let len = len.min(40);
                let int = rng.chance(0.4);
                let nullable = rng.chance(0.7);
                let xs = rand_series(rng, len, 8, int, nullable);
                let ys = if rng.chance(0.15) { xs.clone() } else { rand_series(rng, len, 8, int, nullable) };
                e.two_series(&xs, &ys, &pss);
            },
            _ => {
                let len = len.min(40);
                let int = rng.chance(0.4);
                let nullable = rng.chance(0.7);
                let xs = rand_series(rng, len, 8, int, nullable);
                let ms: Vec<String> = (0..len).map(|_| ["_", "0", "1", "1"][rng.below(4)].to_string()).collect();
                e.mask_series(&xs, &ms, &pss);
            },
        }
    }
    // the same requests at scales 2^-12 .. 2^-15 (variances a few orders of magnitude above EPS)
    crate::cases::add_scaled(&mut e.out, 7, &[12, 13, 14, 15], &["xs", "ys"]);
    (e.out, true)
}

pub fn rule(tier: &str) -> String {
    let th = tier == "thorough";
    format!("every method of AggValidBasic (20 incl. deprecated count), AggBasic (12) and AggValidExt (n_vsum_filter, n_sum_filter, vmean_filter, vkurt) called on the real code; the extrema, arg-extrema, first / last and the counts also on every series over {{null,-inf,3,+inf}} up to length 4 (thorough 5) containing an infinity, float encodings (the model reads +-inf as +-2^1100: these functions only compare and count); exhaustive stream: every series over {{null,-1,0,2}} up to length {} (hence every permutation, ties, constant, all-null, empty, singleton) x every min_periods 0..=len+1 x every present/absent/null match value; boolean series over {{null,0,1}} to length {}; every PAIR of series over {{null,-1,0,2}} to length {} x every min_periods; every (series, mask over {{null,0,1}}) to length {}; element types rotated over f64,f32,i32,Option<f64>,Option<i32>,bool,Option<bool>, sources over owned Vec / borrowed titer() / opt() view / a filtered iterator whose size hint has lower bound 0; random stream: lengths to {}, dyadic values k/8 |k|<=64 or integers |k|<=20, 9 null patterns, each case repeated under 5 random shuffles applied on the implementation side only (symmetric aggregations). non-trivial = distinct request with >= 2 input elements and >= 1 non-null output token.",
        if th { 6 } else { 5 }, if th { 8 } else { 6 }, if th { 4 } else { 3 }, if th { 4 } else { 3 }, if th { 200 } else { 60 })
}
