//! C09: trusted-length iterators yield exactly as many items as they announce.
//!
//! request : `c09 b=<backend> xs=.. ys=.. src=<base>[.<deop>]* ops=<op>[,<op>]*|- sched=<[FB]*|-> oc=<vec|deque|nd> p=<ret|out> [bins=.. labels=..]`
//! response: `<status>;<h:c:col>,...` (see lean/Tv/Handlers/C09.lean)
//!
//! The upper bound `h` of `size_hint()` is read before any consumption and after every prefix of
//! the schedule (`F` = `next`, `B` = `next_back`); `c` is the number of items obtained by plain
//! safe iteration from that point. The raw collectors (`collect_from_trusted`,
//! `write_trust_iter`) are only ever invoked at a point where `h == c` — a mismatch is itself
//! the violation (it would be a heap overrun / uninitialised memory) and is reported as such.
//! Every stage of a pipeline is checked in this way before the next stage is built on top of it.
use crate::proto::{split_list, Req};
use crate::rng::Rng;
pub use imp::run;

pub const DE_OPS: &[&str] = &["rev", "map", "trust", "nf", "nb"];
pub const CONTAINER_OPS: &[&str] = &["vdiff", "vpct", "vargp", "vpart", "wins", "roll"];

/// calls into the repository (the only module importing the prelude)
mod imp {
use std::cell::RefCell;
use std::collections::VecDeque;

use tevec::prelude::*;

use crate::backends::Array1;
use crate::proto::Req;

pub type Tl<'a> = Box<dyn TrustedLen<Item = f64> + 'a>;
/// double-ended trusted-length iterator (what `titer()` hands out)
pub trait DeTl: DoubleEndedIterator<Item = f64> + TrustedLen {}
impl<I: DoubleEndedIterator<Item = f64> + TrustedLen> DeTl for I {}
pub type De<'a> = Box<dyn DeTl + 'a>;
// `Box<I>` forwards `next`, `next_back` and `size_hint` to `I`
unsafe impl<'a> TrustedLen for Box<dyn DeTl + 'a> {}

pub enum It<'a> {
    De(De<'a>),
    Tl(Tl<'a>),
}

impl<'a> It<'a> {
    fn upper(&self) -> Option<usize> {
        match self {
            It::De(i) => i.size_hint().1,
            It::Tl(i) => i.size_hint().1,
        }
    }
    fn next(&mut self) -> Option<f64> {
        match self {
            It::De(i) => i.next(),
            It::Tl(i) => i.next(),
        }
    }
    fn nth(&mut self, n: usize) -> Option<f64> {
        match self {
            It::De(i) => i.nth(n),
            It::Tl(i) => i.nth(n),
        }
    }
    fn next_back(&mut self) -> Option<f64> {
        match self {
            It::De(i) => i.next_back(),
            It::Tl(_) => panic!("next_back on a front-only iterator"),
        }
    }
    fn into_tl(self) -> Tl<'a> {
        match self {
            It::De(i) => Box::new(i),
            It::Tl(i) => i,
        }
    }
}

/// stable storage for vectors a later pipeline stage borrows from
pub struct Arena {
    items: RefCell<Vec<Box<Vec<f64>>>>,
    handles: RefCell<Vec<Box<W<'static, Vec<f64>>>>>,
}
impl Arena {
    pub fn new() -> Arena {
        Arena { items: RefCell::new(vec![]), handles: RefCell::new(vec![]) }
    }
    pub fn alloc(&self, v: Vec<f64>) -> &Vec<f64> {
        let b = Box::new(v);
        let p: *const Vec<f64> = &*b;
        self.items.borrow_mut().push(b);
        // the boxed vector is never moved or dropped before the arena itself
        unsafe { &*p }
    }
    pub fn handle<'a>(&'a self, v: &'a Vec<f64>) -> &'a W<'a, Vec<f64>> {
        let b: Box<W<'static, Vec<f64>>> = Box::new(W(unsafe { &*(v as *const Vec<f64>) }));
        let p: *const W<'static, Vec<f64>> = &*b;
        self.handles.borrow_mut().push(b);
        unsafe { &*(p as *const W<'a, Vec<f64>>) }
    }
}

pub const CAP: usize = 100_000;

/// plain safe iteration to the end (capped: a runaway iterator is reported, not followed)
fn drain(it: &mut It) -> Result<Vec<f64>, String> {
    let mut v = vec![];
    while let Some(x) = it.next() {
        v.push(x);
        if v.len() > CAP {
            return Err("INF".into());
        }
    }
    Ok(v)
}

/// the container methods, object-safe, implemented once per backend
pub trait Cont {
    fn titer_de<'a>(&'a self) -> De<'a>;
    fn titer_map<'a>(&'a self) -> De<'a>;
    fn titer_cast<'a>(&'a self) -> De<'a>;
    fn titer_opt<'a>(&'a self) -> De<'a>;
    fn chain_vec<'a>(&'a self, ys: &'a Vec<f64>) -> De<'a>;
    fn c_vdiff<'a>(&'a self, n: i32, v: Option<f64>) -> Tl<'a>;
    fn c_vpct<'a>(&'a self, n: i32) -> Tl<'a>;
    fn c_vargp<'a>(&'a self, k: usize, sort: bool, rev: bool) -> Tl<'a>;
    fn c_vpart<'a>(&'a self, k: usize, sort: bool, rev: bool) -> Tl<'a>;
    fn c_wins<'a>(&'a self, m: &str) -> Result<Tl<'a>, String>;
    fn c_roll<'a>(&'a self, w: usize) -> Tl<'a>;
}

/// sized handle on a (possibly unsized) backend view
pub struct W<'v, V>(pub &'v V);

impl<V: Vec1View<f64>> Cont for W<'_, V> {
    fn titer_de<'a>(&'a self) -> De<'a> {
        Box::new(self.0.titer())
    }
    fn titer_map<'a>(&'a self) -> De<'a> {
        Box::new(TIter::map(self.0, |x| x))
    }
    fn titer_cast<'a>(&'a self) -> De<'a> {
        Box::new(self.0.iter_cast::<f64>())
    }
    fn titer_opt<'a>(&'a self) -> De<'a> {
        Box::new(self.0.to_opt_iter().map(|o| o.unwrap_or(f64::NAN)))
    }
    fn chain_vec<'a>(&'a self, ys: &'a Vec<f64>) -> De<'a> {
        Box::new(self.0.titer().chain(ys.titer()))
    }
    fn c_vdiff<'a>(&'a self, n: i32, v: Option<f64>) -> Tl<'a> {
        self.0.vdiff(n, v)
    }
    fn c_vpct<'a>(&'a self, n: i32) -> Tl<'a> {
        self.0.vpct_change(n)
    }
    fn c_vargp<'a>(&'a self, k: usize, sort: bool, rev: bool) -> Tl<'a> {
        Box::new(self.0.varg_partition(k, sort, rev).map(|i| i as f64))
    }
    fn c_vpart<'a>(&'a self, k: usize, sort: bool, rev: bool) -> Tl<'a> {
        self.0.vpartition(k, sort, rev)
    }
    fn c_wins<'a>(&'a self, m: &str) -> Result<Tl<'a>, String> {
        let (method, param) = match m {
            "q" => (WinsorizeMethod::Quantile, Some(0.25)),
            "m" => (WinsorizeMethod::Median, Some(1.)),
            "s" => (WinsorizeMethod::Sigma, Some(1.)),
            "Q" => (WinsorizeMethod::Quantile, None),
            "M" => (WinsorizeMethod::Median, None),
            _ => (WinsorizeMethod::Sigma, None),
        };
        self.0.winsorize(method, param).map_err(|_| "E".to_string())
    }
    fn c_roll<'a>(&'a self, w: usize) -> Tl<'a> {
        Box::new(self.0.rolling_custom_iter(w, |_s| 1.0f64))
    }
}

/// build backend `b` holding the logical sequence `xs` and hand it over as a `Cont`
/// (backends: vec arc deque<k> arcdeque<k> nd ndvm ndv<step> arr)
fn with_backend<R>(b: &str, xs: &Vec<f64>, f: impl Fn(&dyn Cont) -> R) -> R {
    use crate::backends::{deque_rot, nd_base, s};
    if b == "vec" {
        f(&W(xs))
    } else if b == "arc" {
        let a = std::sync::Arc::new(xs.clone());
        f(&W(&a))
    } else if let Some(k) = b.strip_prefix("deque") {
        let d = deque_rot(xs, k.parse().unwrap_or(0));
        f(&W(&d))
    } else if let Some(k) = b.strip_prefix("arcdeque") {
        let d = std::sync::Arc::new(deque_rot(xs, k.parse().unwrap_or(0)));
        f(&W(&d))
    } else if b == "nd" {
        let a = Array1::from_vec(xs.clone());
        f(&W(&a))
    } else if b == "ndvm" {
        let mut a = Array1::from_vec(xs.clone());
        let vm = a.view_mut();
        f(&W(&vm))
    } else if let Some(st) = b.strip_prefix("ndv") {
        let st: isize = st.parse().unwrap_or(1);
        let base = nd_base(xs, st, f64::NAN);
        let vw = base.slice(s![..;st]);
        f(&W(&vw))
    } else if b == "arr" {
        macro_rules! arr {
            ($n:literal) => {{
                let a: [f64; $n] = xs.clone().try_into().ok().unwrap();
                f(&W(&a))
            }};
        }
        match xs.len() {
            0 => arr!(0), 1 => arr!(1), 2 => arr!(2), 3 => arr!(3), 4 => arr!(4),
            5 => arr!(5), 6 => arr!(6), 7 => arr!(7), 8 => arr!(8),
            _ => f(&W(xs)),
        }
    } else {
        panic!("unknown backend {b}")
    }
}

fn val(s: &str) -> f64 {
    crate::proto::rat_to_f64(s).unwrap_or(f64::NAN)
}
fn opt_val(s: &str) -> Option<f64> {
    if s == "N" { None } else { Some(val(s)) }
}

pub struct Plan<'r> {
    pub base: &'r str,
    pub de: Vec<&'r str>,
    pub ops: Vec<&'r str>,
    pub bins: Vec<f64>,
    pub labels: Vec<f64>,
}

impl<'r> Plan<'r> {
    pub fn parse(r: &'r Req) -> Plan<'r> {
        let mut st = r.s("src").split('.');
        let base = st.next().unwrap_or("it");
        let de: Vec<&str> = st.collect();
        let ops: Vec<&str> = if r.s("ops") == "-" || r.s("ops").is_empty() { vec![] } else { r.s("ops").split(',').collect() };
        Plan { base, de, ops, bins: r.series("bins").iter().map(|x| x.unwrap_or(f64::NAN)).collect(), labels: r.series("labels").iter().map(|x| x.unwrap_or(f64::NAN)).collect() }
    }
}

/// source + the first `nde` double-ended adaptors
fn build_de<'a>(c: &'a dyn Cont, xs: &'a Vec<f64>, ys: &'a Vec<f64>, plan: &Plan, nde: usize, arena: &'a Arena) -> Result<De<'a>, String> {
    let mut it: De<'a> = match plan.base {
        "it" => c.titer_de(),
        "itm" => c.titer_map(),
        "itc" => c.titer_cast(),
        "ito" => c.titer_opt(),
        "ch" => c.chain_vec(ys),
        // `Zip` is double-ended only over `ExactSizeIterator`s, which the opaque `titer()` type
        // does not promise: zip the slice iterators the way user code has to
        "zp" => Box::new(xs.iter().cloned().zip(ys.iter().cloned()).map(|(a, b)| a + b)),
        b if b.starts_with("lin") => {
            let n: usize = b[3..].parse().map_err(|_| "?")?;
            let v: Vec<f64> = Vec1Create::linspace(Some(0.), 1., n);
            Box::new(arena.alloc(v).titer())
        },
        b if b.starts_with("rep") => {
            let n: usize = b[3..].parse().map_err(|_| "?")?;
            Box::new(std::iter::repeat_n(1.0f64, n))
        },
        b if b.starts_with("rng") => {
            let p: Vec<f64> = b[3..].split(':').map(|x| x.parse::<f64>().unwrap_or(f64::NAN)).collect();
            if p.len() != 3 {
                return Err("?".into());
            }
            let v: Vec<f64> = Vec1Create::range(Some(p[0]), p[1], Some(p[2]));
            Box::new(arena.alloc(v).titer())
        },
        _ => return Err("?".into()),
    };
    for (k, d) in plan.de.iter().take(nde).enumerate() {
        it = match *d {
            "rev" => Box::new(it.rev()),
            "map" => Box::new(it.map(|x| x)),
            "nf" => {
                it.next();
                it
            },
            "nb" => {
                it.next_back();
                it
            },
            "trust" => {
                // `to_trust(len)` is called with the true length (API contract): count it on a twin
                let mut twin = It::De(build_de(c, xs, ys, plan, k, arena)?);
                let n = drain(&mut twin)?.len();
                drop(it);
                Box::new(build_de(c, xs, ys, plan, k, arena)?.to_trust(n))
            },
            _ => return Err("?".into()),
        };
    }
    Ok(it)
}

fn is_container_op(o: &str) -> bool {
    super::CONTAINER_OPS.contains(&o.split(':').next().unwrap_or(""))
}

fn container_op<'a>(c: &'a dyn Cont, o: &str) -> Result<Tl<'a>, String> {
    let a: Vec<&str> = o.split(':').collect();
    let b = |s: &str| s == "1";
    Ok(match a[0] {
        "vdiff" => c.c_vdiff(a[1].parse().map_err(|_| "?")?, opt_val(a[2])),
        "vpct" => c.c_vpct(a[1].parse().map_err(|_| "?")?),
        "vargp" => c.c_vargp(a[1].parse().map_err(|_| "?")?, b(a[2]), b(a[3])),
        "vpart" => c.c_vpart(a[1].parse().map_err(|_| "?")?, b(a[2]), b(a[3])),
        "wins" => c.c_wins(a[1])?,
        "roll" => c.c_roll(a[1].parse().map_err(|_| "?")?),
        _ => return Err("?".into()),
    })
}

/// source, double-ended adaptors and the first `nops` library adaptors
pub fn build<'a>(c: &'a dyn Cont, xs: &'a Vec<f64>, ys: &'a Vec<f64>, plan: &'a Plan, nops: usize, arena: &'a Arena) -> Result<It<'a>, String> {
    let mut start = 0;
    let mut cur: It<'a>;
    if nops > 0 && plan.base == "it" && plan.de.is_empty() && is_container_op(plan.ops[0]) {
        // container method called directly on the backend under test
        cur = It::Tl(container_op(c, plan.ops[0])?);
        start = 1;
    } else {
        cur = It::De(build_de(c, xs, ys, plan, plan.de.len(), arena)?);
    }
    for o in plan.ops.iter().take(nops).skip(start) {
        let a: Vec<&str> = o.split(':').collect();
        if is_container_op(o) {
            let v = drain(&mut cur)?;
            let vr: &'a Vec<f64> = arena.alloc(v);
            let w: &'a W<'a, Vec<f64>> = arena.handle(vr);
            cur = It::Tl(container_op(w, o)?);
            continue;
        }
        if a[0] == "bfill" {
            cur = match cur {
                It::De(d) => It::Tl(Box::new(d.bfill(opt_val(a[1])))),
                It::Tl(_) => return Err("?".into()),
            };
            continue;
        }
        let t = cur.into_tl();
        let nt: Tl<'a> = match a[0] {
            "abs" => Box::new(MapBasic::abs(t)),
            "vabs" => Box::new(t.vabs()),
            "enum" => Box::new(t.enumerate().map(|(_, x)| x)),
            "ffill" => Box::new(t.ffill(opt_val(a[1]))),
            "fill" => Box::new(t.fill(val(a[1]))),
            "vclip" => t.vclip(val(a[1]), val(a[2])),
            "shift" => t.shift(a[1].parse().map_err(|_| "?")?, val(a[2])),
            "vshift" => t.vshift(a[1].parse().map_err(|_| "?")?, opt_val(a[2])),
            "vcut" => {
                let bins: &'a Vec<f64> = arena.alloc(plan.bins.clone());
                let labels: &'a Vec<f64> = arena.alloc(plan.labels.clone());
                match t.vcut::<_, _, f64>(bins, labels, a[1] == "1", a[2] == "1") {
                    Ok(b) => Box::new(b.map(|r| r.unwrap_or(-99.))),
                    Err(_) => return Err("E".into()),
                }
            },
            "take" => Box::new(t.take(a[1].parse().map_err(|_| "?")?)),
            "nx" => {
                let mut t = t;
                t.next();
                t
            },
            "chy" => Box::new(t.chain(ys.titer())),
            "zpy" => Box::new(t.zip(ys.titer()).map(|(x, y)| x + y)),
            _ => return Err("?".into()),
        };
        cur = It::Tl(nt);
    }
    Ok(cur)
}

fn tok_opt(h: Option<usize>) -> String {
    match h {
        Some(x) => x.to_string(),
        None => "_".into(),
    }
}

fn same(a: &[f64], b: &[f64]) -> bool {
    if a.len() != b.len() {
        return false;
    }
    for (x, y) in a.iter().zip(b.iter()) {
        if !(x.to_bits() == y.to_bits() || (x.is_nan() && y.is_nan())) {
            return false;
        }
    }
    true
}

/// run the raw collector `oc`/`path` on a trusted iterator whose hint has been validated
fn collect_raw(it: It, oc: &str, path: &str, n: usize) -> Vec<f64> {
    macro_rules! go {
        ($O:ty) => {{
            if path == "out" {
                let mut buf = <$O as Vec1<f64>>::uninit(n);
                {
                    let mut r = <$O as Vec1<f64>>::uninit_ref_mut(&mut buf);
                    match it {
                        It::De(i) => i.write(&mut r).unwrap(),
                        It::Tl(i) => i.write(&mut r).unwrap(),
                    }
                }
                let o: $O = unsafe { buf.assume_init() };
                o.titer().collect::<Vec<f64>>()
            } else {
                let o: $O = match it {
                    It::De(i) => i.collect_trusted_vec1(),
                    It::Tl(i) => i.collect_trusted_vec1(),
                };
                o.titer().collect::<Vec<f64>>()
            }
        }};
    }
    match oc {
        "deque" => go!(VecDeque<f64>),
        "nd" => go!(Array1<f64>),
        _ => go!(Vec<f64>),
    }
}

fn observe(c: &dyn Cont, xs: &Vec<f64>, ys: &Vec<f64>, plan: &Plan, sched: &[u8], oc: &str, path: &str) -> String {
    let arena = Arena::new();
    // 1. every stage announces what it yields before the next stage is built on it
    for j in 0..=plan.ops.len() {
        match build(c, xs, ys, plan, j, &arena) {
            Err(e) => return format!("{};[]", e),
            Ok(mut it) => {
                let h = it.upper();
                match drain(&mut it) {
                    Err(e) => return format!("bad@{}:{}:{};[]", j, tok_opt(h), e),
                    Ok(v) => {
                        if h != Some(v.len()) {
                            return format!("bad@{}:{}:{};[]", j, tok_opt(h), v.len());
                        }
                    },
                }
            },
        }
    }
    // 2. the consumption schedule
    let nops = plan.ops.len();
    let mut toks = vec![];
    // true number of items (plain safe iteration), needed to know when a schedule is exhausted
    let total = match build(c, xs, ys, plan, nops, &arena) {
        Ok(mut it) => match drain(&mut it) { Ok(v) => v.len(), Err(_) => usize::MAX },
        Err(e) => return format!("{};[]", e),
    };
    'outer: for k in 0..=sched.len() {
        // `F` = next, `B` = next_back, `N` = nth(1): two items from the front, or all that is left
        // (an overshooting `nth` returns None and must leave an exact, i.e. zero, hint behind)
        let advance = |it: &mut It| -> bool {
            let mut used = 0usize;
            for s in &sched[..k] {
                if used >= total {
                    return false;
                }
                if *s == b'N' {
                    let _ = it.nth(1);
                    used += 2usize.min(total - used);
                    continue;
                }
                let got = if *s == b'F' { it.next() } else { it.next_back() };
                used += 1;
                if got.is_none() {
                    return false;
                }
            }
            true
        };
        let mut it = match build(c, xs, ys, plan, nops, &arena) {
            Ok(it) => it,
            Err(e) => return format!("{};[]", e),
        };
        if !advance(&mut it) {
            break 'outer;
        }
        let h = it.upper();
        // remaining items by plain safe iteration from the front
        let rest = match drain(&mut it) {
            Ok(v) => v,
            Err(e) => {
                toks.push(format!("{}:{}:skip", tok_opt(h), e));
                continue;
            },
        };
        let col = if h == Some(rest.len()) {
            let mut it2 = build(c, xs, ys, plan, nops, &arena).ok().unwrap();
            advance(&mut it2);
            let got = collect_raw(it2, oc, path, rest.len());
            if same(&got, &rest) { "ok" } else { "BAD" }
        } else {
            "skip"
        };
        toks.push(format!("{}:{}:{}", tok_opt(h), rest.len(), col));
    }
    format!("ok;{}", if toks.is_empty() { "[]".to_string() } else { toks.join(",") })
}

pub fn run(r: &Req) -> Option<String> {
    if r.f != "c09" {
        return None;
    }
    let xs: Vec<f64> = r.series("xs").iter().map(|x| x.unwrap_or(f64::NAN)).collect();
    let ys: Vec<f64> = r.series("ys").iter().map(|x| x.unwrap_or(f64::NAN)).collect();
    let plan = Plan::parse(r);
    let sched: Vec<u8> = if r.s("sched") == "-" { vec![] } else { r.s("sched").bytes().collect() };
    let b = if r.s("b").is_empty() { "vec" } else { r.s("b") };
    let res = std::panic::catch_unwind(|| {
        with_backend(b, &xs, |c| observe(c, &xs, &ys, &plan, &sched, r.s("oc"), r.s("p")))
    });
    Some(match res {
        Ok(s) => s,
        Err(_) => "P;[]".to_string(),
    })
}
}

// ---------------------------------------------------------------------------------------------
// generators (no prelude in scope here)

fn op_ok(o: &str, first: bool, de_src: bool) -> bool {
    let a: Vec<&str> = o.split(':').collect();
    let int = |s: &str| s.parse::<i64>().map(|n| n >= i32::MIN as i64 && n <= i32::MAX as i64).unwrap_or(false);
    let nat = |s: &str| s.parse::<usize>().map(|n| n <= 64).unwrap_or(false);
    let v = |s: &str| s == "_" || crate::proto::rat_to_f64(s).map(|x| x.is_finite()).unwrap_or(false) && s.bytes().all(|c| c.is_ascii_digit() || c == b'-' || c == b'/');
    let ov = |s: &str| s == "N" || v(s);
    let bl = |s: &str| s == "0" || s == "1";
    match (a[0], a.len()) {
        ("abs", 1) | ("vabs", 1) | ("enum", 1) | ("nx", 1) | ("chy", 1) | ("zpy", 1) => true,
        ("ffill", 2) => ov(a[1]),
        ("bfill", 2) => ov(a[1]) && first && de_src,
        ("fill", 2) => v(a[1]),
        ("vclip", 3) => v(a[1]) && v(a[2]),
        ("shift", 3) => int(a[1]) && v(a[2]),
        ("vshift", 3) => int(a[1]) && ov(a[2]),
        ("vcut", 3) => bl(a[1]) && bl(a[2]),
        ("take", 2) => nat(a[1]),
        ("vdiff", 3) => int(a[1]) && ov(a[2]),
        ("vpct", 2) => int(a[1]),
        ("vargp", 4) | ("vpart", 4) => nat(a[1]) && bl(a[2]) && bl(a[3]),
        ("wins", 2) => ["q", "m", "s", "Q", "M", "S"].contains(&a[1]),
        ("roll", 2) => nat(a[1]) && a[1] != "0", // window >= 1 (DESIGN 5.6)
        _ => false,
    }
}

pub fn valid_case(r: &Req) -> bool {
    let mut st = r.s("src").split('.');
    let base = st.next().unwrap_or("");
    let nat = |s: &str| s.parse::<usize>().map(|n| n <= 64).unwrap_or(false);
    let base_ok = match base {
        "it" | "itm" | "itc" | "ito" | "ch" | "zp" => true,
        b if b.starts_with("lin") || b.starts_with("rep") => nat(&b[3..]),
        b if b.starts_with("rng") => {
            let p: Vec<i64> = b[3..].split(':').filter_map(|x| x.parse().ok()).collect();
            p.len() == 3 && p[2] != 0 && p.iter().all(|x| x.abs() <= 64)
        },
        _ => false,
    };
    let de: Vec<&str> = st.collect();
    if !base_ok || !de.iter().all(|d| DE_OPS.contains(d)) {
        return false;
    }
    let ops: Vec<&str> = if r.s("ops") == "-" { vec![] } else { r.s("ops").split(',').collect() };
    if r.s("ops").is_empty() || !ops.iter().enumerate().all(|(i, o)| op_ok(o, i == 0, true)) {
        return false;
    }
    let sched = r.s("sched");
    if sched.is_empty() || !(sched == "-" || sched.bytes().all(|c| c == b'F' || c == b'B' || c == b'N')) {
        return false;
    }
    if !ops.is_empty() && sched.contains('B') {
        return false; // boxed `dyn TrustedLen` iterators are front-only
    }
    let ser_ok = |k: &str, nulls: bool| split_list(r.s(k)).iter().all(|t| (nulls && *t == "_") || (t.parse::<i64>().is_ok() || (t.contains('/') && crate::proto::rat_to_f64(t).map(|x| x.is_finite()).unwrap_or(false))));
    r.has("xs") && r.has("ys") && ser_ok("xs", true) && ser_ok("ys", true) && ser_ok("bins", false) && ser_ok("labels", false)
        && (!ops.iter().any(|o| o.starts_with("vcut")) || (r.has("bins") && r.has("labels")))
}

/// series of length `len` with null pattern `pat` (0 none, 1 first, 2 alternating, 3 all, 4 last two)
fn series(len: usize, pat: usize) -> String {
    let v: Vec<String> = (0..len)
        .map(|i| {
            let null = match pat {
                1 => i == 0,
                2 => i % 2 == 1,
                3 => true,
                4 => i + 2 >= len,
                _ => false,
            };
            if null { "_".to_string() } else { format!("{}", (i as i64 * 3) % 7 - 2) }
        })
        .collect();
    if v.is_empty() { "[]".into() } else { v.join(",") }
}

fn ints(n: usize, from: i64) -> String {
    if n == 0 { "[]".into() } else { (0..n as i64).map(|i| (from + 2 * i).to_string()).collect::<Vec<_>>().join(",") }
}

const SMALL_BACKENDS: &[&str] = &["vec", "arr", "arc", "deque1", "deque3", "arcdeque2", "nd", "ndvm", "ndv2", "ndv-1"];

/// the parameter band of one adaptor around the critical sizes for an input of `len` items
fn param_band(op: &str, len: usize) -> Vec<String> {
    let l = len as i64;
    let mut lags: Vec<i64> = (-l - 3..=l + 3).collect();
    lags.push(i32::MIN as i64);
    lags.push(i32::MAX as i64);
    let mut out = vec![];
    match op {
        "abs" | "vabs" | "enum" | "nx" | "chy" | "zpy" => out.push(op.to_string()),
        "ffill" | "bfill" => for v in ["N", "_", "0"] { out.push(format!("{op}:{v}")) },
        "fill" => for v in ["_", "0"] { out.push(format!("fill:{v}")) },
        "vclip" => for (lo, hi) in [("_", "_"), ("0", "_"), ("_", "2"), ("0", "2"), ("3", "1")] { out.push(format!("vclip:{lo}:{hi}")) },
        "shift" => for n in &lags { for v in ["0", "_"] { out.push(format!("shift:{n}:{v}")) } },
        "vshift" | "vdiff" => for n in &lags { for v in ["N", "0"] { out.push(format!("{op}:{n}:{v}")) } },
        "vpct" => for n in &lags { out.push(format!("vpct:{n}")) },
        "take" => for k in 0..=len + 2 { out.push(format!("take:{k}")) },
        "vargp" | "vpart" => for k in 0..=len + 2 { for s in 0..2 { for r in 0..2 { out.push(format!("{op}:{k}:{s}:{r}")) } } },
        "wins" => for m in ["q", "m", "s", "Q", "M", "S"] { out.push(format!("wins:{m}")) },
        "roll" => for w in 1..=len + 2 { out.push(format!("roll:{w}")) },
        _ => {},
    }
    out
}

pub const ITER_OPS: &[&str] = &["abs", "vabs", "enum", "nx", "chy", "zpy", "ffill", "bfill", "fill", "vclip", "shift", "vshift", "take"];

fn line(b: &str, xs: &str, ys: &str, src: &str, ops: &str, sched: &str, oc: &str, p: &str, extra: &str) -> String {
    format!("c09 b={b} xs={xs} ys={ys} src={src} ops={ops} sched={sched} oc={oc} p={p}{extra}")
}

fn scheds(len: usize) -> Vec<String> {
    let n = len + 1;
    let mut v = vec!["F".repeat(n), "B".repeat(n)];
    v.push((0..n).map(|i| if i % 2 == 0 { 'F' } else { 'B' }).collect());
    v.push((0..n).map(|i| if i % 2 == 0 { 'B' } else { 'F' }).collect());
    v.push((0..n).map(|i| if i % 3 == 2 { 'F' } else { 'B' }).collect());
    // nth(1) steps: skipping consumption, incl. one that overshoots what is left
    v.push("N".repeat(n / 2 + 1));
    v.push(format!("F{}", "N".repeat(n / 2 + 1)));
    v.sort();
    v.dedup();
    v
}

fn rand_op(rng: &mut Rng, len: usize, first_de: bool) -> String {
    let all = ["abs", "vabs", "enum", "nx", "chy", "zpy", "ffill", "fill", "vclip", "shift", "vshift", "take", "vdiff", "vpct", "vargp", "vpart", "wins", "roll", "bfill"];
    loop {
        let op = *rng.pick(&all);
        if op == "bfill" && !first_de {
            continue;
        }
        let band = param_band(op, len.min(8));
        return rng.pick(&band).clone();
    }
}

/// crude length tracking so that random parameters stay in the critical band of the current stage
fn next_len(op: &str, len: usize, ylen: usize) -> usize {
    let a: Vec<&str> = op.split(':').collect();
    match a[0] {
        "nx" => len.saturating_sub(1),
        "chy" => len + ylen,
        "zpy" => len.min(ylen),
        "take" => len.min(a[1].parse().unwrap_or(0)),
        "vargp" => a[1].parse::<usize>().unwrap_or(0) + 1,
        "vpart" => if a[2] == "1" { len.min(a[1].parse::<usize>().unwrap_or(0) + 1) } else { a[1].parse::<usize>().unwrap_or(0) + 1 },
        _ => len,
    }
}

pub fn generate(tier: &str, rng: &mut Rng) -> (Vec<String>, bool) {
    let thorough = tier == "thorough";
    let maxlen = if thorough { 8 } else { 6 };
    let mut out = vec![];
    let ocs = [("vec", "ret"), ("deque", "ret"), ("nd", "ret"), ("vec", "out"), ("deque", "out"), ("nd", "out")];
    let mut rot = 0usize;
    let mut next_oc = || {
        rot += 1;
        ocs[rot % ocs.len()]
    };
    // (1) double-ended sources x double-ended adaptors x schedules: exhaustive over the listed shapes
    for len in 0..=maxlen {
        let xs = series(len, 2);
        for b in SMALL_BACKENDS {
            for base in ["it", "itm", "itc", "ito"] {
                for sc in scheds(len) {
                    let (oc, p) = next_oc();
                    out.push(line(b, &xs, "[]", base, "-", &sc, oc, p, ""));
                }
            }
        }
        for ylen in [0, 1, len, len + 2] {
            let ys = series(ylen, 1);
            for base in ["ch", "zp"] {
                for de in ["", ".rev", ".map", ".trust", ".nf", ".nb", ".rev.trust", ".nf.trust.rev", ".nb.nf.trust", ".trust.nb.map.rev"] {
                    let tot = if base == "ch" { len + ylen } else { len.min(ylen) };
                    for sc in scheds(tot) {
                        let (oc, p) = next_oc();
                        out.push(line("vec", &xs, &ys, &format!("{base}{de}"), "-", &sc, oc, p, ""));
                    }
                }
            }
        }
        for de in ["", ".rev", ".map", ".trust", ".nf", ".nb", ".rev.trust", ".nf.trust.rev", ".nb.nf.trust", ".trust.nb.map.rev", ".nf.nf.nb.trust"] {
            for b in ["vec", "deque3", "ndv2", "ndv-1"] {
                for sc in scheds(len) {
                    let (oc, p) = next_oc();
                    out.push(line(b, &xs, "[]", &format!("it{de}"), "-", &sc, oc, p, ""));
                }
            }
            for base in [format!("lin{len}"), format!("rep{len}")] {
                for sc in scheds(len) {
                    let (oc, p) = next_oc();
                    out.push(line("vec", "[]", "[]", &format!("{base}{de}"), "-", &sc, oc, p, ""));
                }
            }
        }
    }
    for a in -2i64..=3 {
        for bb in -2i64..=4 {
            for s in [-2i64, -1, 1, 2, 3] {
                let n = if (s > 0 && bb > a) || (s < 0 && bb < a) { ((bb - a).abs() + s.abs() - 1) / s.abs() } else { 0 } as usize;
                for sc in [scheds(n)[0].clone(), scheds(n).last().unwrap().clone()] {
                    let (oc, p) = next_oc();
                    out.push(line("vec", "[]", "[]", &format!("rng{a}:{bb}:{s}"), "-", &sc, oc, p, ""));
                }
            }
        }
    }
    // (2) every adaptor x its whole parameter band x len x null patterns, consumed front to end
    for len in 0..=maxlen {
        for pat in [0usize, 2, 3, 4] {
            let xs = series(len, pat);
            let ys = series(len.saturating_sub(1) + 2 * (pat % 2), 0);
            let sc = "F".repeat(len + 6);
            // iterator adaptors on a boxed titer and (partially consumed / wrapped) sources
            for op in ITER_OPS {
                for o in param_band(op, len) {
                    for src in ["it", "it.nf", "it.rev.nb.trust"] {
                        if pat != 2 && src != "it" {
                            continue;
                        }
                        let (oc, p) = next_oc();
                        out.push(line("vec", &xs, &ys, src, &o, &sc, oc, p, ""));
                    }
                }
            }
            // container methods directly on the backends
            for op in CONTAINER_OPS {
                for o in param_band(op, len) {
                    let bs: &[&str] = if pat == 2 { SMALL_BACKENDS } else { &["vec", "deque3"] };
                    for b in bs {
                        let (oc, p) = next_oc();
                        out.push(line(b, &xs, &ys, "it", &o, &sc, oc, p, ""));
                    }
                }
            }
        }
        // vcut: bins / labels of all small sizes
        let xs = series(len, 2);
        for nb in 0..=5usize {
            for nl in 0..=5usize {
                for right in 0..2 {
                    for ab in 0..2 {
                        let (oc, p) = next_oc();
                        out.push(line("vec", &xs, "[]", "it", &format!("vcut:{right}:{ab}"), &"F".repeat(len + 1), oc, p,
                            &format!(" bins={} labels={}", ints(nb, -3), ints(nl, 10))));
                    }
                }
            }
        }
    }
    // (3) every ordered pair of adaptors at the critical lags (shift-like into shift-like, etc.)
    for len in [0usize, 1, 3, 4] {
        let xs = series(len, 2);
        let ys = series(2, 0);
        let crit = |op: &str| -> Vec<String> {
            let l = len as i64;
            match op {
                "shift" => [-l - 1, -l, -1, 0, 1, l, l + 1].iter().map(|n| format!("shift:{n}:0")).collect(),
                "vshift" | "vdiff" => [-l - 1, -1, 0, 1, l + 1].iter().map(|n| format!("{op}:{n}:N")).collect(),
                "vpct" => [-l - 1, -1, 0, 1, l + 1].iter().map(|n| format!("vpct:{n}")).collect(),
                "vargp" | "vpart" => [0, len, len + 1].iter().flat_map(|k| [format!("{op}:{k}:0:0"), format!("{op}:{k}:1:1")]).collect(),
                "take" => [0, len, len + 1].iter().map(|k| format!("take:{k}")).collect(),
                "roll" => [1, len + 1].iter().map(|w| format!("roll:{w}")).collect(),
                "vclip" => vec!["vclip:0:2".into(), "vclip:_:_".into()],
                "ffill" => vec!["ffill:N".into()],
                "fill" => vec!["fill:0".into()],
                "wins" => vec!["wins:q".into()],
                o => vec![o.to_string()],
            }
        };
        let all = ["abs", "vabs", "enum", "nx", "chy", "zpy", "ffill", "fill", "vclip", "shift", "vshift", "take", "vdiff", "vpct", "vargp", "vpart", "wins", "roll"];
        for o1 in all {
            for p1 in crit(o1) {
                for o2 in all {
                    for p2 in crit(o2) {
                        let (oc, p) = next_oc();
                        out.push(line("vec", &xs, &ys, "it", &format!("{p1},{p2}"), &"F".repeat(len + 5), oc, p, ""));
                    }
                }
            }
        }
    }
    // (4) random pipelines of depth 1..=6
    let n_rand = if thorough { 200_000 } else { 10_000 };
    for _ in 0..n_rand {
        let len = rng.below(maxlen + 1);
        let ylen = rng.below(4);
        let xs = series(len, rng.below(5));
        let ys = series(ylen, rng.below(2));
        let base = *rng.pick(&["it", "it", "it", "ch", "zp"]);
        let mut src = base.to_string();
        let mut cur = match base {
            "ch" => len + ylen,
            "zp" => len.min(ylen),
            _ => len,
        };
        for _ in 0..rng.below(4) {
            let d = *rng.pick(DE_OPS);
            src.push('.');
            src.push_str(d);
            if d == "nf" || d == "nb" {
                cur = cur.saturating_sub(1);
            }
        }
        let depth = 1 + rng.below(6);
        let mut ops = vec![];
        for i in 0..depth {
            let o = rand_op(rng, cur, i == 0);
            cur = next_len(&o, cur, ylen);
            ops.push(o);
        }
        let b = if base == "it" { *rng.pick(SMALL_BACKENDS) } else { "vec" };
        let (oc, p) = next_oc();
        out.push(line(b, &xs, &ys, &src, &ops.join(","), &"F".repeat(cur.min(12) + 1), oc, p, ""));
    }
    (out, true)
}

pub fn rule(tier: &str) -> String {
    let (maxlen, nr) = if tier == "thorough" { (8, 200_000) } else { (6, 10_000) };
    format!("exhaustive: (1) container iterators (titer, TIter::map, iter_cast, to_opt_iter) of 10 backends, chain/zip of two containers, Vec1Create::linspace / range (a,b in -2..=4, step in -2..=3), repeat_n, each under 10 stacks of rev/map/to_trust/next/next_back, len 0..={maxlen}, consumed by 7 schedules (front, back, alternating FB/BF, BBF, nth(1) steps from either parity incl. an overshooting one) with the hint read and the rest counted after every step; (2) every adaptor (abs vabs enumerate next chain zip ffill bfill fill vclip(5 bound shapes) shift vshift take | vdiff vpct_change varg_partition vpartition winsorize(3 methods, default/explicit) rolling_custom_iter) x n in -len-3..=len+3 + {{i32::MIN,i32::MAX}}, kth in 0..=len+2 x sort x rev, window 1..=len+2, take 0..=len+2, x len 0..={maxlen} x 4 null patterns, container methods on 10 backends; vcut with 0..=5 bins x 0..=5 labels x right x add_bounds; (3) all ordered pairs of adaptors at critical parameters for len 0,1,3,4; then (4) {nr} random pipelines of depth 1..=6 on random sources. Raw collectors (Vec / VecDeque / Array1, returned / caller buffer) run at every observation point whose hint equals the counted remainder. non-trivial = at least 2 observation points.")
}

pub fn nontrivial(imp: &str) -> bool {
    imp.starts_with("ok;") && imp.matches(',').count() >= 1
}

pub fn tags(r: &Req, imp: &str) -> Vec<String> {
    let mut t = vec![];
    let ops: Vec<&str> = if r.s("ops") == "-" { vec![] } else { r.s("ops").split(',').collect() };
    t.push(format!("depth={}", ops.len()));
    for o in &ops {
        t.push(format!("op={}", o.split(':').next().unwrap_or("")));
    }
    t.push(format!("src={}", r.s("src").split('.').next().unwrap_or("").trim_end_matches(|c: char| c.is_ascii_digit() || c == ':' || c == '-')));
    t.push(format!("status={}", imp.split(|c| c == ';' || c == ':').next().unwrap_or("")));
    t.push(format!("collector={}/{}", r.s("oc"), r.s("p")));
    t
}
