//! C06: relational runs on the real code — (prefix, whole) bit-for-bit; (history A ++ window,
//! history B ++ window) within rounding, exactly for min/max/arg/rank.
use crate::catalog::*;
use crate::catalog::RollFn;
use crate::cases::*;
use crate::proto::{split_list, Req};
use crate::rng::Rng;

fn inner(r: &Req, xs: &[&str], ys: Option<&[&str]>) -> Req {
    let mut q = Req::parse(&r.s("f").to_string());
    for k in &r.order {
        if !matches!(k.as_str(), "f" | "k" | "xs" | "ys" | "ha" | "hb" | "ga" | "gb") {
            q.set(k, r.kv[k].clone());
        }
    }
    q.set("xs", if xs.is_empty() { "[]".into() } else { xs.join(",") });
    if let Some(ys) = ys {
        q.set("ys", if ys.is_empty() { "[]".into() } else { ys.join(",") });
    }
    q
}

/// C06pre f=<fn> k=<cut> ... xs=.. [ys=..]  →  `EQ` | `DIFF:<pos>` | `P`
/// C06hist f=<fn> ... xs=<tail> ha=<hist A> hb=<hist B> [ys=.. ga=.. gb=..] → `tailA;tailB`
pub fn run(r: &Req) -> Option<String> {
    match r.f.as_str() {
        "C06pre" => {
            let xs = r.list("xs");
            let k = r.usize("k").min(xs.len());
            let two = r.has("ys");
            let ys = r.list("ys");
            let whole = super::run(&inner(r, &xs, if two { Some(&ys) } else { None }))?;
            let pre = super::run(&inner(r, &xs[..k], if two { Some(&ys[..k.min(ys.len())]) } else { None }))?;
            let a = split_list(whole.split(';').next().unwrap_or(""));
            let b = split_list(pre.split(';').next().unwrap_or(""));
            if b.len() != k || a.len() != xs.len() {
                return Some(format!("LEN:{}:{}", a.len(), b.len()));
            }
            for i in 0..k {
                if a[i] != b[i] {
                    return Some(format!("DIFF:{}", i));
                }
            }
            Some("EQ".into())
        },
        "C06hist" => {
            let xs = r.list("xs");
            let (ha, hb) = (r.list("ha"), r.list("hb"));
            let two = r.has("ys");
            let cat = |h: &[&str], t: &[&str]| -> Vec<String> { h.iter().chain(t.iter()).map(|s| s.to_string()).collect() };
            let a = cat(&ha, &xs);
            let b = cat(&hb, &xs);
            let (ya, yb) = if two { (cat(&r.list("ga"), &r.list("ys")), cat(&r.list("gb"), &r.list("ys"))) } else { (vec![], vec![]) };
            fn refs(v: &[String]) -> Vec<&str> { v.iter().map(|s| s.as_str()).collect() }
            let (ra, rb, rya, ryb) = (refs(&a), refs(&b), refs(&ya), refs(&yb));
            let oa = super::run(&inner(r, &ra, if two { Some(&rya) } else { None }))?;
            let ob = super::run(&inner(r, &rb, if two { Some(&ryb) } else { None }))?;
            let w = r.usize("w");
            let from = ha.len() + w.saturating_sub(1);
            let tail = |o: &str| -> String {
                let t = split_list(o.split(';').next().unwrap_or(""));
                if t.len() != a.len() { return format!("LEN:{}", t.len()); }
                let v: Vec<&str> = t[from.min(t.len())..].to_vec();
                if v.is_empty() { "[]".into() } else { v.join(",") }
            };
            Some(format!("{};{}", tail(&oa), tail(&ob)))
        },
        _ => None,
    }
}

/// per-position tolerance of the history-replacement comparison: the conditioning term of the
/// window itself (as `catalog::cond_tols`) plus the residue the one-pass accumulators keep from a
/// pre-window history of magnitude `H`: absolute error ~ eps * n * H^p in the p-th power sum, i.e.
/// ~ eps * n * (H / sd)^p relative to the window's own scale `sd`. A constant window (sd = 0) has
/// no scale to compare against (the EPS floor decides between 0 and noise): skipped (inf).
fn hist_tols(r: &Req, f: &RollFn) -> Vec<f64> {
    let w = r.usize("w").max(1);
    let p = f.pow as f64;
    let xs = r.series("xs");
    let ys = if f.arity == 2 { r.series("ys") } else { vec![] };
    let maxabs = |k: &str| r.series(k).iter().filter_map(|v| *v).fold(0f64, |a, b| a.max(b.abs()));
    let h = maxabs("ha").max(maxabs("hb")).max(maxabs("ga")).max(maxabs("gb"));
    let n_hist = (r.list("ha").len() + xs.len()) as f64;
    let stats = |v: &[Option<f64>], mask: &[bool]| -> (f64, f64, f64) {
        let vals: Vec<f64> = v.iter().zip(mask.iter()).filter(|(_, m)| **m).filter_map(|(x, _)| *x).collect();
        let n = vals.len() as f64;
        if vals.is_empty() {
            return (1.0, 0.0, 0.0);
        }
        let s1: f64 = vals.iter().copied().fold(0.0, |a, b| a + b);
        let s2: f64 = vals.iter().map(|x| x * x).fold(0.0, |a, b| a + b);
        let ex2 = s2 / n;
        let var = (ex2 - (s1 / n) * (s1 / n)).max(0.0);
        let kappa = if var <= 0.0 || ex2 <= 0.0 { 1.0 } else { (ex2 / var).max(1.0) };
        (kappa, var.sqrt(), ex2.sqrt())
    };
    let mut out = vec![];
    for j in (w - 1)..xs.len().max(w - 1) {
        let lo = (j + 1).saturating_sub(w);
        let wx = &xs[lo..=j.min(xs.len() - 1)];
        let (kappa, sd, scale) = if f.arity == 2 && ys.len() == xs.len() {
            let wy = &ys[lo..=j];
            let mask: Vec<bool> = wx.iter().zip(wy.iter()).map(|(a, b)| a.is_some() && b.is_some()).collect();
            let (k1, s1, c1) = stats(wx, &mask);
            let (k2, s2, c2) = stats(wy, &mask);
            (k1.max(k2), s1.min(s2), c1.max(c2))
        } else {
            stats(wx, &vec![true; wx.len()])
        };
        let mut t = 1e-9 + 256.0 * f64::EPSILON * kappa.powf(p / 2.0);
        if h > 0.0 && f.pow >= 1 {
            if sd <= 0.0 && f.pow >= 2 {
                // a constant window: the EPS floor of the moment functions decides between 0 and
                // noise. It decides deterministically (and the output is the model's) when the
                // worst-case residue the history leaves in the second-power sum is below the floor
                let resid = f64::EPSILON * 2.0 * n_hist * (w as f64 + 1.0) * h.max(scale).powi(2);
                t = if f.family == "feat" && resid <= 0.8e-14 { 1e-9 } else { f64::INFINITY };
            } else {
                let denom = if f.pow >= 2 { sd } else { 1.0 };
                t += 64.0 * f64::EPSILON * n_hist * (h.max(scale) / denom).powf(p);
            }
        }
        out.push(t);
    }
    out
}

pub fn compare(r: &Req, imp: &str, model: &str) -> Option<bool> {
    if r.f != "C06hist" {
        return None;
    }
    let Some((a, b)) = imp.split_once(';') else { return Some(false) };
    let f = find(r.s("f"))?;
    if f.exact {
        // exactly not at all: the two runs must agree token for token, and with the model
        if a != b {
            return Some(false);
        }
    }
    let tols = if f.exact { vec![] } else { hist_tols(r, f) };
    // positions whose tolerance is not finite carry no information: blank them on all sides
    let blank = |line: &str| -> String {
        let t: Vec<&str> = crate::proto::split_list(line);
        let v: Vec<String> = t.iter().enumerate().map(|(i, x)| if tols.get(i).map(|z| !z.is_finite()).unwrap_or(false) { "?".to_string() } else { x.to_string() }).collect();
        if v.is_empty() { "[]".into() } else { v.join(",") }
    };
    let mode = crate::cmp::Mode { rel: 1e-9, floor: 1.0, int_out: false, null_is_zero: false };
    let m = model.split(';').next().unwrap_or("");
    let (a, b, m) = (blank(a), blank(b), blank(m));
    let finite: Vec<f64> = tols.iter().map(|t| if t.is_finite() { *t } else { 0.0 }).collect();
    Some(crate::cmp::line_eq_tols(&a, &m, mode, Some(&finite)) && crate::cmp::line_eq_tols(&b, &m, mode, Some(&finite)))
}

pub fn valid_case(r: &Req) -> bool {
    let Some(f) = find(r.s("f")) else { return false };
    let w = r.usize("w");
    if w < 1 {
        return false;
    }
    let xs = r.list("xs");
    if let Some(mp) = r.opt_usize("mp") {
        if mp > w {
            return false;
        }
    } else if f.mp_none_needs_len_ge_w {
        let full = xs.len() + r.list("ha").len();
        let shortest = if r.f == "C06pre" { r.usize("k").min(xs.len()) } else { full };
        if shortest < w {
            return false;
        }
    }
    if r.f == "C06hist" && (r.list("ha").len() != r.list("hb").len() || (f.arity == 2 && (r.list("ga").len() != r.list("ha").len() || r.list("gb").len() != r.list("ha").len() || r.list("ys").len() != xs.len()))) {
        return false;
    }
    if r.f == "C06pre" && f.arity == 2 && r.list("ys").len() != xs.len() {
        return false;
    }
    let no_null = |k: &str| !r.list(k).iter().any(|x| *x == "_");
    if !f.nullable && !(no_null("xs") && no_null("ha") && no_null("hb")) {
        return false;
    }
    true
}

pub fn generate(tier: &str, rng: &mut Rng) -> (Vec<String>, bool) {
    let thorough = tier == "thorough";
    let mut out = vec![];
    let n_pre = if thorough { 4000 } else { 300 };
    let n_hist = if thorough { 3000 } else { 250 };
    for f in ROLL {
        // prefix runs: every cut of random series (all cuts 0..=len)
        for _ in 0..n_pre / 10 {
            let len = rng.below(if thorough { 40 } else { 14 });
            let xs = rand_series(rng, len, 8, false, f.nullable);
            let ys = rand_series(rng, len, 8, false, f.nullable);
            let w = 1 + rng.below(len + 2);
            let mp = if rng.chance(0.3) { None } else { Some(rng.below(w + 1)) };
            for k in 0..=len {
                if mp.is_none() && f.mp_none_needs_len_ge_w && k < w {
                    continue;
                }
                // every third series on a backend that uses the default (iterator) drivers
                let b = if (len + w) % 3 == 0 { " b=deque1" } else if (len + w) % 3 == 1 { " b=ndv2" } else { "" };
                let mut l = format!("C06pre f={} k={} w={} mp={} t=f64 o=f64{} xs={}{}", f.name, k, w, mp_tok(mp), b, join(&xs), f.extra);
                if f.arity == 2 {
                    l.push_str(&format!(" ys={}", join(&ys)));
                }
                out.push(l);
            }
        }
        // history replacement
        for i in 0..n_hist {
            let tl = 1 + rng.below(12);
            let hl = rng.below(if thorough { 200 } else { 40 });
            let w = 1 + rng.below(tl + 1);
            let mp = if rng.chance(0.2) && !(f.mp_none_needs_len_ge_w) { None } else { Some(rng.below(w + 1)) };
            // quick: |v| <= 64 keeps every power sum exact in f64; thorough adds large magnitudes
            let big = thorough && i % 3 == 0;
            // large pre-window magnitudes, bounded so that the residue bound stays informative:
            // up to 2^20 for first-power sums, 2^12 / 2^9 / 2^7 for second / third / fourth powers
            let top = match f.pow { 0 | 1 => 20, 2 => 12, 3 => 9, _ => 7 };
            let mag: i64 = if big { 1 << rng.range(7, top) } else { 64 };
            let tol = 0.0;
            let xs = rand_series(rng, tl, 8, false, f.nullable);
            let ha = rand_series(rng, hl, mag, false, f.nullable);
            let hb = rand_series(rng, hl, mag, false, f.nullable);
            let b = if i % 3 == 0 { " b=deque1" } else if i % 3 == 1 { " b=arcdeque2" } else { "" };
            let mut l = format!("C06hist f={} w={} mp={} t=f64 o=f64{} tol={} xs={} ha={} hb={}{}", f.name, w, mp_tok(mp), b, tol, join(&xs), join(&ha), join(&hb), f.extra);
            if f.arity == 2 {
                let ys = rand_series(rng, tl, 8, false, f.nullable);
                let ga = rand_series(rng, hl, mag, false, f.nullable);
                let gb = rand_series(rng, hl, mag, false, f.nullable);
                l.push_str(&format!(" ys={} ga={} gb={}", join(&ys), join(&ga), join(&gb)));
            }
            out.push(l);
        }
        // signed zeros: `0` and `-0` tie numerically but differ bit for bit, so which of two tied
        // extrema a kernel keeps (incremental update against expiry re-scan) is observable here
        // and must not depend on the pre-window history
        if f.exact {
            for i in 0..(if thorough { 1500 } else { 150 }) {
                let tl = 2 + rng.below(5);
                let w = 1 + rng.below(tl);
                let hl = 1 + rng.below(4);
                let zt = |rng: &mut Rng| -> String {
                    match rng.below(if f.nullable { 8 } else { 7 }) { 0 | 1 | 2 => "0".into(), 3 | 4 | 5 => "-0".into(), 6 => ["1", "-1"][rng.below(2)].into(), _ => "_".into() }
                };
                let hv = |rng: &mut Rng| -> String { ["5", "-5", "0", "-0", "2", "-2", "1", "-1"][rng.below(8)].into() };
                let xs: Vec<String> = (0..tl).map(|_| zt(rng)).collect();
                let ha: Vec<String> = (0..hl).map(|_| hv(rng)).collect();
                let hb: Vec<String> = (0..hl).map(|_| hv(rng)).collect();
                let mp = 1 + rng.below(w);
                let b = if i % 3 == 0 { " b=deque1" } else if i % 3 == 1 { " b=ndv2" } else { "" };
                out.push(format!("C06hist f={} w={} mp={} t=f64 o=f64{} tol=0 xs={} ha={} hb={}{}", f.name, w, mp, b, join(&xs), join(&ha), join(&hb), f.extra));
            }
        }
        // a constant tail behind a short history of decimal fractions (not representable, so the
        // running sums keep a residue): the variance floor must still give the constant-window result
        if f.family == "feat" && f.pow >= 2 {
            for i in 0..(if thorough { 400 } else { 40 }) {
                let w = 2 + rng.below(3);
                let tl = w + rng.below(4);
                let hl = 1 + rng.below(8);
                let c = ["0", "3/10", "-1/5", "1/2"][i % 4];
                let frac = |rng: &mut Rng| -> String {
                    let k = rng.range(-5, 5);
                    if k == 0 { "0".into() } else if k % 5 == 0 { format!("{}/2", k / 5) } else if k % 2 == 0 { format!("{}/5", k / 2) } else { format!("{}/10", k) }
                };
                let xs: Vec<String> = (0..tl).map(|_| c.to_string()).collect();
                let ha: Vec<String> = (0..hl).map(|_| frac(rng)).collect();
                let hb: Vec<String> = (0..hl).map(|_| frac(rng)).collect();
                let mp = [w, w - 1, 1][i % 3];
                let b = if i % 3 == 0 { " b=deque1" } else { "" };
                out.push(format!("C06hist f={} w={} mp={} t=f64 o=f64{} tol=0 xs={} ha={} hb={}{}", f.name, w, mp, b, join(&xs), join(&ha), join(&hb), f.extra));
            }
        }
    }
    (out, false)
}

pub fn rule(tier: &str) -> String {
    format!("relational runs on the real code for all {} catalogued rolling entry points (on Vec, VecDeque with a wrapped ring buffer, Arc<VecDeque> and a strided ndarray view in rotation): (a) prefix runs — for random series every cut 0..=len, prefix result compared token-for-token (full-precision floats, i.e. bit-for-bit) with the prefix of the whole result; (b) history replacement — two random pre-window histories of equal length (up to {}) in front of the same tail, outputs from position |h|+w-1 on compared with each other (exactly for min/max/arg/rank) and with the Lean model; (c) for the 8 moment functions with a variance floor (std, var, skew, kurt, both forms): a constant tail behind two histories of decimal fractions |v| <= 1/2 (length <= 8, so the residue they leave in the running sums is provably below the floor) — both runs must give the model's constant-window result. non-trivial = distinct request with a non-null output.", ROLL.len(), if tier == "thorough" { "200, magnitudes up to 2^20 with a scaled tolerance" } else { "40, |v| <= 64 so power sums are exact" })
}
