//! C14: `vcut` binning and `vsorted_unique_idx` / `vsorted_unique` run de-duplication
//! (tea-map/src/valid_iter.rs) on the real code.
//!
//! Request lines
//!   vcut t=<i32|oi32|f64> lt=<i32|oi32|f64> xs=.. bins=.. labels=.. right=0|1 ab=0|1
//!   vsorted_unique_idx t=<i32|oi32|f64> keep=first|last xs=..
//!   vsorted_unique     t=<i32|oi32|f64> xs=..
//! Value tokens: small integers, `_` (null), and `m`, `m1`, `M1`, `M` = the element type's
//! minimum, its successor, the predecessor of its maximum, its maximum.
use crate::proto::Req;
use crate::rng::Rng;
pub use imp::run;

pub const EXT: &[&str] = &["m", "m1", "M1", "M"];

/// position of a value token on the common order of all element types (`m < m1 < ints < M1 < M`)
pub fn rank(tok: &str) -> Option<i64> {
    match tok {
        "m" => Some(i64::MIN),
        "m1" => Some(i64::MIN + 1),
        "M1" => Some(i64::MAX - 1),
        "M" => Some(i64::MAX),
        "ni" => Some(i64::MIN),
        "pi" => Some(i64::MAX),
        "_" => None,
        s => s.parse::<i64>().ok().filter(|v| v.abs() < 1_000_000),
    }
}

mod imp {
use tevec::prelude::*;

use crate::proto::{show_list, Req};

/// element types under test
pub trait Elem: Clone {
    fn from_tok(s: &str) -> Self;
    fn to_tok(&self) -> String;
}
impl Elem for i32 {
    fn from_tok(s: &str) -> Self {
        match s {
            "m" => i32::MIN,
            "m1" => i32::MIN + 1,
            "M1" => i32::MAX - 1,
            "M" => i32::MAX,
            "_" => panic!("null in an i32 series"),
            s => s.parse().expect("bad integer token"),
        }
    }
    fn to_tok(&self) -> String {
        format!("{}", self)
    }
}
impl Elem for Option<i32> {
    fn from_tok(s: &str) -> Self {
        if s == "_" { None } else { Some(<i32 as Elem>::from_tok(s)) }
    }
    fn to_tok(&self) -> String {
        match self {
            None => "_".into(),
            Some(v) => format!("{}", v),
        }
    }
}
impl Elem for f64 {
    fn from_tok(s: &str) -> Self {
        match s {
            "m" => f64::MIN,
            "m1" => -f64::from_bits(f64::MAX.to_bits() - 1),
            "M1" => f64::from_bits(f64::MAX.to_bits() - 1),
            "M" => f64::MAX,
            "ni" => f64::NEG_INFINITY,
            "pi" => f64::INFINITY,
            "_" => f64::NAN,
            s => s.parse::<i64>().expect("bad integer token") as f64,
        }
    }
    fn to_tok(&self) -> String {
        if self.is_nan() {
            "_".into()
        } else if self.fract() == 0. && self.abs() < 1e15 {
            format!("{}", *self as i64)
        } else {
            format!("f:{:e}", self)
        }
    }
}

fn elems<T: Elem>(r: &Req, k: &str) -> Vec<T> {
    r.list(k).into_iter().map(T::from_tok).collect()
}

fn err_tok(e: &TError) -> String {
    let msg = format!("{}", e);
    if msg.contains("not in bins") {
        "E:outside".into()
    } else if msg.contains("Number of labels") {
        "E:labels".into()
    } else {
        format!("E:?{}", msg.replace(|c: char| c == ',' || c == ';' || c == ' ', "."))
    }
}

/// the `HomogeneousTuple` bound of `vcut` lives in itertools' `traits` module; keep the call
/// monomorphic in the element type so the harness does not have to name itertools itself
mod cut_call {
    use super::*;
    pub trait CutCall<L: IsNone>: IsNone + Sized {
        fn call(xs: Vec<Self>, bins: &Vec<Self>, labels: &Vec<L>, right: bool, ab: bool, oc: &str, cm: &str) -> TResult<Vec<TResult<L>>>;
    }
    /// the fallible collectors into an output container: the first `Err` item is the result
    fn collect_into<O: Vec1<L>, L: IsNone + Clone + std::fmt::Debug, I: TrustedLen<Item = TResult<L>>>(it: I, cm: &str) -> TResult<Vec<TResult<L>>> {
        let o: O = if cm == "trusted" { it.try_collect_trusted_vec1()? } else { it.try_collect_vec1()? };
        Ok(o.titer().map(Ok).collect())
    }
    macro_rules! cut_call {
        ($($t:ty),*) => { $(
            impl<L: IsNone + Clone + std::fmt::Debug> CutCall<L> for $t {
                fn call(xs: Vec<Self>, bins: &Vec<Self>, labels: &Vec<L>, right: bool, ab: bool, oc: &str, cm: &str) -> TResult<Vec<TResult<L>>> {
                    let it = xs.titer().vcut(bins, labels, right, ab)?;
                    match oc {
                        "vec" => collect_into::<Vec<L>, L, _>(it, cm),
                        "deque" => collect_into::<std::collections::VecDeque<L>, L, _>(it, cm),
                        "nd" => collect_into::<crate::backends::Array1<L>, L, _>(it, cm),
                        _ => Ok(it.collect::<Vec<TResult<L>>>()),
                    }
                }
            }
        )* };
    }
    cut_call!(i32, Option<i32>, f64);

    pub fn vcut_dyn<T: CutCall<L>, L: IsNone>(xs: Vec<T>, bins: &Vec<T>, labels: &Vec<L>, right: bool, ab: bool, oc: &str, cm: &str) -> TResult<Vec<TResult<L>>> {
        T::call(xs, bins, labels, right, ab, oc, cm)
    }
}

fn cut_t<T>(r: &Req) -> String
where
    T: Elem + IsNone + cut_call::CutCall<i32> + cut_call::CutCall<Option<i32>> + cut_call::CutCall<f64>,
{
    let xs: Vec<T> = elems(r, "xs");
    let bins: Vec<T> = elems(r, "bins");
    fn fin<L: Elem>(res: TResult<Vec<TResult<L>>>) -> String {
        match res {
            Err(e) => err_tok(&e),
            Ok(items) => show_list(&items, |it| match it {
                Ok(l) => l.to_tok(),
                Err(e) => err_tok(e),
            }),
        }
    }
    let (right, ab) = (r.bool("right"), r.bool("ab"));
    match r.s("lt") {
        "i32" => fin(cut_call::vcut_dyn::<T, i32>(xs, &bins, &elems(r, "labels"), right, ab, r.s("oc"), r.s("cm"))),
        "f64" => fin(cut_call::vcut_dyn::<T, f64>(xs, &bins, &elems(r, "labels"), right, ab, r.s("oc"), r.s("cm"))),
        _ => fin(cut_call::vcut_dyn::<T, Option<i32>>(xs, &bins, &elems(r, "labels"), right, ab, r.s("oc"), r.s("cm"))),
    }
}

fn uniq_idx<T: Elem + IsNone + 'static>(r: &Req) -> String
where
    T::Inner: PartialEq + std::fmt::Debug,
{
    let xs: Vec<T> = elems(r, "xs");
    let keep = if r.s("keep") == "last" { Keep::Last } else { Keep::First };
    let out: Vec<usize> = xs.titer().vsorted_unique_idx(keep).collect();
    show_list(&out, |i| i.to_string())
}

fn uniq_val<T: Elem + IsNone + 'static>(r: &Req) -> String
where
    T::Inner: PartialEq,
{
    let xs: Vec<T> = elems(r, "xs");
    let out: Vec<T> = xs.titer().vsorted_unique().collect();
    show_list(&out, |v| v.to_tok())
}

pub fn run(r: &Req) -> Option<String> {
    let t = if r.s("t").is_empty() { "oi32" } else { r.s("t") };
    macro_rules! by_type {
        ($f:ident) => {
            match t {
                "i32" => $f::<i32>(r),
                "f64" => $f::<f64>(r),
                _ => $f::<Option<i32>>(r),
            }
        };
    }
    match r.f.as_str() {
        "vcut" => Some(by_type!(cut_t)),
        "vsorted_unique_idx" => Some(by_type!(uniq_idx)),
        "vsorted_unique" => Some(by_type!(uniq_val)),
        _ => None,
    }
}
}

fn is_cut(r: &Req) -> bool {
    r.f == "vcut"
}

/// inside the property's quantifier?
/// * `vcut`: edges non-null and ascending (non-strict); nulls only for nullable element types
///   (a null value with a label type that has no null is known finding F34, see `known_finding`).
/// * `vsorted_unique_idx(First)` / `vsorted_unique`: equal values are adjacent in the sense that no
///   block of nulls separates two equal values (`a, _, a`); Keep::Last: every input.
pub fn valid_case(r: &Req) -> bool {
    let t = r.s("t");
    let xs = r.list("xs");
    if t == "i32" && xs.iter().any(|x| *x == "_") {
        return false;
    }
    if xs.iter().any(|x| *x != "_" && rank(x).is_none()) {
        return false;
    }
    if is_cut(r) {
        let bins: Vec<Option<i64>> = r.list("bins").into_iter().map(rank).collect();
        if bins.iter().any(|b| b.is_none()) {
            return false;
        }
        if bins.windows(2).any(|w| w[0] > w[1]) {
            return false;
        }
        if r.list("labels").iter().any(|l| l.parse::<i32>().is_err()) {
            return false;
        }
        return true;
    }
    if xs.iter().any(|x| EXT.contains(x)) {
        return false;
    }
    if r.f == "vsorted_unique" || r.s("keep") != "last" {
        // no `a, _+, a`
        let mut last_valid: Option<&str> = None;
        let mut gap = false;
        for x in &xs {
            if *x == "_" {
                gap = true;
            } else {
                if gap && last_valid == Some(*x) {
                    return false;
                }
                last_valid = Some(*x);
                gap = false;
            }
        }
    }
    true
}

/// F34: a null value with a label type that has no null representation (`lt=i32`) panics in
/// `T2::none()`. Exactly that class: `vcut`, `lt=i32`, the label count matches (otherwise the call
/// returns `E:labels` first), at least one null value, and the observed outcome is that panic.
pub fn known_finding(r: &Req, imp: &str, spec: &str) -> Option<String> {
    if is_cut(r) && r.s("lt") == "i32" && r.list("xs").iter().any(|x| *x == "_") && spec != "E:labels" && imp.starts_with("P:Cannot call none()") {
        Some("F34".to_string())
    } else {
        None
    }
}

fn join(v: &[String]) -> String {
    if v.is_empty() { "[]".into() } else { v.join(",") }
}

/// all non-decreasing vectors of length `k` over `grid`
fn ascending(grid: &[&str], k: usize) -> Vec<Vec<String>> {
    fn rec(grid: &[&str], k: usize, from: usize, cur: &mut Vec<String>, out: &mut Vec<Vec<String>>) {
        if cur.len() == k {
            out.push(cur.clone());
            return;
        }
        for i in from..grid.len() {
            cur.push(grid[i].to_string());
            rec(grid, k, i, cur, out);
            cur.pop();
        }
    }
    let mut out = vec![];
    rec(grid, k, 0, &mut vec![], &mut out);
    out
}

/// all series of length `n` over `alpha`
fn all_series(alpha: &[&str], n: usize) -> Vec<Vec<String>> {
    let mut out: Vec<Vec<String>> = vec![vec![]];
    for _ in 0..n {
        let mut nx = vec![];
        for s in &out {
            for a in alpha {
                let mut s2 = s.clone();
                s2.push(a.to_string());
                nx.push(s2);
            }
        }
        out = nx;
    }
    out
}

const GRID: &[&str] = &["m", "m1", "-1", "0", "1", "M1", "M"];

pub fn generate(tier: &str, rng: &mut Rng) -> (Vec<String>, bool) {
    let thorough = tier == "thorough";
    let mut out = vec![];
    let labels_of = |n: usize| join(&(0..n).map(|i| (10 + i).to_string()).collect::<Vec<_>>());

    // ---- vcut, exhaustive: every ascending edge vector of size 0..=5 over the 7-point grid, 0..=6
    // labels, both closedness flags, both bound modes; the value series holds every grid value (so
    // every value equal to an edge, the extremes and their neighbours) and a null
    let xs_null = "m,m1,-1,0,1,M1,M,_";
    let xs_plain = "m,m1,-1,0,1,M1,M";
    for k in 0..=5usize {
        for bins in ascending(GRID, k) {
            for nl in 0..=6usize {
                for right in [1, 0] {
                    for ab in [1, 0] {
                        let matching = if ab == 1 { nl == k + 1 } else { nl + 1 == k };
                        for (t, lt, xs) in [("oi32", "oi32", xs_null), ("f64", "f64", xs_null), ("i32", "i32", xs_plain), ("f64", "oi32", xs_null), ("oi32", "f64", xs_null)] {
                            // the mixed value/label type pairs only where labels are produced
                            if t != lt && !matching {
                                continue;
                            }
                            out.push(format!("vcut t={} lt={} xs={} bins={} labels={} right={} ab={}", t, lt, xs, join(&bins), labels_of(nl), right, ab));
                        }
                    }
                }
            }
        }
    }
    // a null value with a label type without a null (known finding F34)
    for (bins, nl) in [("[]", 1), ("0", 2), ("0", 1), ("-1,1", 3)] {
        for right in [1, 0] {
            for t in ["oi32", "f64"] {
                out.push(format!("vcut t={} lt=i32 xs=0,_,1 bins={} labels={} right={} ab=1", t, bins, labels_of(nl), right));
            }
        }
    }
    // degenerate value series
    // the infinities of the float type are non-null values: labelled under open outer bounds,
    // outside every bin otherwise
    for bins in ["[]", "0", "-1,1", "m,0", "0,M", "m,M", "m,-1,0,1,M"] {
        let nb = if bins == "[]" { 0 } else { bins.split(',').count() };
        for right in [1, 0] {
            for ab in [1, 0] {
                let nl = if ab == 1 { nb + 1 } else { nb.saturating_sub(1) };
                out.push(format!("vcut t=f64 lt=f64 xs=ni,m,0,_,M,pi bins={} labels={} right={} ab={}", bins, labels_of(nl), right, ab));
                out.push(format!("vcut t=f64 lt=oi32 xs=pi,ni bins={} labels={} right={} ab={}", bins, labels_of(nl), right, ab));
            }
        }
    }
    for xs in ["[]", "_", "_,_"] {
        for (bins, nl) in [("[]", 0), ("[]", 1), ("0", 0), ("0", 2), ("0,1", 1), ("0,1", 3)] {
            for right in [1, 0] {
                for ab in [1, 0] {
                    for t in ["oi32", "f64"] {
                        out.push(format!("vcut t={} lt={} xs={} bins={} labels={} right={} ab={}", t, t, xs, bins, labels_of(nl), right, ab));
                    }
                }
            }
        }
    }

    // ---- run de-duplication, exhaustive: every series over {null, 0, 1, 2} up to length 6 (7 in
    // thorough) that is inside the quantifier, for the three operations
    let maxn = if thorough { 7 } else { 6 };
    let push_unique = |out: &mut Vec<String>, t: &str, xs: &str| {
        for f in ["vsorted_unique_idx keep=first", "vsorted_unique_idx keep=last", "vsorted_unique"] {
            let (name, rest) = f.split_once(' ').map(|(a, b)| (a, format!(" {}", b))).unwrap_or((f, String::new()));
            let l = format!("{} t={}{} xs={}", name, t, rest, xs);
            if valid_case(&Req::parse(&l)) {
                out.push(l);
            }
        }
    };
    for n in 0..=maxn {
        for s in all_series(&["_", "0", "1", "2"], n) {
            let xs = join(&s);
            for t in ["oi32", "f64", "i32"] {
                push_unique(&mut out, t, &xs);
            }
        }
    }
    // sorted ascending / descending inputs: 0..=3 (4) distinct values with every run length 1..=4,
    // null blocks of length 0..=2 at the head and at the tail
    let maxd = if thorough { 4 } else { 3 };
    for d in 0..=maxd {
        let mut lens: Vec<Vec<usize>> = vec![vec![]];
        for _ in 0..d {
            lens = lens.into_iter().flat_map(|l| (1..=4).map(move |k| { let mut l2 = l.clone(); l2.push(k); l2 })).collect();
        }
        for rl in lens {
            for desc in [false, true] {
                for h in 0..=2usize {
                    for tl in 0..=2usize {
                        let mut s: Vec<String> = vec!["_".to_string(); h];
                        for (j, k) in rl.iter().enumerate() {
                            let v = if desc { (d - j) as i64 * 3 - 5 } else { j as i64 * 3 - 5 };
                            for _ in 0..*k {
                                s.push(v.to_string());
                            }
                        }
                        s.extend(vec!["_".to_string(); tl]);
                        let xs = join(&s);
                        for t in ["oi32", "f64", "i32"] {
                            push_unique(&mut out, t, &xs);
                        }
                    }
                }
            }
        }
    }

    // ---- random stream
    let n_rand = if thorough { 600_000 } else { 8_000 };
    for _ in 0..n_rand {
        if rng.chance(0.5) {
            // vcut: random ascending edges from a wider grid, random values incl. edges and extremes
            let k = rng.below(7);
            let mut e: Vec<i64> = (0..k).map(|_| rng.range(-6, 6)).collect();
            e.sort();
            let mut bins: Vec<String> = e.iter().map(|v| v.to_string()).collect();
            if k > 0 && rng.chance(0.2) {
                bins[0] = (*rng.pick(&["m", "m1"])).to_string();
            }
            if k > 1 && rng.chance(0.2) {
                bins[k - 1] = (*rng.pick(&["M", "M1"])).to_string();
            }
            let ab = rng.below(2);
            let nl = if rng.chance(0.85) { if ab == 1 { k + 1 } else { k.saturating_sub(1) } } else { rng.below(8) };
            let (t, lt) = *rng.pick(&[("oi32", "oi32"), ("f64", "f64"), ("i32", "i32"), ("f64", "oi32"), ("oi32", "f64"), ("i32", "oi32")]);
            let n = rng.below(13);
            let xs: Vec<String> = (0..n).map(|_| {
                let c = rng.below(10);
                if c == 0 && t != "i32" { "_".to_string() }
                else if c == 1 { (*rng.pick(EXT)).to_string() }
                else if c < 5 && k > 0 { bins[rng.below(k)].clone() }
                else { rng.range(-8, 8).to_string() }
            }).collect();
            let l = format!("vcut t={} lt={} xs={} bins={} labels={} right={} ab={}", t, lt, join(&xs), join(&bins), labels_of(nl), rng.below(2), ab);
            if valid_case(&Req::parse(&l)) {
                out.push(l);
            }
        } else {
            // sorted input with random runs, null blocks at the head / tail (and, for Keep::Last,
            // occasionally in the middle)
            let d = rng.below(8);
            let desc = rng.chance(0.5);
            let mut s: Vec<String> = vec!["_".to_string(); if rng.chance(0.5) { rng.below(4) } else { 0 }];
            let mut v = rng.range(-20, 20);
            for _ in 0..d {
                for _ in 0..1 + rng.below(5) {
                    s.push(v.to_string());
                }
                if rng.chance(0.1) {
                    s.push("_".to_string());
                }
                v += if desc { -(1 + rng.below(3) as i64) } else { 1 + rng.below(3) as i64 };
            }
            s.extend(vec!["_".to_string(); if rng.chance(0.5) { rng.below(4) } else { 0 }]);
            let t = *rng.pick(&["oi32", "f64", "i32"]);
            push_unique(&mut out, t, &join(&s));
        }
    }
    (out, true)
}

pub fn rule(tier: &str) -> String {
    let thorough = tier == "thorough";
    format!(
        "exhaustive: vcut on every non-decreasing edge vector of size 0..=5 over the grid {{MIN, MIN+eps, -1, 0, 1, MAX-eps, MAX}} x 0..=6 labels x right/left-closed x open/closed outer bounds, value series = every grid value and a null, element/label types Option<i32>, f64 (NaN null), i32 (+ mixed value/label types where the label count matches; + null values with i32 labels = known finding F34); \
         vsorted_unique_idx(First), vsorted_unique_idx(Last), vsorted_unique on every series over {{null,0,1,2}} of length 0..={} inside the quantifier (First/values: no null block between two equal values; Last: all) and on every sorted ascending/descending series of 0..={} distinct values with run lengths 1..=4 and null blocks 0..=2 at head and tail, element types Option<i32>, f64, i32 (null-free only). \
         then {} random cases (wider edge grid, values on edges/extremes; longer sorted series with random runs). non-trivial = at least two input values and a non-null output token.",
        if thorough { 7 } else { 6 },
        if thorough { 4 } else { 3 },
        if thorough { 600_000 } else { 8_000 }
    )
}

pub fn tags(r: &Req, imp: &str) -> Vec<String> {
    let mut t = vec![];
    if is_cut(r) {
        t.push(format!("right={}", r.s("right")));
        t.push(format!("ab={}", r.s("ab")));
        t.push(format!("lt={}", r.s("lt")));
        t.push(format!("edges={}", r.list("bins").len()));
        if imp == "E:labels" {
            t.push("err-labels".into());
        } else {
            if imp.contains("E:outside") {
                t.push("err-outside".into());
            }
            if imp.split(',').any(|x| x.parse::<i64>().is_ok()) {
                t.push("labelled".into());
            }
        }
    } else {
        if r.has("keep") {
            t.push(format!("keep={}", r.s("keep")));
        }
        let xs = r.list("xs");
        if xs.first() == Some(&"_") {
            t.push("head-null".into());
        }
        if xs.last() == Some(&"_") {
            t.push("tail-null".into());
        }
    }
    t
}
