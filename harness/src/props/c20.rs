//! C20: composite analytics — `winsorize` (tevec/src/map.rs), Spearman `vcorr` and `half_life`
//! (tevec/src/agg.rs).
//!
//! * `half_life`: the request carries, besides the series, the classification `c=` of the real lag
//!   autocorrelations (`vcorr_pearson ∘ vshift`, computed with the library at generation time:
//!   `a` above 0.5, `b` below, `h` exactly 0.5, `n` NaN, one character per lag `1..=len`); the Lean
//!   model runs the transcribed doubling + bisection loops on that oracle, the Lean spec searches
//!   the first not-above lag linearly. `valid_case` re-derives `c` from the series, so a shrunk
//!   request can never carry a stale oracle.
//! * `winsorize`: every case is run twice — once with the model computing the bounds itself, once
//!   with the real bounds (`lo=`, `hi=`: exact binary expansion of the f64 values obtained from the
//!   library's `vquantile` / `vmedian` / `vmean_var`) handed to the model's `vclip`.
//! * `vcorr_spearman`: optional strictly increasing transforms `tx`, `ty` (0 id, 1 `2x+1`, 2 `x³`,
//!   3 `exp`) are applied to the series before the call; the spec ignores them.
use crate::cases::*;
use crate::proto::{rat_to_f64, Req};
use crate::rng::Rng;
pub use imp::run;

/// calls into the repository; the only module that imports the prelude
mod imp {
use std::sync::mpsc;
use std::time::Duration;

use tevec::prelude::*;

use crate::proto::{toks, Req, Tok};

fn cls(corr: f64) -> char {
    if corr.is_nan() {
        'n'
    } else if corr > 0.5 {
        'a'
    } else if corr < 0.5 {
        'b'
    } else {
        'h'
    }
}

fn oracle_t<T>(v: &Vec<T>, mp: Option<usize>) -> String
where
    T: IsNone + Clone,
    T::Inner: Number,
{
    let len = v.len();
    let min_periods = mp.unwrap_or(len / 2);
    (1..=len)
        .map(|lag| {
            let corr: f64 = v.titer().vcorr_pearson(v.titer().vshift(lag as i32, None), min_periods);
            cls(corr)
        })
        .collect()
}

/// classification of the real lag autocorrelations for lags `1..=len` (`-` for the empty series)
pub fn oracle(xs: &[Option<f64>], t: &str, mp: Option<usize>) -> String {
    let s = match t {
        "of64" => oracle_t(&crate::types::as_of64(xs), mp),
        "oi32" => oracle_t(&crate::types::as_oi32(xs), mp),
        // i32 has no null for `vshift` to fill with (known finding F34): classify the f64 copy
        _ => oracle_t(&crate::types::as_f64(xs), mp),
    };
    if s.is_empty() { "-".into() } else { s }
}

/// run `half_life` on its own thread: a panic is the outcome `P`, no answer within 5 s is `T`
fn half_life_t<T>(v: Vec<T>, mp: Option<usize>) -> String
where
    T: IsNone + Clone + Send + 'static,
    T::Inner: Number,
{
    let (tx, rx) = mpsc::channel();
    std::thread::spawn(move || {
        let r = v.half_life(mp);
        let _ = tx.send(r);
    });
    match rx.recv_timeout(Duration::from_secs(5)) {
        Ok(r) => r.to_string(),
        Err(mpsc::RecvTimeoutError::Disconnected) => "P".into(),
        Err(mpsc::RecvTimeoutError::Timeout) => {
            // the abandoned thread keeps spinning: end this child after the answer
            crate::engine::EXIT_AFTER_ANSWER.store(true, std::sync::atomic::Ordering::SeqCst);
            "T".into()
        },
    }
}

fn wins_t<T>(v: &Vec<T>, m: WinsorizeMethod, p: Option<f64>) -> String
where
    T: IsNone + Cast<f64>,
    T::Inner: Number,
{
    match v.winsorize(m, p) {
        Ok(it) => {
            let out: Vec<f64> = it.collect();
            toks(&out)
        },
        Err(_) => "E".into(),
    }
}

fn method(m: &str) -> WinsorizeMethod {
    match m {
        "q" => WinsorizeMethod::Quantile,
        "m" => WinsorizeMethod::Median,
        _ => WinsorizeMethod::Sigma,
    }
}

/// the interval `winsorize` clips to, obtained from the library's own aggregations
/// (NaN, NaN = pass-through branch)
pub fn bounds(xs: &[Option<f64>], m: &str, p: Option<f64>) -> (f64, f64) {
    let v = crate::types::as_f64(xs);
    match m {
        "q" => {
            let q = p.unwrap_or(0.01);
            let lo = v.vquantile(q, QuantileMethod::Linear).unwrap_or(f64::NAN);
            let hi = v.vquantile(1. - q, QuantileMethod::Linear).unwrap_or(f64::NAN);
            (lo, hi)
        },
        "m" => {
            let k = p.unwrap_or(3.);
            let median = v.vmedian();
            if median.is_nan() {
                return (f64::NAN, f64::NAN);
            }
            let dev: Vec<f64> = v.iter().map(|x| (x - median).abs()).collect();
            let mad = dev.vmedian();
            (median - k * mad, median + k * mad)
        },
        _ => {
            let k = p.unwrap_or(3.);
            let (mean, var) = v.titer().vmean_var(2);
            if !mean.is_nan() && !var.is_nan() && var > 1e-14 {
                let std = var.sqrt();
                (mean - k * std, mean + k * std)
            } else {
                (f64::NAN, f64::NAN)
            }
        },
    }
}

fn transform(k: usize, x: f64) -> f64 {
    match k {
        1 => 2. * x + 1.,
        2 => x * x * x,
        3 => x.exp(),
        _ => x,
    }
}

fn spearman_t<T>(a: &Vec<T>, b: &Vec<T>, mp: Option<usize>) -> String
where
    T: IsNone + PartialEq + PartialOrd + Clone,
    T::Inner: Number + Zero,
    T::Cast<f64>: Tok,
    f64: Cast<T::Cast<f64>>,
{
    a.vcorr(b, mp, CorrMethod::Spearman).tok()
}

pub fn run(r: &Req) -> Option<String> {
    let t = crate::types::elem_type(r);
    match r.f.as_str() {
        "half_life" => {
            let xs = r.series("xs");
            let mp = r.opt_usize("mp");
            Some(match t {
                "of64" => half_life_t(crate::types::as_of64(&xs), mp),
                "oi32" => half_life_t(crate::types::as_oi32(&xs), mp),
                "i32" => half_life_t(crate::types::as_i32(&xs), mp),
                _ => half_life_t(crate::types::as_f64(&xs), mp),
            })
        },
        "winsorize" => {
            let xs = r.series("xs");
            let p = if r.s("p") == "-" { None } else { r.opt_f64("p") };
            let m = method(r.s("m"));
            Some(match t {
                "of64" => wins_t(&crate::types::as_of64(&xs), m, p),
                "i32" => wins_t(&crate::types::as_i32(&xs), m, p),
                _ => wins_t(&crate::types::as_f64(&xs), m, p),
            })
        },
        "vcorr_spearman" => {
            let (tx, ty) = (r.usize("tx"), r.usize("ty"));
            let xs: Vec<Option<f64>> = r.series("xs").into_iter().map(|x| x.map(|v| transform(tx, v))).collect();
            let ys: Vec<Option<f64>> = r.series("ys").into_iter().map(|x| x.map(|v| transform(ty, v))).collect();
            let mp = r.opt_usize("mp");
            Some(match t {
                "of64" => spearman_t(&crate::types::as_of64(&xs), &crate::types::as_of64(&ys), mp),
                "i32" => spearman_t(&crate::types::as_i32(&xs), &crate::types::as_i32(&ys), mp),
                _ => spearman_t(&crate::types::as_f64(&xs), &crate::types::as_f64(&ys), mp),
            })
        },
        _ => None,
    }
}
}

/* ---------- exact binary expansion of an f64 as `p/q` ---------- */

/// decimal string of `m * 2^k` (`k >= 0`)
fn mul_pow2_dec(m: u64, k: u32) -> String {
    // little-endian base 1e9
    let mut d: Vec<u64> = vec![m % 1_000_000_000, m / 1_000_000_000 % 1_000_000_000, m / 1_000_000_000_000_000_000];
    for _ in 0..k {
        let mut carry = 0u64;
        for x in d.iter_mut() {
            let v = *x * 2 + carry;
            *x = v % 1_000_000_000;
            carry = v / 1_000_000_000;
        }
        if carry > 0 {
            d.push(carry);
        }
    }
    while d.len() > 1 && *d.last().unwrap() == 0 {
        d.pop();
    }
    let mut s = format!("{}", d.last().unwrap());
    for x in d.iter().rev().skip(1) {
        s.push_str(&format!("{:09}", x));
    }
    s
}

/// the exact rational value of a finite f64 (`_` for NaN)
pub fn f64_exact(x: f64) -> String {
    if x.is_nan() {
        return "_".into();
    }
    assert!(x.is_finite(), "infinite bound");
    if x == 0. {
        return "0".into();
    }
    let bits = x.to_bits();
    let neg = bits >> 63 != 0;
    let e = ((bits >> 52) & 0x7ff) as i64;
    let frac = bits & ((1u64 << 52) - 1);
    let (mut m, mut ex) = if e == 0 { (frac, -1074i64) } else { (frac | (1u64 << 52), e - 1075) };
    while m % 2 == 0 {
        m /= 2;
        ex += 1;
    }
    let sign = if neg { "-" } else { "" };
    if ex >= 0 {
        format!("{}{}", sign, mul_pow2_dec(m, ex as u32))
    } else {
        format!("{}{}/{}", sign, m, mul_pow2_dec(1, (-ex) as u32))
    }
}

/* ---------- request construction ---------- */

fn series_of(xs: &[String]) -> Vec<Option<f64>> {
    xs.iter().map(|s| rat_to_f64(s)).collect()
}

fn has_null(xs: &[String]) -> bool {
    xs.iter().any(|x| x == "_")
}

fn all_int(xs: &[String]) -> bool {
    xs.iter().all(|x| x != "_" && !x.contains('/'))
}

/// element type for the `k`-th case of a stream: f64 / Option<f64>, and i32 where representable
fn pick_type(xs: &[String], k: usize) -> &'static str {
    if all_int(xs) && k % 3 == 2 {
        "i32"
    } else if k % 3 == 1 {
        "of64"
    } else {
        "f64"
    }
}

/// element type for the `k`-th half_life case: f64 / Option<f64> / Option<i32> (integers only)
fn hl_type(xs: &[String], k: usize) -> &'static str {
    let ints = xs.iter().all(|x| !x.contains('/'));
    if ints && k % 3 == 2 {
        "oi32"
    } else if k % 3 == 1 {
        "of64"
    } else {
        "f64"
    }
}

fn push_half_life(out: &mut Vec<String>, xs: &[String], mp: Option<usize>, t: &str) {
    let c = imp::oracle(&series_of(xs), t, mp);
    out.push(format!("half_life t={} mp={} len={} xs={} c={}", t, mp_tok(mp), xs.len(), join(xs), c));
}

fn push_winsorize(out: &mut Vec<String>, xs: &[String], m: &str, p: Option<&str>, t: &str, with_bounds: bool) {
    let mut l = format!("winsorize m={} p={} t={} xs={}", m, p.unwrap_or("-"), t, join(xs));
    if with_bounds {
        let (lo, hi) = imp::bounds(&series_of(xs), m, p.and_then(rat_to_f64));
        l.push_str(&format!(" lo={} hi={}", f64_exact(lo), f64_exact(hi)));
    }
    out.push(l);
}

fn push_spearman(out: &mut Vec<String>, xs: &[String], ys: &[String], mp: Option<usize>, t: &str, tx: usize, ty: usize) {
    out.push(format!("vcorr_spearman t={} mp={} tx={} ty={} xs={} ys={}", t, mp_tok(mp), tx, ty, join(xs), join(ys)));
}

fn eighth(x: f64) -> String {
    let k = (x * 8.).round().clamp(-512., 512.) as i64;
    if k % 8 == 0 {
        format!("{}", k / 8)
    } else {
        let g = if k % 4 == 0 { 4 } else if k % 2 == 0 { 2 } else { 1 };
        format!("{}/{}", k / g, 8 / g)
    }
}

fn unif(rng: &mut Rng) -> f64 {
    (rng.next() >> 11) as f64 / (1u64 << 53) as f64 * 2. - 1.
}

const PHIS: &[f64] = &[-0.9, -0.5, 0., 0.3, 0.5, 0.7, 0.8, 0.9, 0.95, 0.99, 1.0];

/// structured paths: AR(1) with every persistence (phi = 1: random walk), trend + noise, constant,
/// alternating, sawtooth; optionally with nulls
fn rand_path(rng: &mut Rng, len: usize) -> Vec<String> {
    let kind = rng.below(10);
    let mut v: Vec<f64> = Vec::with_capacity(len);
    match kind {
        0..=5 => {
            let phi = *rng.pick(PHIS);
            let scale = [0.5, 2., 8.][rng.below(3)];
            let mut x = 0.;
            for _ in 0..len {
                x = phi * x + scale * unif(rng);
                x = f64::clamp(x, -64., 64.);
                v.push(x);
            }
        },
        6 => {
            let slope = [0.125, 0.5, 1., -1.][rng.below(4)];
            let noise = [0., 0.25, 2., 8.][rng.below(4)];
            for i in 0..len {
                v.push(slope * i as f64 + noise * unif(rng));
            }
        },
        7 => {
            let c = rng.range(-8, 8) as f64;
            for _ in 0..len {
                v.push(c);
            }
        },
        8 => {
            let a = rng.range(1, 8) as f64;
            for i in 0..len {
                v.push(if i % 2 == 0 { a } else { -a });
            }
        },
        _ => {
            let period = 2 + rng.below(12);
            for i in 0..len {
                v.push((i % period) as f64);
            }
        },
    }
    let mut s: Vec<String> = v.into_iter().map(eighth).collect();
    let pat = rng.below(8);
    let blk = rng.below(len / 2 + 1);
    for (i, x) in s.iter_mut().enumerate() {
        let null = match pat {
            0 => i < blk,
            1 => i + blk >= len,
            2 => rng.chance(0.1),
            3 => rng.chance(0.4),
            _ => false,
        };
        if null {
            *x = "_".into();
        }
    }
    s
}

const QS: &[Option<&str>] = &[None, Some("0"), Some("1/8"), Some("1/4"), Some("3/8"), Some("1/2")];
const KS: &[Option<&str>] = &[None, Some("0"), Some("1/2"), Some("1"), Some("3")];
const QS_RAND: &[Option<&str>] = &[None, Some("0"), Some("1/100"), Some("1/20"), Some("1/10"), Some("1/8"), Some("1/4"), Some("1/3"), Some("2/5"), Some("1/2")];
const KS_RAND: &[Option<&str>] = &[None, Some("0"), Some("1/4"), Some("1/2"), Some("1"), Some("3/2"), Some("2"), Some("3")];

pub fn generate(tier: &str, rng: &mut Rng) -> (Vec<String>, bool) {
    let thorough = tier == "thorough";
    let mut out = vec![];

    /* ---- half_life: exhaustive-small streams ---- */
    // (H1) every series over {null,0,1,2} up to length 6 (7), every min_periods in {omitted} U 1..=len
    let h1_len = if thorough { 7 } else { 6 };
    let mut k = 0usize;
    for len in 0..=h1_len {
        for xs in all_series(&["_", "0", "1", "2"], len) {
            let mut mps: Vec<Option<usize>> = vec![None];
            mps.extend((1..=len).map(Some));
            for mp in mps {
                k += 1;
                push_half_life(&mut out, &xs, mp, hl_type(&xs, k));
            }
        }
    }
    // (H2) every integrated path x0 = 0, steps in {-1,+1,+2}, length 2..=8 (10), min_periods in {omitted,1,3}
    let h2_len = if thorough { 10 } else { 8 };
    for len in 2..=h2_len {
        for steps in all_series(&["-1", "1", "2"], len - 1) {
            let mut x = 0i64;
            let mut xs = vec!["0".to_string()];
            for s in &steps {
                x += s.parse::<i64>().unwrap();
                xs.push(x.to_string());
            }
            for mp in [None, Some(1), Some(3)] {
                k += 1;
                push_half_life(&mut out, &xs, mp, hl_type(&xs, k));
            }
        }
    }
    // (H3) pure trends and saw-teeth of every length up to 72 (300), a grid of min_periods
    // (len = 64, min_periods = 24 is the series whose autocorrelation is above 0.5 exactly up to lag 40)
    let h3_len = if thorough { 300 } else { 72 };
    for len in 0..=h3_len {
        let trend: Vec<String> = (0..len).map(|i| i.to_string()).collect();
        let saw: Vec<String> = (0..len).map(|i| (i % 7).to_string()).collect();
        let tent: Vec<String> = (0..len).map(|i| (if i < len / 2 { i } else { len - i }).to_string()).collect();
        let mut mps = vec![None, Some(1), Some(len / 4), Some(len * 3 / 8), Some(len / 2 + 1), Some(len)];
        mps.retain(|m| m.map(|v| v >= 1 && v <= len.max(1)).unwrap_or(true));
        mps.dedup();
        for mp in mps {
            for xs in [&trend, &saw, &tent] {
                k += 1;
                push_half_life(&mut out, xs, mp, hl_type(xs, k));
            }
        }
        // (H4) the same trend as a plain integer vector (no null to shift in: known finding F34)
        if len <= 8 {
            push_half_life(&mut out, &trend, None, "i32");
        }
    }

    // (H5) ties: every series over {0,1,2,3,4} of length 4..=6 (7) for which some lag's autocorrelation is
    // EXACTLY 0.5 in f64 (classification `h`), min_periods 1 and 2: the comparisons of the doubling search
    // and of the bisection with 0.5 are observable only there
    let h5_len = if thorough { 7 } else { 6 };
    let mut ties = 0usize;
    for len in 4..=h5_len {
        for xs in all_series(&["0", "1", "2", "3", "4"], len) {
            for mp in [Some(1), Some(2)] {
                let c = imp::oracle(&series_of(&xs), "f64", mp);
                if c.contains('h') && ties < (if thorough { 4000 } else { 600 }) {
                    ties += 1;
                    k += 1;
                    push_half_life(&mut out, &xs, mp, hl_type(&xs, k));
                }
            }
        }
    }

    /* ---- winsorize: exhaustive-small stream ---- */
    // every series over {null,0,1,4} up to length 5 (6) x 3 methods x parameter grids, each with the
    // model's own bounds and with the library's bounds
    let w_len = if thorough { 6 } else { 5 };
    for len in 0..=w_len {
        for xs in all_series(&["_", "0", "1", "4"], len) {
            for (m, ps) in [("q", QS), ("m", KS), ("s", KS)] {
                for p in ps {
                    k += 1;
                    let t = if has_null(&xs) { if k % 2 == 0 { "f64" } else { "of64" } } else { pick_type(&xs, k) };
                    push_winsorize(&mut out, &xs, m, *p, t, false);
                    push_winsorize(&mut out, &xs, m, *p, t, true);
                }
            }
        }
    }

    // (W2) a short periodic series with one far outlier (last / first position) for every length
    // 3..=24 x the same grids: separates the default multipliers (3 MAD, 3 sigma) from nearby values
    for len in 3..=24usize {
        let mut hi_out: Vec<String> = (0..len - 1).map(|i| (i % 3).to_string()).collect();
        hi_out.push("50".into());
        let mut lo_out: Vec<String> = vec!["-50".into()];
        lo_out.extend((0..len - 1).map(|i| (i % 4).to_string()));
        for xs in [&hi_out, &lo_out] {
            for (m, ps) in [("q", QS), ("m", KS), ("s", KS)] {
                for p in ps {
                    k += 1;
                    push_winsorize(&mut out, xs, m, *p, pick_type(xs, k), k % 2 == 0);
                }
            }
        }
    }

    /* ---- Spearman: exhaustive-small stream ---- */
    // every pair of series over {null,0,1,2} up to length 3 and over {null,0,1} of length 4,
    // every min_periods in {omitted} U 1..=len, transforms rotated
    for len in 0..=4usize {
        let alpha: &[&str] = if len <= 3 { &["_", "0", "1", "2"] } else { &["_", "0", "1"] };
        let ss = all_series(alpha, len);
        for xs in &ss {
            for ys in &ss {
                let mut mps: Vec<Option<usize>> = vec![None];
                if len <= 3 || thorough {
                    mps.extend((1..=len).map(Some));
                } else {
                    mps.extend([Some(2), Some(4)]);
                }
                for mp in mps {
                    k += 1;
                    let nullish = has_null(xs) || has_null(ys);
                    let t = if nullish { if k % 2 == 0 { "f64" } else { "of64" } } else { pick_type(xs, k) };
                    let (mut tx, mut ty) = (k % 4, (k / 4) % 4);
                    if t == "i32" {
                        tx %= 3;
                        ty %= 3;
                    }
                    push_spearman(&mut out, xs, ys, mp, t, tx, ty);
                }
            }
        }
    }

    /* ---- structured random streams ---- */
    let (n_h, n_w, n_s, max_len) = if thorough { (40000, 20000, 20000, 300) } else { (5000, 2500, 2500, 80) };
    for i in 0..n_h {
        let len = if rng.chance(0.3) { 2 + rng.below(14) } else { 2 + rng.below(max_len - 1) };
        let xs = rand_path(rng, len);
        let mp = match rng.below(4) {
            0 => None,
            1 => Some(1 + rng.below(3)),
            2 => Some(1 + rng.below(len / 2 + 1)),
            _ => Some(1 + rng.below(len)),
        };
        push_half_life(&mut out, &xs, mp, hl_type(&xs, i));
    }
    for i in 0..n_w {
        let len = if rng.chance(0.5) { rng.below(16) } else { rng.below(max_len.min(120) + 1) };
        let int = rng.chance(0.3);
        let xs = if rng.chance(0.5) { rand_series(rng, len, 8, int, true) } else { rand_path(rng, len) };
        let t = if has_null(&xs) { if i % 2 == 0 { "f64" } else { "of64" } } else { pick_type(&xs, i) };
        let (m, p) = match rng.below(3) {
            0 => ("q", *rng.pick(QS_RAND)),
            1 => ("m", *rng.pick(KS_RAND)),
            _ => ("s", *rng.pick(KS_RAND)),
        };
        push_winsorize(&mut out, &xs, m, p, t, i % 2 == 0);
    }
    for i in 0..n_s {
        let len = if rng.chance(0.6) { rng.below(12) } else { rng.below(max_len.min(100) + 1) };
        let mag = [1, 2, 8][rng.below(3)];
        let int = rng.chance(0.6);
        let xs = rand_series(rng, len, mag, int, true);
        let ys = if rng.chance(0.2) {
            // a noisy monotone image of xs: strong rank correlation
            xs.iter().map(|x| match rat_to_f64(x) { Some(v) => eighth(v * 2. + unif(rng)), None => "_".into() }).collect()
        } else {
            rand_series(rng, len, mag, int, true)
        };
        let nullish = has_null(&xs) || has_null(&ys);
        let t = if nullish { if i % 2 == 0 { "f64" } else { "of64" } } else if all_int(&xs) && all_int(&ys) && i % 3 == 2 { "i32" } else { "f64" };
        let mp = if rng.chance(0.3) { None } else { Some(1 + rng.below(len + 1)) };
        let (mut tx, mut ty) = (rng.below(4), rng.below(4));
        if t == "i32" {
            tx %= 3;
            ty %= 3;
        }
        push_spearman(&mut out, &xs, &ys, mp, t, tx, ty);
    }
    (out, true)
}

pub fn rule(tier: &str) -> String {
    let th = tier == "thorough";
    format!(
        "half_life: the request carries the classification of the REAL lag autocorrelations (library vcorr_pearson o vshift, lags 1..=len) as the model's oracle; exhaustive streams: every series over {{null,0,1,2}} up to length {} x every min_periods in {{omitted}} U 1..=len; every integrated path (x0=0, steps -1/+1/+2) of length 2..={} x min_periods {{omitted,1,3}}; trend / saw-tooth / tent series of every length 0..={} x 6 min_periods (incl. len=64, mp=24: above 0.5 exactly up to lag 40); every series over {{0,1,2,3,4}} of length 4..=6 (7) with a lag whose autocorrelation is exactly 0.5 in f64 (up to 600 / 4000 of them) x min_periods {{1,2}}; random stream: AR(1) with phi in {{-.9,-.5,0,.3,.5,.7,.8,.9,.95,.99,1}}, trend+noise, constant, alternating, periodic, 4 null patterns, lengths up to {}. \
         winsorize: every series over {{null,0,1,4}} up to length {} x (Quantile q in {{default,0,1/8,1/4,3/8,1/2}}, Median and Sigma k in {{default,0,1/2,1,3}}), each case once with the model's own bounds and once with the library's bounds (exact binary expansion) fed to the model's vclip; a periodic series with one far outlier at either end for every length 3..=24 x the same grids; random stream: lengths up to 120, values k/8, q also 1/100,1/20,1/10,1/3,2/5. \
         Spearman: every pair of series over {{null,0,1,2}} up to length 3 and over {{null,0,1}} of length 4 x min_periods, strictly increasing transforms (id, 2x+1, x^3, exp) rotated over both arguments; random stream with ties, nulls and noisy monotone images. Element types f64 / Option<f64> / i32 rotated. non-trivial = distinct request with >= 2 input elements and a non-null output.",
        if th { 7 } else { 6 }, if th { 10 } else { 8 }, if th { 300 } else { 72 }, if th { 300 } else { 80 }, if th { 6 } else { 5 })
}

fn rat_in(s: &str, lo: f64, hi: f64) -> bool {
    match rat_to_f64(s) {
        Some(v) => v >= lo && v <= hi,
        None => false,
    }
}

pub fn valid_case(r: &Req) -> bool {
    let t = crate::types::elem_type(r);
    if !matches!(t, "f64" | "of64" | "i32") && !(t == "oi32" && r.f == "half_life") {
        return false;
    }
    let xs = r.list("xs");
    let int_ok = |l: &Vec<&str>| match t {
        "i32" => l.iter().all(|x| *x != "_" && !x.contains('/')),
        "oi32" => l.iter().all(|x| !x.contains('/')),
        _ => true,
    };
    if !int_ok(&xs) {
        return false;
    }
    match r.f.as_str() {
        "half_life" => {
            let len = xs.len();
            if r.usize("len") != len {
                return false;
            }
            let mp = r.opt_usize("mp");
            if let Some(m) = mp {
                if m < 1 || m > len.max(1) {
                    return false;
                }
            }
            // the oracle must be the classification of this very series
            r.s("c") == imp::oracle(&r.series("xs"), t, mp)
        },
        "winsorize" => {
            let m = r.s("m");
            let p = r.s("p");
            let p_ok = match m {
                "q" => p == "-" || rat_in(p, 0., 0.5),
                "m" | "s" => p == "-" || rat_in(p, 0., 1e6),
                _ => false,
            };
            if !p_ok {
                return false;
            }
            if r.has("lo") || r.has("hi") {
                let (lo, hi) = imp::bounds(&r.series("xs"), m, r.opt_f64("p").filter(|_| p != "-"));
                return r.s("lo") == f64_exact(lo) && r.s("hi") == f64_exact(hi);
            }
            true
        },
        "vcorr_spearman" => {
            let ys = r.list("ys");
            if !int_ok(&ys) || ys.len() != xs.len() {
                return false;
            }
            let tmax = if t == "i32" { 2 } else { 3 };
            if r.usize("tx") > tmax || r.usize("ty") > tmax {
                return false;
            }
            match r.opt_usize("mp") {
                Some(m) => m >= 1 && m <= xs.len().max(1) + 1,
                None => true,
            }
        },
        _ => false,
    }
}

/// simulate the (repaired) search on the oracle to label which branches a case exercises
pub fn tags(r: &Req, imp_out: &str) -> Vec<String> {
    let mut t = vec![];
    match r.f.as_str() {
        "half_life" => {
            let c: Vec<char> = r.s("c").chars().collect();
            let len = r.usize("len");
            let cls = |l: usize| -> char { if l >= 1 && l <= c.len() { c[l - 1] } else { 'n' } };
            let first = (1..=len).find(|l| cls(*l) != 'a');
            let shaped = match first {
                None => true,
                Some(f) => (f..=len).all(|l| cls(l) != 'a'),
            };
            t.push(if shaped { "hl:threshold-shaped".into() } else { "hl:non-monotone".into() });
            if len >= 2 {
                let (mut n, mut last, mut i) = (0usize, 0usize, 0u32);
                while n < len {
                    n = 1 << i;
                    if cls(n) != 'a' {
                        break;
                    }
                    last = n;
                    i += 1;
                }
                t.push(format!("hl:doubling-steps={}", i.min(9)));
                n = n.min(len - 1);
                let mut guard = 0;
                while n > last && n - last > 1 && guard < 100 {
                    let life = (n + last) / 2;
                    t.push(format!("hl:bisect-{}", cls(life)));
                    if cls(life) == 'a' { last = life } else { n = life }
                    guard += 1;
                }
            }
            if let Ok(v) = imp_out.parse::<usize>() {
                if len >= 2 && v == len - 1 {
                    t.push("hl:capped".into());
                }
            }
        },
        "winsorize" => {
            t.push(format!("w:{}{}", r.s("m"), if r.has("lo") { "+real-bounds" } else { "" }));
            let xs = r.list("xs");
            let outs = crate::proto::split_list(imp_out);
            if xs.len() == outs.len() {
                let moved = xs.iter().zip(outs.iter()).filter(|(a, b)| {
                    match (rat_to_f64(a), b.strip_prefix("f:").and_then(|s| s.parse::<f64>().ok())) {
                        (Some(x), Some(y)) => (x - y).abs() > 1e-12,
                        _ => false,
                    }
                }).count();
                t.push(if moved > 0 { "w:clipped-some".into() } else { "w:identity".into() });
            }
        },
        "vcorr_spearman" => {
            t.push(format!("sp:tx={},ty={}", r.s("tx"), r.s("ty")));
            t.push(if imp_out == "_" { "sp:null".into() } else { "sp:value".into() });
        },
        _ => {},
    }
    t
}

/// F34: `half_life` on an element type without a null value (`i32`): `vshift(n, None)` asks for
/// `T::none()`, which panics for every non-empty series
pub fn known_finding(r: &Req, imp_out: &str) -> Option<String> {
    if r.f == "half_life" && r.s("t") == "i32" && r.usize("len") >= 1 && imp_out.starts_with('P') {
        return Some("F37".into());
    }
    None
}
