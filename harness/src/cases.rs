//! case generators shared by the properties
use crate::rng::Rng;

/// all series of length `len` over `alpha` (tokens)
pub fn all_series(alpha: &[&str], len: usize) -> Vec<Vec<String>> {
    let mut out = vec![vec![]];
    for _ in 0..len {
        let mut nxt = Vec::with_capacity(out.len() * alpha.len());
        for s in &out {
            for a in alpha {
                let mut t: Vec<String> = s.clone();
                t.push(a.to_string());
                nxt.push(t);
            }
        }
        out = nxt;
    }
    out
}

pub fn join(v: &[String]) -> String {
    if v.is_empty() { "[]".into() } else { v.join(",") }
}

/// random value `k/8` with |k| <= 8*mag, or integer when `int`
pub fn rand_val(rng: &mut Rng, mag: i64, int: bool) -> String {
    if int {
        format!("{}", rng.range(-mag, mag))
    } else {
        let k = rng.range(-8 * mag, 8 * mag);
        if k % 8 == 0 { format!("{}", k / 8) } else {
            let g = gcd(k.abs(), 8);
            format!("{}/{}", k / g, 8 / g)
        }
    }
}
fn gcd(a: i64, b: i64) -> i64 {
    if b == 0 { a } else { gcd(b, a % b) }
}

/// null patterns: 0 none, 1 leading block, 2 trailing block, 3 alternating, 4 p=.1, 5 p=.5,
/// 6 p=.9, 7 all null, 8 constant runs of values
pub fn rand_series(rng: &mut Rng, len: usize, mag: i64, int: bool, nullable: bool) -> Vec<String> {
    let pat = if nullable { rng.below(9) } else { if rng.chance(0.2) { 8 } else { 0 } };
    let mut v: Vec<String> = vec![];
    let blk = rng.below(len + 1);
    let mut run_val = rand_val(rng, mag, int);
    for i in 0..len {
        let null = match pat {
            1 => i < blk,
            2 => i >= len - blk,
            3 => i % 2 == 0,
            4 => rng.chance(0.1),
            5 => rng.chance(0.5),
            6 => rng.chance(0.9),
            7 => true,
            _ => false,
        };
        if null {
            v.push("_".into());
        } else if pat == 8 {
            if rng.chance(0.3) {
                run_val = rand_val(rng, mag, int);
            }
            v.push(run_val.clone());
        } else {
            v.push(rand_val(rng, mag, int));
        }
    }
    v
}

pub fn mp_tok(mp: Option<usize>) -> String {
    match mp {
        None => "-".into(),
        Some(k) => k.to_string(),
    }
}

/// scale every value of a series token list by 2^-s (exact in f64 and in the model)
pub fn scale_down(xs: &[&str], s: u32) -> Vec<String> {
    xs.iter()
        .map(|t| {
            if *t == "_" || t.ends_with("inf") {
                t.to_string()
            } else {
                let (p, q) = match t.split_once('/') {
                    Some((p, q)) => (p.to_string(), q.parse::<u64>().unwrap_or(1)),
                    None => (t.to_string(), 1),
                };
                if p == "0" { "0".to_string() } else { format!("{}/{}", p, q << s) }
            }
        })
        .collect()
}

/// decimal digits of 2^s
pub fn pow2_str(s: u32) -> String {
    let mut d: Vec<u8> = vec![1];      // little-endian decimal digits
    for _ in 0..s {
        let mut carry = 0u8;
        for x in d.iter_mut() {
            let v = *x * 2 + carry;
            *x = v % 10;
            carry = v / 10;
        }
        if carry > 0 {
            d.push(carry);
        }
    }
    d.iter().rev().map(|x| (b'0' + x) as char).collect()
}

/// scale by 2^-s for any s (tokens with small integer denominators a power of two): subnormal range
pub fn scale_down_big(xs: &[&str], s: u32) -> Vec<String> {
    xs.iter()
        .map(|t| {
            if *t == "_" || *t == "0" || t.ends_with("inf") {
                t.to_string()
            } else {
                let (p, q) = match t.split_once('/') {
                    Some((p, q)) => (p.to_string(), q.parse::<u32>().unwrap_or(1)),
                    None => (t.to_string(), 1),
                };
                format!("{}/{}", p, pow2_str(s + q.trailing_zeros()))
            }
        })
        .collect()
}

/// for every `every`-th request line that carries `xs=` (and possibly `ys=`) append a copy whose
/// series are scaled by 2^-s, s rotating over `shifts`: the same statistics at a scale where the
/// variance is close to (but well above) the EPS floor, so that a mis-scaled or mis-combined
/// guard is observable
pub fn add_scaled(lines: &mut Vec<String>, every: usize, shifts: &[u32], keys: &[&str]) {
    let n = lines.len();
    let mut extra = vec![];
    for i in (0..n).step_by(every.max(1)) {
        let mut r = crate::proto::Req::parse(&lines[i]);
        if !r.has("xs") || matches!(r.s("t"), "i32" | "i64" | "oi32") || r.s("t2").starts_with('i') || r.s("t2") == "oi32" {
            continue;
        }
        let s = shifts[(i / every.max(1)) % shifts.len()];
        let mut changed = false;
        for k in keys {
            if r.has(k) {
                let v: Vec<String> = scale_down(&r.list(k), s);
                r.set(k, join(&v));
                changed = true;
            }
        }
        if changed {
            extra.push(r.line());
        }
    }
    lines.extend(extra);
}

/// `level + v/128` for every value of a series (dyadic: level 2^10, 10 fractional bits): small
/// fluctuations around a large level — the regime where the one-pass closed forms cancel most
pub fn level_up(xs: &[&str], level: i64) -> Vec<String> {
    xs.iter()
        .map(|t| {
            if *t == "_" || t.ends_with("inf") {
                t.to_string()
            } else {
                let (p, q) = match t.split_once('/') {
                    Some((p, q)) => (p.parse::<i64>().unwrap_or(0), q.parse::<i64>().unwrap_or(1)),
                    None => (t.parse::<i64>().unwrap_or(0), 1),
                };
                let den = 128 * q;
                let num = level * den + p;
                let g = gcd(num.abs(), den);
                if den / g == 1 { format!("{}", num / g) } else { format!("{}/{}", num / g, den / g) }
            }
        })
        .collect()
}

/// for every `every`-th request of a function whose accumulators stay exact (highest power <= 2)
/// append a copy with the series moved to `level + v/128`
pub fn add_leveled(lines: &mut Vec<String>, every: usize, level: i64, keys: &[&str]) {
    let n = lines.len();
    let mut extra = vec![];
    for i in (0..n).step_by(every.max(1)) {
        let mut r = crate::proto::Req::parse(&lines[i]);
        let Some(f) = crate::catalog::find(&r.f) else { continue };
        if f.pow > 2 || !r.has("xs") || matches!(r.s("t"), "i32" | "i64" | "oi32" | "f32") || r.s("t2").starts_with('i') || matches!(r.s("t2"), "oi32" | "f32") {
            continue;
        }
        for k in keys {
            if r.has(k) {
                let v: Vec<String> = level_up(&r.list(k), level);
                r.set(k, join(&v));
            }
        }
        extra.push(r.line());
    }
    lines.extend(extra);
}
