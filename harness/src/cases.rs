//! case generators shared by the properties
use crate::rng::Rng;

/// all series of length `len` over `alpha` (tokens)
pub fn all_series(alpha: &[&str], len: usize) -> Vec<Vec<String>> {
    let mut out = vec![vec![]];
    for _ in 0..len {
        let mut nxt = Vec::with_capacity(out.len() * alpha.len());
        for s in &out {
            for a in alpha {
                let mut t: Vec<String> = s.clone();
                t.push(a.to_string());
                nxt.push(t);
            }
        }
        out = nxt;
    }
    out
}

pub fn join(v: &[String]) -> String {
    if v.is_empty() { "[]".into() } else { v.join(",") }
}

/// random value `k/8` with |k| <= 8*mag, or integer when `int`
pub fn rand_val(rng: &mut Rng, mag: i64, int: bool) -> String {
    if int {
        format!("{}", rng.range(-mag, mag))
    } else {
        let k = rng.range(-8 * mag, 8 * mag);
        if k % 8 == 0 { format!("{}", k / 8) } else {
            let g = gcd(k.abs(), 8);
            format!("{}/{}", k / g, 8 / g)
        }
    }
}
fn gcd(a: i64, b: i64) -> i64 {
    if b == 0 { a } else { gcd(b, a % b) }
}

/// null patterns: 0 none, 1 leading block, 2 trailing block, 3 alternating, 4 p=.1, 5 p=.5,
/// 6 p=.9, 7 all null, 8 constant runs of values
pub fn rand_series(rng: &mut Rng, len: usize, mag: i64, int: bool, nullable: bool) -> Vec<String> {
    let pat = if nullable { rng.below(9) } else { if rng.chance(0.2) { 8 } else { 0 } };
    let mut v: Vec<String> = vec![];
    let blk = rng.below(len + 1);
    let mut run_val = rand_val(rng, mag, int);
    for i in 0..len {
        let null = match pat {
            1 => i < blk,
            2 => i >= len - blk,
            3 => i % 2 == 0,
            4 => rng.chance(0.1),
            5 => rng.chance(0.5),
            6 => rng.chance(0.9),
            7 => true,
            _ => false,
        };
        if null {
            v.push("_".into());
        } else if pat == 8 {
            if rng.chance(0.3) {
                run_val = rand_val(rng, mag, int);
            }
            v.push(run_val.clone());
        } else {
            v.push(rand_val(rng, mag, int));
        }
    }
    v
}

pub fn mp_tok(mp: Option<usize>) -> String {
    match mp {
        None => "-".into(),
        Some(k) => k.to_string(),
    }
}
