//! correspondence engine: generate → run implementation (child processes) → run Lean model →
//! three-way compare → shrink → result.json
use std::collections::{BTreeMap, HashSet};
use std::io::{BufRead, BufReader, Write};
use std::process::{Command, Stdio};
use std::time::Instant;

use crate::cmp::{line_eq, Mode};
use crate::proto::Req;
use crate::props;
use crate::rng::Rng;

pub const ABORT: &str = "ABORT";
/// the answer of a request that did not return within the watchdog limit (main.rs)
pub const TIMEOUT: &str = "TIMEOUT";
/// marker line a child prints before it ends itself after a request that timed out (its worker
/// thread cannot be stopped): not an answer; the parent restarts a child on the remaining requests
pub const RESTART: &str = "#RESTART";
/// set by a request handler that abandoned a still-running thread (c20 `half_life_t`)
pub static EXIT_AFTER_ANSWER: std::sync::atomic::AtomicBool = std::sync::atomic::AtomicBool::new(false);
/// a request not run because its chunk already had two timeouts (keeps a hanging change from
/// stalling the whole run; skipped requests are counted, never judged)
pub const SKIP: &str = "SKIP";

/// run the real code on `lines` in child processes (this executable, `run` sub-command).
/// A child that dies (abort, UB check, OOM, timeout) marks the line it was working on as ABORT
/// and is restarted on the remaining lines.
pub fn run_impl(lines: &[String], jobs: usize) -> Vec<String> {
    let exe = std::env::current_exe().unwrap();
    let n = lines.len();
    let mut out = vec![String::new(); n];
    if n == 0 {
        return out;
    }
    let jobs = jobs.max(1).min(n);
    let chunk = n.div_ceil(jobs);
    std::thread::scope(|sc| {
        let mut hs = vec![];
        for (ci, (ls, os)) in lines.chunks(chunk).zip(out.chunks_mut(chunk)).enumerate() {
            let exe = exe.clone();
            hs.push(sc.spawn(move || {
                let _ = ci;
                let mut start = 0usize;
                let mut timeouts = 0usize;
                while start < ls.len() {
                    let mut child = Command::new(&exe)
                        .arg("run")
                        .stdin(Stdio::piped())
                        .stdout(Stdio::piped())
                        .stderr(Stdio::null())
                        .spawn()
                        .expect("spawn run child");
                    let mut stdin = child.stdin.take().unwrap();
                    let stdout = child.stdout.take().unwrap();
                    let feed: Vec<String> = ls[start..].to_vec();
                    let w = std::thread::spawn(move || {
                        for l in feed {
                            if stdin.write_all(l.as_bytes()).is_err() || stdin.write_all(b"\n").is_err() {
                                break;
                            }
                        }
                    });
                    let mut got = 0usize;
                    let mut restart = false;
                    for line in BufReader::new(stdout).lines() {
                        match line {
                            Ok(l) => {
                                if l == RESTART {
                                    restart = true;
                                    continue;
                                }
                                if start + got < ls.len() {
                                    os[start + got] = l;
                                    got += 1;
                                }
                            },
                            Err(_) => break,
                        }
                    }
                    let _ = child.wait();
                    let _ = w.join();
                    start += got;
                    if restart {
                        timeouts += 1;
                        if timeouts >= 2 {
                            for o in os[start..].iter_mut() {
                                *o = SKIP.to_string();
                            }
                            break;
                        }
                        continue;
                    }
                    if start < ls.len() {
                        // the child died while working on ls[start]
                        os[start] = ABORT.to_string();
                        start += 1;
                    }
                }
            }));
        }
        for h in hs {
            h.join().unwrap();
        }
    });
    out
}

/// run the Lean model driver on `lines`; each response is `model | spec`
pub fn run_model(model: &str, lines: &[String], jobs: usize) -> Vec<(String, String)> {
    let n = lines.len();
    let mut out = vec![(String::new(), String::new()); n];
    if n == 0 {
        return out;
    }
    let jobs = jobs.max(1).min(n);
    let chunk = n.div_ceil(jobs);
    std::thread::scope(|sc| {
        for (ls, os) in lines.chunks(chunk).zip(out.chunks_mut(chunk)) {
            sc.spawn(move || {
                let mut child = Command::new(model)
                    .stdin(Stdio::piped())
                    .stdout(Stdio::piped())
                    .stderr(Stdio::null())
                    .spawn()
                    .expect("spawn model driver");
                let mut stdin = child.stdin.take().unwrap();
                let stdout = child.stdout.take().unwrap();
                let feed: Vec<String> = ls.to_vec();
                let w = std::thread::spawn(move || {
                    for l in feed {
                        if stdin.write_all(l.as_bytes()).is_err() || stdin.write_all(b"\n").is_err() {
                            break;
                        }
                    }
                });
                for (i, line) in BufReader::new(stdout).lines().enumerate() {
                    if let Ok(l) = line {
                        if i < os.len() {
                            let (m, s) = match l.split_once(" | ") {
                                Some((m, s)) => (m.to_string(), s.to_string()),
                                None => (l.clone(), l.clone()),
                            };
                            os[i] = (m, s);
                        }
                    }
                }
                let _ = child.wait();
                let _ = w.join();
            });
        }
    });
    out
}

#[derive(Clone, Debug)]
pub struct Verdict {
    pub impl_model: bool,
    pub impl_spec: bool,
    pub model_spec: bool,
}

pub fn judge(prop: &str, line: &str, imp: &str, m: &str, s: &str) -> Verdict {
    let r = Req::parse(line);
    let mode = Mode::of(crate::types::out_type(&r));
    let tols = crate::catalog::cond_tols(&r);
    let eq = |a: &str, b: &str| -> bool {
        if b == "-" {
            return true;
        }
        props::compare(prop, &r, a, b).unwrap_or_else(|| crate::cmp::line_eq_tf(a, b, mode, tols.as_deref()))
    };
    Verdict {
        impl_model: eq(imp, m),
        impl_spec: eq(imp, s),
        model_spec: s == "-" || m == "-" || m == s
            || props::compare_model_spec(prop, &r, m, s).unwrap_or_else(|| crate::cmp::model_line_eq(m, s)),
    }
}

pub struct Mismatch {
    pub line: String,
    pub shrunk: String,
    pub imp: String,
    pub model: String,
    pub spec: String,
    pub kind: &'static str, // "impl!=spec" | "impl!=model" | "model!=spec" | "abort" | "timeout"
    pub known: Option<String>,
    /// requests the same child answered immediately before this one (order passes only): the
    /// answer differs from the one given in stream order, i.e. it depends on the calls before it
    pub history: Vec<String>,
    /// position in the stream (stream-order mismatches; `usize::MAX` otherwise)
    pub idx: usize,
}

fn json_str(s: &str) -> String {
    let mut o = String::from("\"");
    for c in s.chars() {
        match c {
            '"' => o.push_str("\\\""),
            '\\' => o.push_str("\\\\"),
            '\n' => o.push_str("\\n"),
            '\t' => o.push_str("\\t"),
            c if (c as u32) < 0x20 => o.push_str(&format!("\\u{:04x}", c as u32)),
            c => o.push(c),
        }
    }
    o.push('"');
    o
}

fn kind_of(v: &Verdict, imp: &str) -> Option<&'static str> {
    if imp == ABORT {
        Some("abort")
    } else if imp == TIMEOUT {
        Some("timeout")
    } else if !v.impl_spec {
        Some("impl!=spec")
    } else if !v.impl_model {
        Some("impl!=model")
    } else if !v.model_spec {
        Some("model!=spec")
    } else {
        None
    }
}

/// greedy shrinking: generic candidate edits on list-valued and integer-valued fields
fn shrink(prop: &str, model: &str, line: &str, kind: &str) -> String {
    let mut cur = line.to_string();
    for _round in 0..40 {
        let r = Req::parse(&cur);
        let mut cands: Vec<String> = vec![];
        for k in &r.order {
            let v = &r.kv[k];
            if k == "t" || k == "o" || k == "sh" || k == "b" {
                continue;
            }
            if v.contains(',') || v == "[]" || props::is_series_key(k) {
                let items: Vec<&str> = crate::proto::split_list(v);
                let paired = props::paired_series(prop, &r, k);
                for i in 0..items.len() {
                    let mut r2 = r.clone();
                    let mut it2 = items.clone();
                    it2.remove(i);
                    r2.set(k, if it2.is_empty() { "[]".into() } else { it2.join(",") });
                    for pk in &paired {
                        let mut p2: Vec<&str> = crate::proto::split_list(r.s(pk));
                        if i < p2.len() {
                            p2.remove(i);
                        }
                        r2.set(pk, if p2.is_empty() { "[]".into() } else { p2.join(",") });
                    }
                    cands.push(r2.line());
                }
                for i in 0..items.len() {
                    for rep in ["0", "1"] {
                        if items[i] != rep && items[i] != "_" {
                            let mut it2 = items.clone();
                            it2[i] = rep;
                            let mut r2 = r.clone();
                            r2.set(k, it2.join(","));
                            cands.push(r2.line());
                        }
                    }
                }
            } else if let Ok(n) = v.parse::<i64>() {
                for c in [n / 2, n.saturating_sub(1), n.saturating_add(1)] {
                    if c != n && c.unsigned_abs() < n.unsigned_abs() {
                        let mut r2 = r.clone();
                        r2.set(k, c.to_string());
                        cands.push(r2.line());
                    }
                }
            }
        }
        cands.retain(|c| props::valid_case(prop, &Req::parse(c)));
        if cands.is_empty() {
            break;
        }
        let imps = run_impl(&cands, 8);
        let mods = run_model(model, &cands, 8);
        let mut found = None;
        for (i, c) in cands.iter().enumerate() {
            let v = judge(prop, c, &imps[i], &mods[i].0, &mods[i].1);
            if kind_of(&v, &imps[i]) == Some(kind) && c.len() < cur.len() {
                found = Some(c.clone());
                break;
            }
        }
        match found {
            Some(c) => cur = c,
            None => break,
        }
    }
    cur
}

/// the shortest history found (suffix of the child's earlier requests, then halves and single
/// requests dropped) after which `line` is answered `want`; every candidate is re-run in a fresh
/// child. Falls back to the whole prefix (last 2000 requests) when nothing shorter reproduces.
fn minimise_history(prefix: &[String], line: &str, want: &str) -> Vec<String> {
    let repro = |h: &[String]| -> bool {
        let mut seq = h.to_vec();
        seq.push(line.to_string());
        run_impl(&seq, 1).last().map(|a| a == want).unwrap_or(false)
    };
    let mut take = 1usize;
    let mut h: Option<Vec<String>> = None;
    loop {
        let t = take.min(prefix.len());
        let cand = &prefix[prefix.len() - t..];
        if repro(cand) {
            h = Some(cand.to_vec());
            break;
        }
        if t == prefix.len() {
            break;
        }
        take *= 2;
    }
    let mut h = match h {
        Some(h) => h,
        None => return prefix[prefix.len().saturating_sub(2000)..].to_vec(),
    };
    // requests of the same function only
    let f_of = |l: &str| -> String { let r = Req::parse(l); format!("{} {}", r.f, r.s("f")) };
    let same: Vec<String> = h.iter().filter(|l| f_of(l) == f_of(line)).cloned().collect();
    if same.len() < h.len() && repro(&same) {
        h = same;
    }
    // halves, then single requests
    let mut rounds = 0;
    while h.len() > 1 && rounds < 40 {
        rounds += 1;
        let mid = h.len() / 2;
        if repro(&h[mid..]) {
            h = h[mid..].to_vec();
        } else if repro(&h[..mid]) {
            h = h[..mid].to_vec();
        } else {
            break;
        }
    }
    if h.len() <= 48 {
        let mut i = 0;
        while i < h.len() && h.len() > 1 {
            let mut c = h.clone();
            c.remove(i);
            if repro(&c) {
                h = c;
            } else {
                i += 1;
            }
        }
    }
    h
}

pub fn check(prop: &str, tier: &str, seed: u64, model: &str, outdir: &str, corpus: Option<&str>) -> i32 {
    let t0 = Instant::now();
    let jobs: usize = std::thread::available_parallelism().map(|n| n.get()).unwrap_or(8);
    let mut rng = Rng::new(seed);
    let mut lines: Vec<String> = vec![];
    let mut n_corpus = 0;
    if let Some(dir) = corpus {
        if let Ok(rd) = std::fs::read_dir(dir) {
            let mut files: Vec<_> = rd.filter_map(|e| e.ok()).map(|e| e.path()).collect();
            files.sort();
            for f in files {
                if let Ok(txt) = std::fs::read_to_string(&f) {
                    for l in txt.lines() {
                        let l = l.trim();
                        if !l.is_empty() && !l.starts_with('#') {
                            lines.push(l.to_string());
                            n_corpus += 1;
                        }
                    }
                }
            }
        }
    }
    let (gen_lines, exhaustive) = props::generate(prop, tier, &mut rng);
    lines.extend(gen_lines);
    let t_gen = t0.elapsed().as_secs_f64();
    let imps = run_impl(&lines, jobs);
    let t_impl = t0.elapsed().as_secs_f64();
    let mods = run_model(model, &lines, jobs);
    let t_model = t0.elapsed().as_secs_f64();

    let mut mism: Vec<Mismatch> = vec![];
    let mut seen: HashSet<&str> = HashSet::new();
    let mut distinct_nontrivial = 0usize;
    let mut fn_hist: BTreeMap<String, usize> = BTreeMap::new();
    let mut len_hist: BTreeMap<usize, usize> = BTreeMap::new();
    let mut tag_hist: BTreeMap<String, usize> = BTreeMap::new();
    let mut per_kind: BTreeMap<String, usize> = BTreeMap::new();
    let mut shrink_budget: BTreeMap<String, usize> = BTreeMap::new();
    let mut samples: Vec<String> = vec![];
    let mut panics = 0usize;
    let mut skipped = 0usize;
    for (i, l) in lines.iter().enumerate() {
        if imps[i] == SKIP {
            skipped += 1;
            continue;
        }
        let r = Req::parse(l);
        *fn_hist.entry(r.f.clone()).or_default() += 1;
        let xlen = r.list("xs").len();
        if r.has("xs") {
            *len_hist.entry(xlen).or_default() += 1;
        }
        for t in props::tags(prop, &r, &imps[i]) {
            *tag_hist.entry(t).or_default() += 1;
        }
        if imps[i].starts_with('P') {
            panics += 1;
        }
        if seen.insert(l.as_str()) && props::nontrivial(prop, &r, &imps[i]) {
            distinct_nontrivial += 1;
        }
        if i % (lines.len() / 5 + 1) == 0 || samples.len() < 2 {
            if samples.len() < 8 {
                samples.push(format!("{} => impl {} ; model {} ; spec {}", l, imps[i], mods[i].0, mods[i].1));
            }
        }
        let v = judge(prop, l, &imps[i], &mods[i].0, &mods[i].1);
        if let Some(kind) = kind_of(&v, &imps[i]) {
            *per_kind.entry(kind.to_string()).or_default() += 1;
            let known = props::known_finding(prop, &r, &imps[i], &mods[i].1);
            let key = format!("{}:{}:{}", kind, r.f, known.clone().unwrap_or_default());
            let b = shrink_budget.entry(key).or_default();
            if *b < 3 && mism.len() < 60 {
                *b += 1;
                mism.push(Mismatch {
                    line: l.clone(),
                    shrunk: String::new(),
                    imp: imps[i].clone(),
                    model: mods[i].0.clone(),
                    spec: mods[i].1.clone(),
                    kind,
                    known,
                    history: vec![],
                    idx: i,
                });
            } else if known.is_none() && mism.len() < 200 {
                // still record unshrunk (keeps counts honest without spending time)
                mism.push(Mismatch {
                    line: l.clone(),
                    shrunk: l.clone(),
                    imp: imps[i].clone(),
                    model: mods[i].0.clone(),
                    spec: mods[i].1.clone(),
                    kind,
                    known,
                    history: vec![],
                    idx: i,
                });
            }
        }
    }
    // a stream-order answer that a fresh process does not give depends on the requests before it:
    // find the (minimised, confirmed) history among the earlier requests of its child
    {
        let chunk = lines.len().div_ceil(jobs.max(1).min(lines.len().max(1)));
        let mut done = 0;
        for m in mism.iter_mut() {
            if m.known.is_some() || m.idx == usize::MAX || m.kind == "timeout" || done >= 6 {
                continue;
            }
            done += 1;
            let fresh = run_impl(&[m.line.clone()], 1);
            if fresh[0] != m.imp {
                let lo = m.idx - (m.idx % chunk);
                m.history = minimise_history(&lines[lo..m.idx], &m.line, &m.imp);
                m.shrunk = m.line.clone(); // shrinking the request would lose the history
            }
        }
    }
    // order passes: the same requests in three other orders (same arguments adjacent with different
    // parameters; same function and parameters adjacent with different arguments; stream order
    // reversed). The functions under test are pure: an answer that differs from the one given in
    // stream order depends on the calls before it, and is judged like any other answer — with the
    // preceding requests of that child (minimised, re-run to confirm) as its history.
    let mut order_diffs = 0usize;
    let mut order_evals = 0usize;
    if std::env::var("TVH_ORDER_PASSES").map(|v| v != "0").unwrap_or(true) && lines.len() > 1 {
        let rev_key = |l: &str| -> String { l.split(' ').rev().collect::<Vec<_>>().join(" ") };
        let mut ord_a: Vec<usize> = (0..lines.len()).collect();
        ord_a.sort_by_cached_key(|&i| (rev_key(&lines[i]), i));
        let mut ord_b: Vec<usize> = (0..lines.len()).collect();
        ord_b.sort_by(|&i, &j| lines[i].cmp(&lines[j]).then(i.cmp(&j)));
        let ord_c: Vec<usize> = (0..lines.len()).rev().collect();
        let mut pending: Vec<(usize, Vec<String>)> = vec![]; // (index into mism, that child's earlier requests)
        // load balance: a sorted order puts all the slow requests of one function into one child's
        // chunk; deal blocks of 512 consecutive requests round-robin to the children instead
        // (adjacency inside a block is what the pass is for)
        let deal = |ord: Vec<usize>| -> Vec<usize> {
            let j = jobs.max(1);
            let blocks: Vec<&[usize]> = ord.chunks(512).collect();
            let mut out = Vec::with_capacity(ord.len());
            for c in 0..j {
                for b in blocks.iter().skip(c).step_by(j) {
                    out.extend_from_slice(b);
                }
            }
            out
        };
        for ord in [deal(ord_a), deal(ord_b), ord_c] {
            let permuted: Vec<String> = ord.iter().map(|&i| lines[i].clone()).collect();
            let alt = run_impl(&permuted, jobs);
            order_evals += permuted.len();
            let chunk = permuted.len().div_ceil(jobs.max(1).min(permuted.len()));
            for (k, &i) in ord.iter().enumerate() {
                if alt[k] == imps[i] || alt[k] == SKIP || imps[i] == SKIP {
                    continue;
                }
                order_diffs += 1;
                let v = judge(prop, &lines[i], &alt[k], &mods[i].0, &mods[i].1);
                if let Some(kind) = kind_of(&v, &alt[k]) {
                    if kind == "model!=spec" {
                        continue;
                    }
                    let r = Req::parse(&lines[i]);
                    let known = props::known_finding(prop, &r, &alt[k], &mods[i].1);
                    *per_kind.entry(format!("{} (order pass)", kind)).or_default() += 1;
                    if pending.len() < 6 && mism.len() < 200 {
                        let lo = k - (k % chunk);
                        pending.push((mism.len(), permuted[lo..k].to_vec()));
                        mism.push(Mismatch {
                            line: lines[i].clone(),
                            shrunk: lines[i].clone(),
                            imp: alt[k].clone(),
                            model: mods[i].0.clone(),
                            spec: mods[i].1.clone(),
                            kind,
                            known,
                            history: vec![],
                            idx: usize::MAX,
                        });
                    }
                }
            }
        }
        for (mi, prefix) in pending {
            let m = &mut mism[mi];
            m.history = minimise_history(&prefix, &m.line, &m.imp);
        }
    }
    // shrink (unknown ones first)
    let t_cmp = t0.elapsed().as_secs_f64();
    for m in mism.iter_mut() {
        if m.shrunk.is_empty() {
            if m.known.is_none() && m.kind != "timeout" && t0.elapsed().as_secs_f64() - t_cmp < 120. {
                m.shrunk = shrink(prop, model, &m.line, m.kind);
                if m.shrunk != m.line {
                    let im = run_impl(&[m.shrunk.clone()], 1);
                    let mo = run_model(model, &[m.shrunk.clone()], 1);
                    m.imp = im[0].clone();
                    m.model = mo[0].0.clone();
                    m.spec = mo[0].1.clone();
                }
            } else {
                m.shrunk = m.line.clone();
            }
        }
    }
    // result.json
    let mut j = String::from("{\n");
    j += &format!(" \"property\": {},\n \"tier\": {},\n \"seed\": {},\n", json_str(prop), json_str(tier), seed);
    j += &format!(" \"evaluations\": {},\n \"corpus_cases\": {},\n \"distinct_nontrivial\": {},\n \"exhaustive\": {},\n \"impl_panics\": {},\n \"skipped_after_timeouts\": {},\n \"order_pass_evaluations\": {},\n \"order_pass_answers_differing\": {},\n",
        lines.len(), n_corpus, distinct_nontrivial, exhaustive, panics, skipped, order_evals, order_diffs);
    j += &format!(" \"rule\": {},\n", json_str(&props::rule(prop, tier)));
    j += &format!(" \"timing_s\": {{\"gen\": {:.2}, \"impl\": {:.2}, \"model\": {:.2}, \"total\": {:.2}}},\n",
        t_gen, t_impl - t_gen, t_model - t_impl, t0.elapsed().as_secs_f64());
    let hist = |h: &BTreeMap<String, usize>| -> String {
        format!("{{{}}}", h.iter().map(|(k, v)| format!("{}: {}", json_str(k), v)).collect::<Vec<_>>().join(", "))
    };
    j += &format!(" \"functions\": {},\n", hist(&fn_hist));
    j += &format!(" \"series_length_histogram\": {{{}}},\n",
        len_hist.iter().map(|(k, v)| format!("\"{}\": {}", k, v)).collect::<Vec<_>>().join(", "));
    j += &format!(" \"branch_tags\": {},\n", hist(&tag_hist));
    j += &format!(" \"mismatch_counts\": {},\n", hist(&per_kind));
    j += &format!(" \"samples\": [{}],\n", samples.iter().map(|s| json_str(s)).collect::<Vec<_>>().join(", "));
    j += " \"mismatches\": [\n";
    let items: Vec<String> = mism.iter().map(|m| {
        format!("  {{\"kind\": {}, \"history\": [{}], \"known\": {}, \"case\": {}, \"shrunk\": {}, \"impl\": {}, \"model\": {}, \"spec\": {}}}",
            json_str(m.kind),
            m.history.iter().map(|h| json_str(h)).collect::<Vec<_>>().join(", "),
            m.known.as_ref().map(|k| json_str(k)).unwrap_or("null".into()),
            json_str(&m.line), json_str(&m.shrunk), json_str(&m.imp), json_str(&m.model), json_str(&m.spec))
    }).collect();
    j += &items.join(",\n");
    j += "\n ]\n}\n";
    std::fs::create_dir_all(outdir).ok();
    std::fs::write(format!("{}/result.json", outdir), j).expect("write result.json");
    0
}
