//! element-type / output-type dispatch
use crate::proto::Req;

/// the float null: NaN of either sign (the hardware produces sign-bit NaNs for `0.0 / 0.0`), alternating
/// by position so that both occur in every series with two or more nulls
pub fn nan64(i: usize) -> f64 { if i % 2 == 0 { f64::NAN } else { f64::from_bits(0xFFF8_0000_0000_0000) } }
pub fn nan32(i: usize) -> f32 { if i % 2 == 0 { f32::NAN } else { f32::from_bits(0xFFC0_0000) } }
pub fn as_f64(v: &[Option<f64>]) -> Vec<f64> {
    v.iter().enumerate().map(|(i, x)| x.unwrap_or(nan64(i))).collect()
}
pub fn as_f32(v: &[Option<f64>]) -> Vec<f32> {
    v.iter().enumerate().map(|(i, x)| x.map(|y| y as f32).unwrap_or(nan32(i))).collect()
}
pub fn as_i32(v: &[Option<f64>]) -> Vec<i32> {
    v.iter().map(|x| x.expect("null in integer series") as i32).collect()
}
pub fn as_i64(v: &[Option<f64>]) -> Vec<i64> {
    v.iter().map(|x| x.expect("null in integer series") as i64).collect()
}
/// i64 series parsed token by token (exact also beyond 2^53, where f64 cannot tell neighbours apart)
pub fn i64_series(r: &Req, key: &str) -> Vec<i64> {
    r.list(key)
        .iter()
        .map(|t| t.parse::<i64>().unwrap_or_else(|_| crate::proto::rat_to_f64(t).expect("null in integer series") as i64))
        .collect()
}
pub fn as_of64(v: &[Option<f64>]) -> Vec<Option<f64>> {
    v.to_vec()
}
pub fn as_oi32(v: &[Option<f64>]) -> Vec<Option<i32>> {
    v.iter().map(|x| x.map(|y| y as i32)).collect()
}

pub fn elem_type(r: &Req) -> &str {
    let t = r.s("t");
    if t.is_empty() { "f64" } else { t }
}
pub fn out_type(r: &Req) -> &str {
    let t = r.s("o");
    if t.is_empty() { "f64" } else { t }
}

/// bind `$v` to the series `$key` of the request as a `Vec<T>` for every null-capable and
/// integer element type
#[macro_export]
macro_rules! with_xs_all {
    ($r:expr, $key:expr, $v:ident => $body:expr) => {{
        let __s = $r.series($key);
        match $crate::types::elem_type($r) {
            "f64" => { let $v = $crate::types::as_f64(&__s); $body },
            "f32" => { let $v = $crate::types::as_f32(&__s); $body },
            "i32" => { let $v = $crate::types::as_i32(&__s); $body },
            "i64" => { let _ = &__s; let $v = $crate::types::i64_series($r, $key); $body },
            "of64" => { let $v = $crate::types::as_of64(&__s); $body },
            "oi32" => { let $v = $crate::types::as_oi32(&__s); $body },
            t => panic!("unknown element type {t}"),
        }
    }};
}
/// plain numeric element types only (T: Number)
#[macro_export]
macro_rules! with_xs_num {
    ($r:expr, $key:expr, $v:ident => $body:expr) => {{
        let __s = $r.series($key);
        match $crate::types::elem_type($r) {
            "f64" => { let $v = $crate::types::as_f64(&__s); $body },
            "f32" => { let $v = $crate::types::as_f32(&__s); $body },
            "i32" => { let $v = $crate::types::as_i32(&__s); $body },
            "i64" => { let _ = &__s; let $v = $crate::types::i64_series($r, $key); $body },
            t => panic!("unsupported element type {t}"),
        }
    }};
}
/// f64 / Option<f64> only (used by the wide backend matrices)
#[macro_export]
macro_rules! with_xs_f {
    ($r:expr, $key:expr, $v:ident => $body:expr) => {{
        let __s = $r.series($key);
        match $crate::types::elem_type($r) {
            "f64" => { let $v = $crate::types::as_f64(&__s); $body },
            "of64" => { let $v = $crate::types::as_of64(&__s); $body },
            t => panic!("unsupported element type {t}"),
        }
    }};
}
/// f64 only
#[macro_export]
macro_rules! with_xs_f64 {
    ($r:expr, $key:expr, $v:ident => $body:expr) => {{
        let __s = $r.series($key);
        let $v = $crate::types::as_f64(&__s);
        $body
    }};
}
#[macro_export]
macro_rules! with_out {
    ($r:expr, $O:ident => $body:expr) => {{
        match $crate::types::out_type($r) {
            "f64" => { type $O = f64; $body },
            "f32" => { type $O = f32; $body },
            "of64" => { type $O = Option<f64>; $body },
            "i32" => { type $O = i32; $body },
            "oi32" => { type $O = Option<i32>; $body },
            t => panic!("unknown output type {t}"),
        }
    }};
}
