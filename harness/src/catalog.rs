//! catalogue of the rolling entry points, shared by the cross-cutting properties (C05–C08, C10)
pub struct RollFn {
    pub name: &'static str,
    /// 1 or 2 input series
    pub arity: u8,
    /// null-aware (accepts NaN / None) or plain (null-free numeric input only)
    pub nullable: bool,
    /// results are exact in the implementation (min, max, arg, rank): compared without tolerance
    pub exact: bool,
    /// "feat" | "cmp" | "norm" | "binary" | "regx" | "trend" | "fdiff"
    pub family: &'static str,
    /// highest power of the inputs accumulated (drives the history-replacement tolerance)
    pub pow: u32,
    /// omitted min_periods is only specified for len >= w (DESIGN 5.3)
    pub mp_none_needs_len_ge_w: bool,
    /// extra request parameters (e.g. " d=1/2")
    pub extra: &'static str,
    /// natural scale of the output, used as the floor of the relative tolerance:
    /// "1" dimensionless, "level" = sqrt(E[y^2]), "sd", "var", "sdxsdy", "sdy/sdx"
    pub unit: &'static str,
}

const fn f(name: &'static str, nullable: bool, pow: u32) -> RollFn {
    RollFn { name, arity: 1, nullable, exact: false, family: "feat", pow, mp_none_needs_len_ge_w: false, extra: "", unit: "1" }
}

const fn fu(name: &'static str, nullable: bool, pow: u32, unit: &'static str) -> RollFn {
    RollFn { name, arity: 1, nullable, exact: false, family: "feat", pow, mp_none_needs_len_ge_w: false, extra: "", unit }
}

pub const ROLL: &[RollFn] = &[
    f("ts_vsum", true, 1), f("ts_vmean", true, 1), f("ts_vewm", true, 1), f("ts_vwma", true, 1),
    fu("ts_vstd", true, 2, "sd"), fu("ts_vvar", true, 2, "var"), f("ts_vskew", true, 3), f("ts_vkurt", true, 4),
    f("ts_sum", false, 1), f("ts_mean", false, 1), f("ts_ewm", false, 1), f("ts_wma", false, 1),
    fu("ts_std", false, 2, "sd"), fu("ts_var", false, 2, "var"), f("ts_skew", false, 3), f("ts_kurt", false, 4),
    RollFn { name: "ts_vmin", arity: 1, nullable: true, exact: true, family: "cmp", pow: 1, mp_none_needs_len_ge_w: true, extra: "", unit: "1" },
    RollFn { name: "ts_vmax", arity: 1, nullable: true, exact: true, family: "cmp", pow: 1, mp_none_needs_len_ge_w: true, extra: "", unit: "1" },
    RollFn { name: "ts_vargmin", arity: 1, nullable: true, exact: true, family: "cmp", pow: 1, mp_none_needs_len_ge_w: true, extra: "", unit: "1" },
    RollFn { name: "ts_vargmax", arity: 1, nullable: true, exact: true, family: "cmp", pow: 1, mp_none_needs_len_ge_w: true, extra: "", unit: "1" },
    RollFn { name: "ts_vrank", arity: 1, nullable: true, exact: true, family: "cmp", pow: 1, mp_none_needs_len_ge_w: true, extra: " pct=0 rev=0", unit: "1" },
    RollFn { name: "ts_vminmaxnorm", arity: 1, nullable: true, exact: false, family: "norm", pow: 1, mp_none_needs_len_ge_w: false, extra: "", unit: "1" },
    RollFn { name: "ts_vzscore", arity: 1, nullable: true, exact: false, family: "norm", pow: 2, mp_none_needs_len_ge_w: false, extra: "", unit: "1" },
    RollFn { name: "ts_vcov", arity: 2, nullable: true, exact: false, family: "binary", pow: 2, mp_none_needs_len_ge_w: false, extra: "", unit: "sdxsdy" },
    RollFn { name: "ts_vcorr", arity: 2, nullable: true, exact: false, family: "binary", pow: 2, mp_none_needs_len_ge_w: false, extra: "", unit: "1" },
    RollFn { name: "ts_vregx_alpha", arity: 2, nullable: true, exact: false, family: "regx", pow: 2, mp_none_needs_len_ge_w: false, extra: "", unit: "level" },
    RollFn { name: "ts_vregx_beta", arity: 2, nullable: true, exact: false, family: "regx", pow: 2, mp_none_needs_len_ge_w: false, extra: "", unit: "sdy/sdx" },
    RollFn { name: "ts_vregx_resid_mean", arity: 2, nullable: true, exact: false, family: "regx", pow: 2, mp_none_needs_len_ge_w: false, extra: "", unit: "sd" },
    RollFn { name: "ts_vregx_resid_std", arity: 2, nullable: true, exact: false, family: "regx", pow: 2, mp_none_needs_len_ge_w: false, extra: "", unit: "sd" },
    RollFn { name: "ts_vregx_resid_skew", arity: 2, nullable: true, exact: false, family: "regx", pow: 3, mp_none_needs_len_ge_w: false, extra: "", unit: "1" },
    RollFn { name: "ts_vreg", arity: 1, nullable: true, exact: false, family: "trend", pow: 2, mp_none_needs_len_ge_w: false, extra: "", unit: "level" },
    RollFn { name: "ts_vtsf", arity: 1, nullable: true, exact: false, family: "trend", pow: 2, mp_none_needs_len_ge_w: false, extra: "", unit: "level" },
    RollFn { name: "ts_vreg_slope", arity: 1, nullable: true, exact: false, family: "trend", pow: 2, mp_none_needs_len_ge_w: false, extra: "", unit: "sd" },
    RollFn { name: "ts_vreg_intercept", arity: 1, nullable: true, exact: false, family: "trend", pow: 2, mp_none_needs_len_ge_w: false, extra: "", unit: "level" },
    RollFn { name: "ts_vreg_resid_mean", arity: 1, nullable: true, exact: false, family: "trend", pow: 2, mp_none_needs_len_ge_w: false, extra: "", unit: "var" },
    // CATALOG-APPEND (entries of merged properties go above this line)
];

pub fn find(name: &str) -> Option<&'static RollFn> {
    ROLL.iter().find(|f| f.name == name)
}

/// non-collinear, non-monotone value patterns for mask / backend matrices
pub const VALS_A: &[&str] = &["1", "4", "2", "8", "5", "7", "3", "6", "9", "2", "7", "1"];
pub const VALS_B: &[&str] = &["2", "1", "5", "3", "8", "4", "9", "7", "6", "3", "1", "8"];

/// Per-position relative tolerance for cancellation-prone closed forms.
/// The one-pass formulas compute `var = E[x^2] - mean^2` (and higher central moments likewise):
/// with exact power sums the only error is the rounding of the final operations, amplified by
/// the conditioning `kappa = E[x^2] / var` of the window: relative error ~ eps * kappa^(pow/2).
/// Returns `(1e-9 + 256 * 2^-52 * kappa^(pow/2), floor)` per output position — the comparison is
/// `|impl - model| <= rel * max(floor, |model|)` with `floor` the natural scale of the output (see `unit`) — for entry points with
/// `pow >= 2` (kappa taken over both series for two-series functions), None otherwise.
pub fn cond_tols(r: &crate::proto::Req) -> Option<Vec<(f64, f64)>> {
    let f = find(&r.f)?;
    if f.pow < 2 || !r.has("w") {
        return None;
    }
    let w = r.usize("w").max(1);
    let xs = r.series("xs");
    let ys = if f.arity == 2 { r.series("ys") } else { vec![] };
    // (kappa, sd, level) of the masked window
    let kappa = |v: &[Option<f64>], mask: &[bool]| -> (f64, f64, f64) {
        let vals: Vec<f64> = v.iter().zip(mask.iter()).filter(|(_, m)| **m).filter_map(|(x, _)| *x).collect();
        let n = vals.len() as f64;
        if vals.len() < 2 {
            return (1.0, 0.0, vals.first().map(|x| x.abs()).unwrap_or(0.0));
        }
        let mut s1 = 0.0;
        let mut s2 = 0.0;
        for x in &vals {
            s1 += x;
            s2 += x * x;
        }
        let ex2 = s2 / n;
        let var = ex2 - (s1 / n) * (s1 / n);
        let k = if var <= 0.0 || ex2 <= 0.0 { 1.0 } else { (ex2 / var).max(1.0) };
        (k, var.max(0.0).sqrt(), ex2.max(0.0).sqrt())
    };
    let mut out = Vec::with_capacity(xs.len());
    for i in 0..xs.len() {
        let lo = (i + 1).saturating_sub(w);
        let wx = &xs[lo..=i];
        // first series of a two-series function is y, the second x
        let (k, sdy, lvy, sdx) = if f.arity == 2 && ys.len() == xs.len() {
            let wy = &ys[lo..=i];
            let mask: Vec<bool> = wx.iter().zip(wy.iter()).map(|(a, b)| a.is_some() && b.is_some()).collect();
            let (k1, s1, l1) = kappa(wx, &mask);
            let (k2, s2, _) = kappa(wy, &mask);
            (k1.max(k2), s1, l1, s2)
        } else {
            let mask = vec![true; wx.len()];
            let (k1, s1, l1) = kappa(wx, &mask);
            (k1, s1, l1, s1)
        };
        let floor = match f.unit {
            "level" => lvy,
            "sd" => sdy,
            "var" => sdy * sdy,
            "sdxsdy" => sdy * sdx,
            "sdy/sdx" => if sdx > 0.0 { sdy / sdx } else { 1.0 },
            _ => 1.0,
        };
        out.push((1e-9 + 256.0 * f64::EPSILON * k.powf(f.pow as f64 / 2.0), floor));
    }
    Some(out)
}
