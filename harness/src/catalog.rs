//! catalogue of the rolling entry points, shared by the cross-cutting properties (C05–C08, C10)
pub struct RollFn {
    pub name: &'static str,
    /// 1 or 2 input series
    pub arity: u8,
    /// null-aware (accepts NaN / None) or plain (null-free numeric input only)
    pub nullable: bool,
    /// results are exact in the implementation (min, max, arg, rank): compared without tolerance
    pub exact: bool,
    /// "feat" | "cmp" | "norm" | "binary" | "regx" | "trend" | "fdiff"
    pub family: &'static str,
    /// highest power of the inputs accumulated (drives the history-replacement tolerance)
    pub pow: u32,
    /// omitted min_periods is only specified for len >= w (DESIGN 5.3)
    pub mp_none_needs_len_ge_w: bool,
    /// extra request parameters (e.g. " d=1/2")
    pub extra: &'static str,
}

const fn f(name: &'static str, nullable: bool, pow: u32) -> RollFn {
    RollFn { name, arity: 1, nullable, exact: false, family: "feat", pow, mp_none_needs_len_ge_w: false, extra: "" }
}

pub const ROLL: &[RollFn] = &[
    f("ts_vsum", true, 1), f("ts_vmean", true, 1), f("ts_vewm", true, 1), f("ts_vwma", true, 1),
    f("ts_vstd", true, 2), f("ts_vvar", true, 2), f("ts_vskew", true, 3), f("ts_vkurt", true, 4),
    f("ts_sum", false, 1), f("ts_mean", false, 1), f("ts_ewm", false, 1), f("ts_wma", false, 1),
    f("ts_std", false, 2), f("ts_var", false, 2), f("ts_skew", false, 3), f("ts_kurt", false, 4),
    // CATALOG-APPEND (entries of merged properties go above this line)
];

pub fn find(name: &str) -> Option<&'static RollFn> {
    ROLL.iter().find(|f| f.name == name)
}

/// non-collinear, non-monotone value patterns for mask / backend matrices
pub const VALS_A: &[&str] = &["1", "4", "2", "8", "5", "7", "3", "6", "9", "2", "7", "1"];
pub const VALS_B: &[&str] = &["2", "1", "5", "3", "8", "4", "9", "7", "6", "3", "1", "8"];
