#!/usr/bin/env python3
"""cherry-pick an agent's fix commit into /repo WITHOUT its edits to test modules
(the existing suite must stay unedited); keeps the original message."""
import subprocess, sys
sha = sys.argv[1]
def sh(*a, **k): return subprocess.run(a, cwd="/repo", text=True, capture_output=True, **k)
msg = sh("git", "log", "-1", "--format=%B", sha).stdout
r = sh("git", "cherry-pick", "-n", sha)
if r.returncode != 0:
    print("CONFLICT", r.stdout, r.stderr); sys.exit(1)
files = sh("git", "diff", "--cached", "--name-only").stdout.split()
for f in files:
    new = open("/repo/" + f).read()
    old = sh("git", "show", "HEAD:" + f).stdout
    if "#[cfg(test)]" in new and "#[cfg(test)]" not in old:
        merged = new.split("#[cfg(test)]")[0].rstrip() + "\n"
        open("/repo/" + f, "w").write(merged)
        print("dropped new test module from", f)
    elif "#[cfg(test)]" in new and "#[cfg(test)]" in old:
        merged = new.split("#[cfg(test)]")[0] + "#[cfg(test)]" + old.split("#[cfg(test)]", 1)[1]
        if merged != new:
            open("/repo/" + f, "w").write(merged)
            print("stripped test edits from", f)
    sh("git", "add", f)
if not sh("git", "diff", "--cached", "--name-only").stdout.strip():
    print("nothing left to commit"); sys.exit(1)
r = sh("git", "commit", "-q", "-m", msg.strip())
print(sh("git", "log", "--oneline", "-1").stdout.strip())
