#!/bin/bash
# retest_seed.sh <ID> [props...]: apply the stored/received patch to /repo, run the given checks, undo
ID=$1; shift; D=/tmp/seed/$ID; [ -f $D/patch.diff ] || D=/verif/seeded/$ID
cd /repo && git apply $D/patch.diff || exit 1
cd /verif
for P in "$@"; do R=$(./check $P 2>&1 | grep -E "^VIOLATION|^OK" | head -1 | cut -c1-110); echo "$ID vs $P: $R"; done
git -C /repo checkout -- .
