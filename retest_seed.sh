#!/bin/bash
# retest_seed.sh <ID> [props...]: apply the stored/received patch to /repo, run the given checks, undo
ID=$1; shift; D=/tmp/seed/$ID; [ -f $D/patch.diff ] || D=/verif/seeded/$ID
cd /repo && git apply $D/patch.diff || exit 1
cd /verif
for P in "$@"; do R=$(./check $P 2>&1 | grep -E "^VIOLATION|^OK" | head -1 | cut -c1-110); echo "$ID vs $P: $R"; done
git -C /repo checkout -- .
# regenerate the translated files from the restored tree
python3 /verif/translator/extract.py /repo /verif/lean/Tv/Generated.lean >/dev/null
python3 /verif/translator/closures.py /repo /verif/lean/Tv/GenClosures.lean >/dev/null
python3 /verif/translator/aggs.py /repo /verif/lean/Tv/GenAgg.lean >/dev/null
python3 /verif/translator/maps.py /repo /verif/lean/Tv/GenMap.lean >/dev/null
python3 /verif/translator/drivers.py /repo /verif/lean/Tv/GenDrv.lean >/dev/null
python3 /verif/translator/gens.py /repo /verif/lean/Tv/GenLin.lean >/dev/null
python3 /verif/translator/parts.py /repo /verif/lean/Tv/GenPart.lean >/dev/null
python3 /verif/translator/fdiff.py /repo /verif/lean/Tv/GenFd.lean >/dev/null
python3 /verif/translator/finals.py /repo /verif/lean/Tv/GenFin.lean >/dev/null
python3 /verif/translator/quant.py /repo /verif/lean/Tv/GenQuant.lean >/dev/null
python3 /verif/translator/ranks.py /repo /verif/lean/Tv/GenRank.lean >/dev/null
python3 /verif/translator/reads.py /repo /verif/lean/Tv/GenReads.lean >/dev/null
