#!/bin/bash
# confirm a seeded mutation: demo fails with the change and passes without, existing suite passes,
# then run the property's check against /repo with the patch applied (and undo it)
P=$1; ID=${2:-$P}; WT=/tmp/seedwt/$ID; D=/tmp/seed/$ID; FEAT=${3:-}
cd $WT || exit 1
echo "== demo WITH change"; cargo test -p tevec --test seed_demo --offline $FEAT 2>&1 | grep -E "^test result|FAILED|error\[" | head -3
mv tevec/tests/seed_demo.rs /tmp/seed_demo_$ID.rs
echo "== suite WITH change"; cargo test --workspace --offline 2>&1 | grep -E "^test result" | awk '{p+=$4; f+=$6} END{print "passed",p,"failed",f}'
git apply -R $D/patch.diff || { echo "cannot revert the patch in the worktree"; }
mkdir -p tevec/tests; cp /tmp/seed_demo_$ID.rs tevec/tests/seed_demo.rs
echo "== demo WITHOUT change"; cargo test -p tevec --test seed_demo --offline $FEAT 2>&1 | grep -E "^test result|FAILED|error\[" | head -3
rm tevec/tests/seed_demo.rs; git apply $D/patch.diff; cp /tmp/seed_demo_$ID.rs tevec/tests/seed_demo.rs
cd /repo; git apply --check $D/patch.diff 2>&1 | head -2 && git apply $D/patch.diff
echo "== check $P against patched /repo"; cd /verif; ./check $P 2>&1 | grep -E "^VIOLATION|^OK|^KNOWN" | head -4
git -C /repo checkout -- .; git -C /repo status --short | head -2
python3 /verif/translator/extract.py /repo /verif/lean/Tv/Generated.lean >/dev/null
python3 /verif/translator/closures.py /repo /verif/lean/Tv/GenClosures.lean >/dev/null
python3 /verif/translator/aggs.py /repo /verif/lean/Tv/GenAgg.lean >/dev/null
python3 /verif/translator/maps.py /repo /verif/lean/Tv/GenMap.lean >/dev/null
python3 /verif/translator/drivers.py /repo /verif/lean/Tv/GenDrv.lean >/dev/null
python3 /verif/translator/gens.py /repo /verif/lean/Tv/GenLin.lean >/dev/null
python3 /verif/translator/parts.py /repo /verif/lean/Tv/GenPart.lean >/dev/null
python3 /verif/translator/fdiff.py /repo /verif/lean/Tv/GenFd.lean >/dev/null
python3 /verif/translator/finals.py /repo /verif/lean/Tv/GenFin.lean >/dev/null
python3 /verif/translator/quant.py /repo /verif/lean/Tv/GenQuant.lean >/dev/null
python3 /verif/translator/ranks.py /repo /verif/lean/Tv/GenRank.lean >/dev/null
python3 /verif/translator/reads.py /repo /verif/lean/Tv/GenReads.lean >/dev/null
