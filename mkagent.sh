#!/bin/sh
# create an isolated workspace for a helper agent: /scratch/agents/$1/{verif,repo}
set -e
A=/scratch/agents/$1
mkdir -p $A
git -C /repo worktree add -f $A/repo -b agent-$1 >/dev/null 2>&1 || true
rsync -a --exclude .build --exclude .git --exclude replays /verif/ $A/verif/
sed -i "s#/repo/#$A/repo/#g" $A/verif/harness/Cargo.toml

echo "export TV_REPO=$A/repo" > $A/env.sh
echo $A
