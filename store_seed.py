#!/usr/bin/env python3
import json,sys,shutil,os
p,ident,caught,note=sys.argv[1],sys.argv[2],sys.argv[3],sys.argv[4]
d=f'/verif/seeded/{ident}'; os.makedirs(d,exist_ok=True)
for f in ['patch.diff','seed_demo.rs']: shutil.copy(f'/tmp/seed/{ident}/{f}',d)
m=json.load(open(f'/tmp/seed/{ident}/meta.json'))
m['property']=p
m['confirmed']={"by":"confirm_seed.sh (agent's scratch worktree + /repo)","demo_with_change":"fails","demo_without_change":"passes","existing_suite_with_change":"passes (cargo test --workspace --offline)","check":note}
m['caught_by']=[c for c in caught.split(',') if c]
json.dump(m,open(f'{d}/meta.json','w'),indent=1)
