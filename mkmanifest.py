#!/usr/bin/env python3
"""regenerate MANIFEST.json from the table below (keeps it valid at all times)"""
import json, os
ROOT = os.path.dirname(os.path.abspath(__file__))
CLAIMED = {
 # id: (design_ref, level text, level_note, technique)
 "C01": ("DESIGN 6/C01", "Lean 4 theorem tsFeat_exact (Tv/Thm/C01.lean): for every series, window >= 1, min_periods and position, each of the 8 incremental closures (sum, mean, ewm, wma, std, var, skew, kurt; null-aware and plain) under either driver shape emits exactly the statistic evaluated from scratch on the non-null elements of positions max(0,i-w+1)..=i (invariant: accumulator state = power sums / weighted sums of the current window, by induction over the add/remove history, no length bound). Exact-rational model; tied to the code by a differential run over all 18 entry points (+ ts_fdiff/ts_vfdiff, which are covered by correspondence only so far) x element/output types, exhaustive over small alphabets plus random series.",
         "Lean kernel; axioms propext/Quot.sound/Classical.choice (Mathlib ring/field_simp over Rat); closures hand-transcribed from features.rs and validated by the correspondence run; IEEE rounding/drift not modelled (inputs are dyadic so power sums are exact in f64); fdiff coefficient theorem pending (correspondence only).",
         "Lean 4 proof (generic refinement run_refines + algebraic invariants) + model/implementation correspondence check"),
 "C05": ("DESIGN 6/C05", "Lean 4: maskTable_matches (the min_periods expression, window clamp, intrinsic minimum and driver of every ts_* entry point, re-extracted from the Rust sources on each run, equal the model's table), feat_len / feat_empty / feat_null_iff (output i is null iff the number of non-null observations of its window is below max k (min (mp or w/2) w)) for every series, window, min_periods; same statements for the other families come from their _exact theorems as they are merged. Correspondence: exhaustive mask-only comparison of every catalogued entry point on 14 input backends, len 0..5 incl. len<w and empty, all null subsets.",
         "Lean kernel; axioms propext/Quot.sound/Classical.choice; translator regexes (fail closed via maskTable_matches); zero-denominator positions accept null or non-null (DESIGN 5.6).",
         "Lean 4 proof (corollaries of the refinement theorems) + translator-regenerated mask table + model/implementation correspondence check"),
 "C06": ("DESIGN 6/C06", "Lean 4: feat_prefix (evaluating on any prefix yields the prefix of the result) and feat_prewindow (output i depends only on positions i+1-w..=i), corollaries of the _exact theorems through the generic windowed_prefix / window_congr lemmas, for all series/cuts/windows/min_periods; relational correspondence on the real code: prefix results compared bit-for-bit for every cut, history replacement compared within rounding (exactly for exact families) and against the model.",
         "Lean kernel; axioms propext/Quot.sound/Classical.choice; the size of the floating-point residue of pre-window history is a rounding fact observed by the run, not proved (DESIGN 5.1).",
         "Lean 4 proof (locality corollaries of refinement theorems) + relational model/implementation correspondence check"),
 "C07": ("DESIGN 6/C07", "Lean 4: each backend adapter is coherent (coherent_vec, coherent_vecdeque for any ring-buffer rotation incl. wrapped, coherent_ndarray for any offset/stride incl. reversed with the repaired try_as_slice, coherent_arc, coherent_opt): len, checked get, iteration, sub-slicing and the contiguous view when offered all describe one logical sequence; algo_view_indep (algorithms that observe a container through these accessors agree on coherent views) and feat_path_indep (fast *_to path = default iterator path = caller-buffer path). Correspondence on the real code: accessor table of 15 backends against the logical list (exhaustive small + random), and every catalogued function on every sized backend x output container x returned/out path against the single model result (full values).",
         "Lean kernel; axioms propext/Quot.sound/Classical.choice; std VecDeque ring buffer and ndarray stride storage are modelled (Ring, Strided), not verified; the Polars backend is not built by the harness (build cost 2 GB / 65 s): not covered, see DESIGN.",
         "Lean 4 proof (coherence of container adapters, path independence) + backend-matrix correspondence check"),
 "C10": ("DESIGN 6/C10", "Lean 4 theorems on the index arithmetic of the drivers and window kernels for every length/window: reads_in_bounds, writes_once (each slot exactly once, nothing else), kernel_range_in_bounds (every index in start..=end of every callback < len, start <= end: covers cmp/norm rescans and reg residual loops), slices_ok, degenerate_clean (window 0 / empty / mismatched second series: panic or fully written output), second_series_reads. Tie to the code: the property oracle is applied directly to the logs of instrumented containers (LogVec validates every uget/uslice, LogOut counts writes per slot at assume_init) over an exhaustive band of lengths, windows 0..=len+3, null subsets, second-series lengths; real Vec inputs run under the debug-profile unsafe-precondition checks (an abort is a verdict).",
         "Lean kernel; axioms propext/Quot.sound/Classical.choice; real memory behaviour is observed (logging containers, UB-check aborts), not modelled; kernel read sets of cmp/norm/reg closures are bounded by the start..=end theorem, their exact access pattern is observed only.",
         "Lean 4 proof (index-arithmetic invariants) + instrumented-container correspondence check"),
 "C19": ("DESIGN 6/C19", "Lean 4 theorems (Tv/Thm/C19.lean) prove for all inputs, over an executable model of linspace.rs / create.rs / own.rs / trusted.rs / uninit.rs: range(a,b,step) with step != 0 is the progression a, a+step, ... cut after exactly max(0, ceil((b-a)/step)) terms (exact rational ceiling) for integer element types (Rust truncating division, identity ceil) and for floats in exact arithmetic, with the membership form 'x in range iff x = a+k*step lies strictly before b in the direction of step'; linspace has n elements a+i*step with step (b-a)/(n-1) (rounded toward zero for integers) and ends at b for floats; full/empty; every collector (plain, trusted, with_len, optional->null, fallible plain/trusted) is the identity on the item sequence for Vec/VecDeque/Array1, fallible collection returns the first error and pulls no item after it; write_trust_iter writes slot i <- item i, or broadcasts a single item, or errs with no uset at all. The pinned integer range (F4) is refuted by a concrete witness and repaired by one fix: commit. The model is tied to the code by an exhaustive differential run (a,b,step in -6..=6 for i32/i64/usize and k/4 floats, n in 0..=8, three containers, every Ok/Err and null pattern up to length 6, buffers 0..=6 x iterators 0..=8 through a logging UninitRefMut and the real uninit buffers) plus a seeded random stream.",
         "Lean kernel; axioms propext/Quot.sound/Classical.choice; model hand-transcribed and validated by the correspondence run; f64 is modelled by exact rationals (inputs k/4, results compared within 1e-9 rel.), so 'up to rounding' is not proved; integer overflow out of scope (DESIGN 5.2); std collect/FromIterator, VecDeque::from, Array1::from_vec/from_iter are modelled as order-preserving, not verified; Linspace::next_back is proved on the model but not reachable from the public API (module private), so not exercised by the harness; trusted collectors are only called under their contract (hint = true length), the model shows a violated contract is UB; polars backend not exercised.",
         "Lean 4 proof (induction over fuel / item lists, exact rational ceiling vs truncating division) + model/implementation correspondence check"),
 "C02": ("DESIGN 6/C02", "Lean 4 theorems (Tv/Thm/C02.lean) prove for every length, window >= 1 and both driver shapes that the callback sequence is i -> (start i, i) over 0..len, slots written = 0..len in order, slices = window max(0,i-w+1)..=i; the model is tied to the code by an exhaustive differential run of all driver entry points x 15 input backends x 3 output containers x returned/out-buffer paths with a recording stateful callback.",
         "Lean kernel; axioms propext/Quot.sound/Classical.choice; index-level model of view.rs loops hand-written and validated by the correspondence run; std/ndarray internals observed, not verified.",
         "Lean 4 proof (induction over index lists) + model/implementation correspondence check"),
}
PENDING_REASON = "check not built yet in this session (planned, see DESIGN section 11); not a statement that the technique cannot apply"
props = [json.loads(l)["id"] for l in open(os.path.join(ROOT, "properties.jsonl"))]
checks = []
for pid in props:
    if pid in CLAIMED:
        ref, text, note, tech = CLAIMED[pid]
        checks.append({
            "property_id": pid,
            "quick_cmd": f"./check {pid} --tier quick",
            "thorough_cmd": f"./check {pid} --tier thorough",
            "evidence_file": f"/verif/evidence/{pid}.json",
            "replay_cmd_template": f"./check {pid} --replay {{path}}",
            "engine": "lean4+tvh",
            "level_claimed": {"category": "proof", "text": text, "design_ref": ref},
            "level_note": note,
            "technique": tech,
        })
m = {
 "version": 1,
 "setup_cmd": "./setup.sh",
 "hooks": {"guard": "--cfg tevec_verif", "enable": "none needed: all instrumentation goes through tevec's public traits implemented by the harness", "baseline_off_cmd": "cd /repo && cargo test --workspace --no-fail-fast --offline", "source_commits": [], "add_only": True},
 "engines": [{"name": "lean4+tvh", "path": "/verif/check", "serves_properties": [c["property_id"] for c in checks], "kind_free_text": "Lean 4 model + theorems (lean/), Rust correspondence harness (harness/), translator (translator/), python orchestrator (check)"}],
 "checks": checks,
 "not_applicable": [{"property_id": p, "reason": PENDING_REASON} for p in props if p not in CLAIMED],
 "notes": "See DESIGN.md. Known findings: known_findings.json.",
}
json.dump(m, open(os.path.join(ROOT, "MANIFEST.json"), "w"), indent=1)
print("claimed:", [c["property_id"] for c in checks])
