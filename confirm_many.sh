#!/bin/bash
# confirm_many.sh <round-suffix> <ids...> : run confirm_seed for each, print a one-line summary
for ID in "$@"; do
  P=${ID:0:3}
  FEAT="--features vecdeque,ndarray,fdiff"
  OUT=$(./confirm_seed.sh $P $ID "$FEAT" 2>&1)
  W=$(echo "$OUT" | sed -n '/demo WITH change/,/suite WITH/p' | grep -c "FAILED")
  S=$(echo "$OUT" | grep "^passed" | head -1)
  WO=$(echo "$OUT" | sed -n '/demo WITHOUT change/,/check/p' | grep "test result" | head -1 | cut -c1-40)
  V=$(echo "$OUT" | grep -c "^VIOLATION")
  NF=$(echo "$OUT" | grep -c "no-failing-input-found")
  OK=$(echo "$OUT" | grep -c "^OK property")
  echo "$ID demo_fail_with=$W suite=[$S] without=[$WO] violations=$V nofail=$NF ok=$OK"
done
