#!/usr/bin/env python3
"""register a merged property: Main.lean handler, props/mod.rs hooks, mkmanifest CLAIMED entry (copied from the agent's mkmanifest.py)"""
import re, sys
a = sys.argv[1]            # e.g. c19
P = a.upper()
flags = sys.argv[2:]        # optional: compare known tags nontrivial
A = f"/scratch/agents/{a}/verif"
# Main.lean
p = "/verif/lean/Main.lean"; s = open(p).read()
if f"import Tv.Handlers.{P}\n" not in s:
    s = s.replace("import Tv.Handlers.Cross\n", f"import Tv.Handlers.Cross\nimport Tv.Handlers.{P}\n")
    s = re.sub(r"def baseHandlers : List Handler := \[([^\]]*)\]", lambda m: f"def baseHandlers : List Handler := [{m.group(1)}, {a}]", s)
    open(p, "w").write(s)
# props/mod.rs
p = "/verif/harness/src/props/mod.rs"; s = open(p).read()
if f"pub mod {a};" not in s:
    s = s.replace("pub mod c02;", f"pub mod c02;\npub mod {a};", 1)
    s = s.replace("    c01::run(r).or_else(|| c02::run(r))", f"    c01::run(r).or_else(|| c02::run(r)).or_else(|| {a}::run(r))")
    s = s.replace('        "C02" => c02::generate(tier, rng),', f'        "C02" => c02::generate(tier, rng),\n        "{P}" => {a}::generate(tier, rng),')
    s = s.replace('        "C02" => c02::rule(tier),', f'        "C02" => c02::rule(tier),\n        "{P}" => {a}::rule(tier),')
    s = s.replace('        "C02" => c02::valid_case(r),', f'        "C02" => c02::valid_case(r),\n        "{P}" => {a}::valid_case(r),')
    if "compare" in flags:
        s = s.replace('        "C05" => Some(c05::compare(r, imp, model)),', f'        "C05" => Some(c05::compare(r, imp, model)),\n        "{P}" => {a}::compare(r, imp, model),')
    open(p, "w").write(s)
# mkmanifest
src = open(f"{A}/mkmanifest.py").read()
m = re.search(r'^ "%s": \(.*?\n(?:         .*\n)*' % P, src, re.M)
p = "/verif/mkmanifest.py"; s = open(p).read()
if m and f' "{P}": (' not in s:
    s = s.replace(' "C02": ("DESIGN 6/C02"', m.group(0) + ' "C02": ("DESIGN 6/C02"')
    open(p, "w").write(s)
print("registered", P)
