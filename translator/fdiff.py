#!/usr/bin/env python3
"""Statement-level translator for the fractional-difference code of tevec/src/rolling.rs:
the free function `fdiff_coef` and the two `rolling_custom` closures of `ts_fdiff` / `ts_vfdiff`
->  `Tv.GenFd.fdiff_coef.run`, `Tv.GenFd.ts_fdiff.emit`, `Tv.GenFd.ts_vfdiff.{minPeriods, emit}`.

Uses the list algebra of maps.py (`titer()` / `rev()` / `zip` / `filter(IsNone::not_none)` /
stateful `map`), plus: `(a..b)` as `List.range' a (b - a)`, `let f = |acc, (v, c)| …;` bound as a pure
closure and `.fold(init, f)` as `List.foldl`, `arr` (the slice the driver hands to the closure) as a
list parameter, `ffi::binom(d, v as f64)` as the parameter `binom d v` (the C++ routine is outside the
model: DESIGN 9), a call of the sibling `fdiff_coef`.
Anything outside the subset is emitted as `parsed := false` (fail closed).
"""
import re, sys, os, importlib.util

here = os.path.dirname(os.path.abspath(__file__))
_argv = sys.argv
sys.argv = [_argv[0], "/nonexistent", "/dev/null"]
spec = importlib.util.spec_from_file_location("maps", os.path.join(here, "maps.py"))
M = importlib.util.module_from_spec(spec)
spec.loader.exec_module(M)
sys.argv = _argv
C = M.C
Unsupported = C.Unsupported

repo = sys.argv[1] if len(sys.argv) > 1 else "/repo"
outp = sys.argv[2] if len(sys.argv) > 2 else "GenFd.lean"
REL = "tevec/src/rolling.rs"


class FdEmit(M.MapEmit):
    plain = False          # ts_fdiff: null-free items (`Rat`)

    def ex0(self, e, env, expect=None):
        k = e[0]
        if k == "paren" and e[1][0] == "bin" and e[1][1] in ("..", "..="):
            rng = e[1]
            a, ta = self.ex0(rng[2], env)
            b, tb = self.ex0(rng[3], env)
            if ta != "Nat" or tb != "Nat":
                raise Unsupported("range bounds")
            n = f"({b} + 1 - {a})" if rng[1] == "..=" else f"({b} - {a})"
            return f"(List.range' {a} {n})", ("list", "Nat")
        if k == "bin" and e[1] == "%":
            a, ta = self.ex0(e[2], env)
            b, tb = self.ex0(e[3], env)
            if ta == tb == "Nat":
                return f"({a} % {b})", "Nat"
        if k == "call":
            name, args = e[1], e[2]
            if name == "ffi::binom" and len(args) == 2:
                d, td = self.ex0(args[0], env)
                v, tv = self.ex0(args[1], env)
                if td != "Rat":
                    raise Unsupported("binom order")
                # `v as f64` of a natural number: the routine is read on naturals
                m = re.fullmatch(r"\(\((\w+) : Nat\) : Rat\)", v)
                if tv != "Rat" or not m:
                    raise Unsupported("binom index")
                return f"(binom {d} {m.group(1)})", "Rat"
            if name == "fdiff_coef" and len(args) == 2 and "fdiff_coef" in getattr(self, "fsiblings", {}):
                d, td = self.ex0(args[0], env)
                n, tn = self.ex0(args[1], env)
                if td != "Rat" or tn != "Nat":
                    raise Unsupported("fdiff_coef arguments")
                return f"(fdiff_coef.run binom {d} {n})", ("list", "Rat")
        if k == "path" and e[1] == "IsNone::not_none":
            return "Option.isSome", "Mask"
        if k == "mcall":
            name, args = e[2], e[3]
            if name == "titer" and not args and e[1][0] == "path" and M.is_list(env.get(e[1][1])):
                return C.lname(e[1][1]), env[e[1][1]]
            if name == "titer" and not args and e[1][0] in ("call", "mcall"):
                r, tr = self.ex0(e[1], env)
                if M.is_list(tr):
                    return r, tr
            if name == "count_valid" and not args:
                r, tr = self.ex0(e[1], env)
                if M.is_list(tr) and tr[1] == "Elem":
                    return f"({r}.filter Option.isSome).length", "Nat"
            if name == "filter" and args == [("path", "IsNone::not_none")]:
                r, tr = self.ex0(e[1], env)
                if M.is_list(tr) and tr[1] == "Elem":
                    return f"({r}.filter Option.isSome)", tr
            if name == "rev" and not args:
                r, tr = self.ex0(e[1], env)
                if M.is_list(tr):
                    return f"{r}.reverse", tr
            if name == "zip" and len(args) == 1:
                r, tr = self.ex0(e[1], env)
                a, ta = self.ex0(args[0], env)
                if M.is_list(tr) and M.is_list(ta):
                    return f"({r}.zip {a})", ("list", ("tuple", (tr[1], ta[1])))
            if name == "fold" and len(args) == 2:
                r, tr = self.ex0(e[1], env)
                if not M.is_list(tr):
                    raise Unsupported("fold receiver")
                i, ti = self.ex0(args[0], env)
                if ti != "Rat":
                    raise Unsupported("fold accumulator")
                f = args[1]
                if f[0] == "path" and isinstance(env.get(f[1]), tuple) and env[f[1]][0] == "pureclosure":
                    cl = env[f[1]][1]
                elif f[0] == "closure":
                    cl = f
                else:
                    raise Unsupported("fold function")
                if len(cl[1]) != 2 or cl[1][0][0] != "pvar":
                    raise Unsupported("fold closure parameters")
                env2 = {k_: v_ for k_, v_ in env.items()}
                env2[cl[1][0][1]] = "Rat"
                ptxt = self.bind_pat(cl[1][1], tr[1], env2)
                if [o for o in C.assigned_outer(cl[2]) if o in env]:
                    raise Unsupported("fold closure assigns")
                b, tb = self.effect(cl[2], env2, [], "Rat")
                if tb != "Rat":
                    raise Unsupported(f"fold closure result {tb}")
                body = "(\n" + C.indent(b) + ")" if "\n" in b else f"({b})"
                return f"(List.foldl (fun {C.lname(cl[1][0][1])} {ptxt} => {body}) {i} {r})", "Rat"
            if name == "map" and len(args) == 1 and args[0][0] == "closure":
                r, tr = self.ex0(e[1], env)
                cl = args[0]
                if M.is_list(tr) and tr[1] == "Nat" and len(cl[1]) == 1 and cl[1][0][0] == "pvar":
                    state = [o for o in C.assigned_outer(cl[2], frozenset([cl[1][0][1]])) if o in env]
                    env2 = dict(env)
                    env2[cl[1][0][1]] = "Nat"
                    b, tb = self.stmts(cl[2][1], cl[2][2], env2, state, None)
                    if tb != "Rat":
                        raise Unsupported(f"map closure result {tb}")
                    if not state:
                        return f"({r}.map fun {C.lname(cl[1][0][1])} =>\n{C.indent(b)})", ("list", "Rat")
                    st = C.tuple_txt([C.lname(o) for o in state])
                    return f"(mapSt (fun {st} {C.lname(cl[1][0][1])} =>\n{C.indent(b)})\n  {st} {r})", ("list", "Rat")
            if name in ("collect_trusted_to_vec", "collect_trusted_vec1") and not args:
                return self.ex0(e[1], env)
            if name in ("cast", "f64") and not args:
                r, tr = self.ex0(e[1], env)
                if tr in ("Rat", "OptF"):
                    return r, tr
            if name == "unwrap" and not args:
                r, tr = self.ex0(e[1], env)
                if tr == "Rat":
                    return r, tr
        return super().ex0(e, env, expect)

    def effect(self, e, env, outs, expect=None):
        # `if v.not_none() { acc + v.unwrap().f64() * c } else { acc }` with a plain float value
        if e[0] == "if" and not outs and expect == "Rat" and e[3] is not None:
            names, rest = self.guard_split(e[1], env)
            if names and not rest:
                t, tt = self.effect(e[2], dict(env, **{n: "Rat" for n in names}), [], "Rat")
                f, ft = self.effect(e[3], dict(env), [], "Rat")
                if tt != "Rat" or ft != "Rat":
                    raise Unsupported(f"guarded branches of types {tt} / {ft}")
                scrut = ", ".join(C.lname(n) for n in names)
                pats = ", ".join(f"some {C.lname(n)}" for n in names)
                wild = ", ".join("_" for _ in names)
                return f"match {scrut} with\n| {pats} =>\n{C.indent(t)}\n| {wild} =>\n{C.indent(f)}", "Rat"
        return super().effect(e, env, outs, expect)

    def stmts(self, ss, tail, env, outs, expect=None):
        # `let f = |acc: f64, (v, c): (T, f64)| …;` that assigns nothing: a pure closure value
        ss2 = []
        for st in ss:
            if (st[0] == "let" and st[3] is not None and st[3][0] == "closure" and st[1][0] == "pvar"
                    and not [o for o in C.assigned_outer(st[3][2]) if o in env]):
                env[st[1][1]] = ("pureclosure", st[3])
                continue
            ss2.append(st)
        return super().stmts(ss2, tail, env, outs, expect)


def free_fn(src, name):
    m = re.search(r"\bfn " + name + r"\s*\(", src)
    if not m:
        raise Unsupported(f"function {name} not found")
    i = src.index("{", m.end())
    d, j = 0, i
    while j < len(src):
        if src[j] == "{":
            d += 1
        elif src[j] == "}":
            d -= 1
            if d == 0:
                break
        j += 1
    return src[m.start(): i], src[i: j + 1]


def method(src, trait, name):
    return M.fn_src(src, trait, name)


def clean(src):
    src = re.sub(r"//[^\n]*", "", src)
    # closure parameter annotations `|acc: f64, (v, c): (T, f64)|` -> `|acc, (v, c)|`
    src = re.sub(r"\|\s*acc\s*:\s*f64\s*,\s*\((\w+)\s*,\s*(\w+)\)\s*:\s*\([^)]*\)\s*\|", r"|acc, (\1, \2)|", src)
    return src


def translate_coef(src):
    sig, body = free_fn(src, "fdiff_coef")
    if re.findall(r"(\w+)\s*:", sig) != ["d", "window"]:
        raise Unsupported("fdiff_coef parameters")
    blk = C.P(C.tokenize(body)).block()
    em = FdEmit()
    em.fsiblings = {}
    env = {"d": "Rat", "window": "Nat"}
    txt, ty = em.stmts(blk[1], blk[2], env, [], None)
    if ty != ("list", "Rat"):
        raise Unsupported(f"fdiff_coef result {ty}")
    return "\n".join(["namespace fdiff_coef",
                      f"/-- `fdiff_coef(d, window)` ({REL}), in source order; `binom d v` stands for `ffi::binom(d, v as f64)` -/",
                      "def run (binom : Rat → Nat → Rat) (d : Rat) (window : Nat) : List Rat :=",
                      C.indent(txt, 2), "def parsed : Bool := true", "end fdiff_coef"])


def translate_ts(src, trait, name, plain):
    sig, body = method(src, trait, name)
    blk = C.P(C.tokenize(body)).block()
    em = FdEmit()
    em.fsiblings = {"fdiff_coef": True}
    em.plain = plain
    env = {"d": "Rat", "window": "Nat"}
    lines = []
    call = None
    has_mp = False
    for st in blk[1]:
        if st[0] != "let" or st[1][0] != "pvar":
            raise Unsupported("entry-point statement")
        nm = st[1][1]
        if nm == "min_periods":
            env2 = dict(env)
            env2["min_periods"] = "OptNat"
            t, ty = em.ex0(st[3], env2)
            if ty != "Nat":
                raise Unsupported("min_periods expression")
            lines.append(("mp", t))
            env["min_periods"] = "Nat"
            has_mp = True
        elif nm == "coef":
            t, ty = em.ex0(st[3], env)
            if ty != ("list", "Rat"):
                raise Unsupported("coef expression")
            lines.append(("coef", t))
            env["coef"] = ("list", "Rat")
        else:
            raise Unsupported(f"entry-point let {nm}")
    call = blk[2]
    if not (call and call[0] == "mcall" and call[1] == ("path", "self") and call[2] == "rolling_custom" and len(call[3]) == 3
            and call[3][0] == ("path", "window") and call[3][1][0] == "closure" and call[3][2] == ("path", "out")):
        raise Unsupported("driver call")
    cl = call[3][1]
    if len(cl[1]) != 1 or cl[1][0][0] != "pvar":
        raise Unsupported("closure parameter")
    arr = cl[1][0][1]
    env[arr] = ("list", "Rat" if plain else "Elem")
    b, tb = em.stmts(cl[2][1], cl[2][2], dict(env), [], "OptF")
    if tb == "Rat":
        b = "\n".join(b.split("\n")[:-1] + ["some (" + b.split("\n")[-1] + ")"])
        tb = "OptF"
    if tb != "OptF":
        raise Unsupported(f"closure result {tb}")
    L = [f"namespace {name}"]
    mp_txt = dict(lines).get("mp")
    coef_txt = dict(lines).get("coef")
    if coef_txt is None:
        raise Unsupported("no coef binding")
    if has_mp:
        L += ["def minPeriods (window : Nat) (min_periods : Option Nat) : Nat :=", C.indent(mp_txt, 2)]
    L += ["def driver : String := \"rolling_custom\"",
          f"/-- the `rolling_custom` closure of `{name}` ({REL}) on one window slice; `min_periods` is the value of the `let` binding -/",
          f"def emit (binom : Rat → Nat → Rat) (d : Rat) (window{' min_periods' if has_mp else ''} : Nat) ({C.lname(arr)} : List ({'Rat' if plain else 'Option Rat'})) : Option Rat :=",
          f"  let coef := {coef_txt}",
          C.indent(b, 2), "def parsed : Bool := true", f"end {name}"]
    return "\n".join(L)


def main():
    out = ["/- GENERATED by translator/fdiff.py from tevec/src/rolling.rs — do not edit. -/",
           "import Tv.GenPrelude", "set_option linter.unusedVariables false", "namespace Tv.GenFd", "open Tv.Gen", ""]
    try:
        src = clean(open(os.path.join(repo, REL), encoding="utf-8", errors="replace").read().split("#[cfg(test)]")[0])
    except Exception as ex:
        src = ""
    names = []
    for name, fn in [("fdiff_coef", lambda: translate_coef(src)),
                     ("ts_fdiff", lambda: translate_ts(src, "RollingFinal", "ts_fdiff", True)),
                     ("ts_vfdiff", lambda: translate_ts(src, "RollingValidFinal", "ts_vfdiff", False))]:
        try:
            txt = fn()
        except Unsupported as ex:
            reason = str(ex).replace('"', "'")
            txt = (f"namespace {name}\n/- UNPARSED: {reason} -/\ndef parsed : Bool := false\n"
                   f"def reason : String := \"{reason}\"\nend {name}")
        except Exception as ex:
            reason = (type(ex).__name__ + ": " + str(ex)).replace('"', "'")
            txt = (f"namespace {name}\n/- UNPARSED: {reason} -/\ndef parsed : Bool := false\n"
                   f"def reason : String := \"{reason}\"\nend {name}")
        names.append(name)
        out.append(txt)
        out.append("")
    out.append("def functions : List String := [" + ", ".join(f'"{n}"' for n in names) + "]")
    out.append("\nend Tv.GenFd")
    new = "\n".join(out) + "\n"
    try:
        old = open(outp, encoding="utf-8").read()
    except FileNotFoundError:
        old = None
    if old != new:
        open(outp, "w", encoding="utf-8").write(new)
    print(f"fdiff.py: {len(names)} functions -> {outp}")


if __name__ == "__main__":
    main()
