#!/usr/bin/env python3
"""Statement-level translator for the two-phase rolling drivers of
tea-core/src/vec_core/cores/view.rs (`rolling_apply_to`, `rolling2_apply_to`,
`rolling_apply_idx_to`, `rolling2_apply_idx_to`, `rolling_custom_to`):
Rust function body  ->  Lean 4 function  `Tv.GenDrv.<fn>.run`  that returns the **log of callback
invocations** the driver performs, or `none` when an `assert!` fails.

Uses the parser / emitter of closures.py.  The loops run in source order; every statement
`out.uset(p, f(a, b, …))` appends the event `(p, a, b, …)` to the log; an unchecked read
`self.uget(i)` / `other.uget(i)` is represented by its index `i`, a slice `self.uslice(a, b)` by its
bounds `(a, b)`; `for i in a..b` is a fold over `List.range' a (b - a)`,
`for (k, e) in (a..b).enumerate()` a fold over `List.range (b - a)` with `e = a + k`;
`assert!(c, …)` yields `none` when `c` is false, `return;` ends the log.
Anything outside the subset is emitted as `parsed := false` (fail closed).
"""
import re, sys, os, importlib.util

here = os.path.dirname(os.path.abspath(__file__))
spec = importlib.util.spec_from_file_location("closures", os.path.join(here, "closures.py"))
_argv = sys.argv
sys.argv = [_argv[0]]
C = importlib.util.module_from_spec(spec)
spec.loader.exec_module(C)
sys.argv = _argv
Unsupported = C.Unsupported

repo = sys.argv[1] if len(sys.argv) > 1 else "/repo"
outp = sys.argv[2] if len(sys.argv) > 2 else "GenDrv.lean"
REL = "tea-core/src/vec_core/cores/view.rs"

# (function, event type in Lean, second series?)
FNS = [
    ("rolling_apply_to", "Nat × Option Nat × Nat", False),
    ("rolling2_apply_to", "Nat × Option (Nat × Nat) × (Nat × Nat)", True),
    ("rolling_apply_idx_to", "Nat × Option Nat × Nat × Nat", False),
    ("rolling2_apply_idx_to", "Nat × Option Nat × Nat × (Nat × Nat)", True),
    ("rolling_custom_to", "Nat × (Nat × Nat)", False),
]


def ty_txt(t):
    if t == "Rd":
        return "Nat"
    if isinstance(t, tuple) and t[0] == "tuple":
        return "(" + " × ".join(ty_txt(x) for x in t[1]) + ")"
    if isinstance(t, tuple) and t[0] == "opt":
        return "Option " + ty_txt(t[1])
    return C.ty_lean(t)


class DrvEmit(C.Emit):
    def ex0(self, e, env, expect=None):
        k = e[0]
        if k == "mcall":
            recv, name, args = e[1], e[2], e[3]
            if recv[0] == "path" and recv[1] in ("self", "other"):
                if name == "len" and not args:
                    return ("len" if recv[1] == "self" else "len2"), "Nat"
                if name == "uget" and len(args) == 1:
                    a, ta = self.ex0(args[0], env)
                    if ta != "Nat":
                        raise Unsupported("uget index")
                    return a, "Rd"
                if name == "uslice" and len(args) == 2 and recv[1] == "self":
                    a, ta = self.ex0(args[0], env)
                    b, tb = self.ex0(args[1], env)
                    if ta != "Nat" or tb != "Nat":
                        raise Unsupported("uslice bounds")
                    return f"({a}, {b})", "Slice"
            r, tr = self.ex0(recv, env)
            if name == "unwrap" and not args and tr == "Slice":
                return r, tr
        if k == "call" and e[1] == "Some" and len(e[2]) == 1:
            a, ta = self.ex0(e[2][0], env)
            if ta in ("Rd", "Nat") or (isinstance(ta, tuple) and ta[0] == "tuple"):
                return f"(some {a})", ("opt", ta)
        if k == "path" and e[1] == "None":
            return "none", "NoneLit"
        return super().ex0(e, env, expect)

    def bind_pat(self, p, ty, env):
        if p[0] == "pvar":
            env[p[1]] = ty
            return C.lname(p[1])
        return super().bind_pat(p, ty, env)

    def event(self, e, env):
        """`out.uset(p, f(a, b, …))`  ->  text of the event tuple"""
        if not (e[0] == "mcall" and e[1] == ("path", "out") and e[2] == "uset" and len(e[3]) == 2
                and e[3][1][0] == "call" and e[3][1][1] == "f"):
            return None
        p, tp = self.ex0(e[3][0], env)
        if tp != "Nat":
            raise Unsupported("write position")
        parts = [p]
        for a in e[3][1][2]:
            at, aty = self.ex0(a, env)
            if aty == "NoneLit":
                at = "none"
            parts.append(at)
        return "(" + ", ".join(parts) + ")"

    def body(self, blk, env):
        """statements of a loop body / unsafe block: lets and event appends; returns lines that
        rebind `log__`"""
        lines = []
        stmts = list(blk[1]) + ([("expr", blk[2])] if blk[2] is not None else [])
        for st in stmts:
            if st[0] == "expr" and st[1][0] == "block":
                lines += self.body(st[1], env)
                continue
            if st[0] == "let" and st[3] is not None:
                t, ty = self.ex0(st[3], env)
                tmp = dict(env)
                ptxt = self.bind_pat(st[1], ty, tmp)
                env.update(tmp)
                lines.append(f"let {ptxt} := {t}")
                continue
            if st[0] == "expr":
                ev = self.event(st[1], env)
                if ev is not None:
                    lines.append(f"let log__ := log__ ++ [{ev}]")
                    continue
            raise Unsupported(f"statement in a driver loop: {st[0]} {st[1][0] if len(st) > 1 and isinstance(st[1], tuple) else ''}")
        return lines

    def loop(self, fr, env):
        pat, it, body = fr[1], fr[2], fr[3]
        env_b = dict(env)
        if it[0] == "bin" and it[1] == ".." and pat[0] == "pvar":
            a, ta = self.ex0(it[2], env)
            b, tb = self.ex0(it[3], env)
            if ta != "Nat" or tb != "Nat":
                raise Unsupported("loop bounds")
            env_b[pat[1]] = "Nat"
            inner = self.body(body, env_b)
            return (f"let log__ := List.foldl (fun log__ {C.lname(pat[1])} =>\n" + C.indent("\n".join(inner + ["log__"]), 4)
                    + f")\n    log__ (List.range' {a} ({b} - {a}))")
        if (it[0] == "mcall" and it[2] == "enumerate" and not it[3] and it[1][0] == "paren" and it[1][1][0] == "bin"
                and it[1][1][1] == ".." and pat[0] == "ptuple" and len(pat[1]) == 2 and all(q[0] == "pvar" for q in pat[1])):
            a, ta = self.ex0(it[1][1][2], env)
            b, tb = self.ex0(it[1][1][3], env)
            if ta != "Nat" or tb != "Nat":
                raise Unsupported("loop bounds")
            k_, e_ = C.lname(pat[1][0][1]), C.lname(pat[1][1][1])
            env_b[pat[1][0][1]] = "Nat"
            env_b[pat[1][1][1]] = "Nat"
            inner = self.body(body, env_b)
            return (f"let log__ := List.foldl (fun log__ {k_} =>\n" + C.indent("\n".join([f"let {e_} := {a} + {k_}"] + inner + ["log__"]), 4)
                    + f")\n    log__ (List.range ({b} - {a}))")
        raise Unsupported("loop shape")


ITER_FNS = [
    ("rolling_apply", "Option Nat × Nat", False),
    ("rolling2_apply", "Option (Nat × Nat) × (Nat × Nat)", True),
    ("rolling_apply_idx", "Option Nat × Nat × Nat", False),
    ("rolling2_apply_idx", "Option Nat × Nat × (Nat × Nat)", True),
    ("rolling_custom_iter", "(Nat × Nat)", False),
]


def is_list(t):
    return isinstance(t, tuple) and t[0] == "list"


class IterEmit(DrvEmit):
    """the default (iterator) bodies: an iterator is the list of the items it yields; an element of
    `self.titer()` is represented by its index"""

    def ex0(self, e, env, expect=None):
        k = e[0]
        if k == "paren":
            t, ty = self.ex0(e[1], env, expect)
            return t, ty
        if k == "bin" and e[1] == "..":
            a, ta = self.ex0(e[2], env)
            b, tb = self.ex0(e[3], env)
            if ta == tb == "Nat":
                return f"(List.range' {a} ({b} - {a}))", ("list", "Nat")
        if k == "call":
            name, args = e[1], e[2]
            if name in ("std::iter::repeat_n", "repeat_n") and len(args) == 2:
                n, tn = self.ex0(args[1], env)
                if tn != "Nat":
                    raise Unsupported("repeat_n count")
                if args[0] == ("path", "None"):
                    return f"(List.replicate {n} none)", ("list", ("opt", "?"))
                v, tv = self.ex0(args[0], env)
                return f"(List.replicate {n} {v})", ("list", tv)
            if name == "f":
                parts = []
                for a in args:
                    at, aty = self.ex0(a, env)
                    parts.append(at)
                return "(" + ", ".join(parts) + ")", "Event"
        if k == "mcall":
            recv, name, args = e[1], e[2], e[3]
            if recv[0] == "path" and recv[1] in ("self", "other") and name == "titer" and not args:
                return ("(List.range len)" if recv[1] == "self" else "(List.range len2)"), ("list", "Rd")
            if recv == ("path", "self") and name == "slice" and len(args) == 2:
                a, ta = self.ex0(args[0], env)
                b, tb = self.ex0(args[1], env)
                if ta != "Nat" or tb != "Nat":
                    raise Unsupported("slice bounds")
                return f"({a}, {b})", "Slice"
            if recv[0] == "path" and recv[1] in ("self", "other"):
                return super().ex0(e, env, expect)
            r, tr = self.ex0(recv, env)
            if is_list(tr):
                if name in ("to_trust",) and len(args) == 1:
                    return r, tr
                if name in ("collect_trusted_vec1",) and not args:
                    return r, tr
                if name == "chain" and len(args) == 1:
                    a, ta = self.ex0(args[0], env)
                    if not is_list(ta):
                        raise Unsupported("chain argument")
                    el = ta[1] if (isinstance(tr[1], tuple) and tr[1] == ("opt", "?")) else tr[1]
                    return f"({r} ++ {a})", ("list", el)
                if name == "zip" and len(args) == 1:
                    a, ta = self.ex0(args[0], env)
                    if not is_list(ta):
                        raise Unsupported("zip argument")
                    return f"({r}.zip {a})", ("list", ("tuple", (tr[1], ta[1])))
                if name == "enumerate" and not args:
                    return f"(({r}.zipIdx).map fun p => (p.2, p.1))", ("list", ("tuple", ("Nat", tr[1])))
                if name == "map" and len(args) == 1:
                    if args[0] == ("path", "Some"):
                        return f"({r}.map some)", ("list", ("opt", tr[1]))
                    cl = args[0]
                    if cl[0] != "closure" or len(cl[1]) != 1:
                        raise Unsupported("map argument")
                    env2 = dict(env)
                    ptxt = self.bind_pat(cl[1][0], tr[1], env2)
                    if cl[2][1]:
                        raise Unsupported("map closure with statements")
                    b, tb = self.ex0(cl[2][2], env2)
                    return f"({r}.map fun {ptxt} => {b})", ("list", tb)
        return super().ex0(e, env, expect)

    def bind_pat(self, p, ty, env):
        if p[0] == "ptuple" and isinstance(ty, tuple) and ty[0] == "tuple" and len(ty[1]) == len(p[1]):
            return "(" + ", ".join(self.bind_pat(q, t, env) for q, t in zip(p[1], ty[1])) + ")"
        if p[0] == "pvar":
            env[p[1]] = ty
            return C.lname(p[1])
        raise Unsupported("pattern")


def translate_iter(name, evty, two):
    src = open(os.path.join(repo, REL), encoding="utf-8", errors="replace").read()
    src = re.sub(r"//[^\n]*", "", src)
    body_src = parse_macros(fn_src(src, name))
    blk = C.P(C.tokenize(body_src)).block()
    em = IterEmit()
    env = {"window": "Nat"}
    lines = []
    # `if let Some(out) = out { self.<fn>_to(..); None } else { <iterator body> }`, or the iterator body itself
    body = blk
    if blk[2] is not None and blk[2][0] == "iflet" and blk[2][2] == ("path", "out") and not blk[1]:
        th = blk[2][3]
        ok = (len(th[1]) == 1 and th[1][0][0] == "expr" and th[1][0][1][0] == "mcall"
              and th[1][0][1][1] == ("path", "self") and th[1][0][1][2] == name + "_to" and th[2] == ("path", "None"))
        if not ok or blk[2][4] is None:
            raise Unsupported("out-buffer branch shape")
        body = blk[2][4]
    asserted = False
    for st in body[1]:
        if st[0] == "expr" and st[1][0] == "call" and st[1][1] == "assert__":
            c, tc = em.ex0(st[1][2][0], env)
            if tc != "Bool":
                raise Unsupported("assert condition")
            lines.append(f"if !({c}) then none else")
            asserted = True
            continue
        if st[0] == "let" and st[3] is not None and st[1][0] == "pvar":
            t, ty = em.ex0(st[3], env)
            env[st[1][1]] = ty
            lines.append(f"let {C.lname(st[1][1])} := {t}")
            continue
        raise Unsupported("statement in an iterator body")
    tail = body[2]
    if tail is None:
        raise Unsupported("iterator body without a result")
    if tail[0] == "call" and tail[1] == "Some" and len(tail[2]) == 1:
        tail = tail[2][0]
    t, ty = em.ex0(tail, env)
    if not (is_list(ty) and ty[1] == "Event"):
        raise Unsupported(f"result type {ty}")
    lines.append(f"some {t}")
    L = [f"namespace {name}"]
    L.append(f"/-- `Vec1View::{name}` ({REL}), returned path: the arguments of the callback, in order; `none` = an `assert!` fails -/")
    L.append(f"def run (len{' len2' if two else ''} window : Nat) : Option (List ({evty})) :=")
    L.append(C.indent("\n".join(lines), 2))
    L.append("def parsed : Bool := true")
    L.append(f"end {name}")
    return "\n".join(L)


def parse_macros(src):
    """`assert!(c, "msg")` -> `assert__(c)`  (string literals are not in the tokenizer's alphabet)"""
    src = re.sub(r'"(?:[^"\\]|\\.)*"', "0", src)
    return re.sub(r"\bassert!\s*\(", "assert__(", src)


def fn_src(src, name):
    m = re.search(r"\bfn " + name + r"\s*<", src)
    if not m:
        raise Unsupported("function not found")
    # the body is the first `{` at nesting depth 0 of parentheses after the parameter list
    i = m.end()
    depth = 0
    while True:
        c = src[i]
        if c in "(":
            depth += 1
        elif c == ")":
            depth -= 1
        elif c == "{" and depth == 0:
            break
        i += 1
    d, j = 0, i
    while j < len(src):
        if src[j] == "{":
            d += 1
        elif src[j] == "}":
            d -= 1
            if d == 0:
                break
        j += 1
    return src[i: j + 1]


def translate(name, evty, two):
    src = open(os.path.join(repo, REL), encoding="utf-8", errors="replace").read()
    src = re.sub(r"//[^\n]*", "", src)
    body_src = parse_macros(fn_src(src, name))
    blk = C.P(C.tokenize(body_src)).block()
    if blk[2] is not None:
        raise Unsupported("driver with a tail expression")
    em = DrvEmit()
    env = {"window": "Nat"}
    lines = [f"let log__ : List ({evty}) := []"]
    closers = []          # texts to append after the rest (for nested if/else of asserts and returns)

    def emit_rest(stmts, depth):
        out = []
        for idx, st in enumerate(stmts):
            if st[0] == "let" and st[3] is not None and st[1][0] == "pvar":
                t, ty = em.ex0(st[3], env)
                if ty != "Nat":
                    raise Unsupported(f"driver let of type {ty}")
                env[st[1][1]] = "Nat"
                out.append(f"let {C.lname(st[1][1])} := {t}")
                continue
            if st[0] == "expr" and st[1][0] == "call" and st[1][1] == "assert__":
                c, tc = em.ex0(st[1][2][0], env)
                if tc != "Bool":
                    raise Unsupported("assert condition")
                rest = emit_rest(stmts[idx + 1:], depth + 1)
                out.append(f"if !({c}) then none else")
                out += rest
                return out
            if (st[0] == "expr" and st[1][0] == "if" and st[1][3] is None and not st[1][2][1]
                    and st[1][2][2] == ("return", None)):
                c, tc = em.ex0(st[1][1], env)
                if tc != "Bool":
                    raise Unsupported("condition")
                rest = emit_rest(stmts[idx + 1:], depth + 1)
                out.append(f"if {c} then some log__ else")
                out += rest
                return out
            if st[0] == "expr" and st[1][0] == "for":
                out.append(em.loop(st[1], env))
                continue
            raise Unsupported(f"driver statement {st[0]} {st[1][0] if isinstance(st[1], tuple) else ''}")
        out.append("some log__")
        return out
    # `if window == 0 { return; }` parses with the `return` as the block's only statement
    norm = []
    for st in blk[1]:
        if st[0] == "expr" and st[1][0] == "if" and st[1][3] is None:
            b = st[1][2]
            if b[2] is None and len(b[1]) == 1 and b[1][0] == ("expr", ("return", None)):
                st = ("expr", ("if", st[1][1], ("block", [], ("return", None)), None))
        norm.append(st)
    lines += emit_rest(norm, 0)
    L = [f"namespace {name}"]
    L.append(f"/-- `Vec1View::{name}` ({REL}): the callback invocations in source order; `none` = an `assert!` fails -/")
    L.append(f"def run (len{' len2' if two else ''} window : Nat) : Option (List ({evty})) :=")
    L.append(C.indent("\n".join(lines), 2))
    L.append("def parsed : Bool := true")
    L.append(f"end {name}")
    return "\n".join(L)


def main():
    out = ["/- GENERATED by translator/drivers.py from tea-core/src/vec_core/cores/view.rs — do not edit. -/",
           "set_option linter.unusedVariables false", "namespace Tv.GenDrv", ""]
    names = []
    for name, evty, two in FNS:
        try:
            txt = translate(name, evty, two)
        except Unsupported as ex:
            reason = str(ex).replace('"', "'")
            txt = (f"namespace {name}\n/- UNPARSED: {reason} -/\ndef parsed : Bool := false\n"
                   f"def reason : String := \"{reason}\"\nend {name}")
        except Exception as ex:
            reason = (type(ex).__name__ + ": " + str(ex)).replace('"', "'")
            txt = (f"namespace {name}\n/- UNPARSED: {reason} -/\ndef parsed : Bool := false\n"
                   f"def reason : String := \"{reason}\"\nend {name}")
        names.append(name)
        out.append(txt)
        out.append("")
    inames = []
    for name, evty, two in ITER_FNS:
        try:
            txt = translate_iter(name, evty, two)
        except Unsupported as ex:
            reason = str(ex).replace('"', "'")
            txt = (f"namespace {name}\n/- UNPARSED: {reason} -/\ndef parsed : Bool := false\n"
                   f"def reason : String := \"{reason}\"\nend {name}")
        except Exception as ex:
            reason = (type(ex).__name__ + ": " + str(ex)).replace('"', "'")
            txt = (f"namespace {name}\n/- UNPARSED: {reason} -/\ndef parsed : Bool := false\n"
                   f"def reason : String := \"{reason}\"\nend {name}")
        inames.append(name)
        out.append(txt)
        out.append("")
    out.append("def iterFunctions : List String := [" + ", ".join(f'"{n}"' for n in inames) + "]")
    out.append("def functions : List String := [" + ", ".join(f'"{n}"' for n in names) + "]")
    out.append("\nend Tv.GenDrv")
    new = "\n".join(out) + "\n"
    try:
        old = open(outp, encoding="utf-8").read()
    except FileNotFoundError:
        old = None
    if old != new:
        open(outp, "w", encoding="utf-8").write(new)
    print(f"drivers.py: {len(names)} functions -> {outp}")


if __name__ == "__main__":
    main()
