#!/usr/bin/env python3
"""Statement-level translator for the null-skipping aggregations of tea-core/src/agg.rs
(trait `AggValidBasic`):  Rust function body  ->  Lean 4 function  `Tv.GenAgg.<fn>.run`.

Uses the parser / emitter of closures.py.  Each function body is translated in source order; the
iteration call it contains (`vapply_n`, `vfold_n`, `vfold`, `into_iter().for_each`,
`into_iter().zip(other).for_each`) becomes the corresponding combinator of
lean/Tv/GenPrelude.lean (a hand-written reading of tea-core/src/vec_core/iter_traits.rs) applied to
the translated closure; `return` in an `if` nests the rest of the body in the `else` branch.
Element values are exact `Rat`, `f64::NAN` / `None` is `none`, `usize` is `Nat`.
Anything outside the subset is emitted as `parsed := false` (fail closed).
"""
import re, sys, os, importlib.util

here = os.path.dirname(os.path.abspath(__file__))
spec = importlib.util.spec_from_file_location("closures", os.path.join(here, "closures.py"))
_argv = sys.argv
sys.argv = [_argv[0]]
C = importlib.util.module_from_spec(spec)
spec.loader.exec_module(C)
sys.argv = _argv

repo = sys.argv[1] if len(sys.argv) > 1 else "/repo"
outp = sys.argv[2] if len(sys.argv) > 2 else "GenAgg.lean"

# order matters: a function may call the ones before it
FNS = ["vsum", "vmean", "vmean_var", "vvar", "vstd", "vskew", "vmax", "vmin", "count_none", "vcov", "vcorr_pearson",
       "count_valid", "vfirst", "vlast", "vcount_value", "vargmax", "vargmin", "count"]


def ret_type(sig):
    m = re.search(r"->\s*([^{]*?)\s*(where|$)", sig, re.S)
    t = re.sub(r"\s+", "", m.group(1)) if m else ""
    if t == "f64" or t.startswith("T::Cast<f64>") or t == "O":
        return "OptF"
    if t == "(f64,f64)":
        return ("tuple", ("OptF", "OptF"))
    if t == "Option<T::Inner>":
        return "Elem"
    if t == "Option<T>":
        return ("opt", "Elem")
    if t == "Option<usize>":
        return "OptNat"
    if t == "usize":
        return "Nat"
    if t == "bool":
        return "Bool"
    if t == "Option<Self::Item>":
        return "Elem"
    if t == "Option<f64>":
        return "OptF"
    if t == "(usize,Option<Self::Item>)":
        return ("tuple", ("Nat", "Elem"))
    if t == "(usize,T::Inner)":
        return ("tuple", ("Nat", "Rat"))
    raise C.Unsupported(f"return type {t}")


# functions of `AggValidExt` (tea-agg/src/lib.rs), translated after the ones above
EXT_FNS = ["vkurt", "vpercentile_of", "n_vsum_filter", "n_sum_filter", "vmean_filter"]
# enum-typed parameters: Rust type -> Lean type (GenPrelude.lean)
ENUMS = {"PercentileOfMethod": "PctMethod"}


def rewrite_guard_let(blk):
    """`let x = if x.is_none() { return E; } else { x.unwrap() }; rest…`
       ->  `if x.not_none() { let x = x.unwrap(); rest… } else { E }`  (as the block's value)"""
    stmts, tail = list(blk[1]), blk[2]
    for i, st in enumerate(stmts):
        if (st[0] == "let" and st[1][0] == "pvar" and st[3] is not None and st[3][0] == "if" and st[3][3] is not None):
            x = st[1][1]
            c, th, el = st[3][1], st[3][2], st[3][3]
            if (c == ("mcall", ("path", x), "is_none", []) and th[0] == "block" and len(th[1]) == 1 and th[2] is None
                    and th[1][0][0] == "expr" and th[1][0][1][0] == "return"
                    and el == ("block", [], ("mcall", ("path", x), "unwrap", []))):
                ret = th[1][0][1][1]
                inner = rewrite_guard_let(("block", [("let", st[1], False, ("mcall", ("path", x), "unwrap", []), "")] + stmts[i + 1:], tail))
                new_if = ("if", ("mcall", ("path", x), "not_none", []), inner, ("block", [], ret))
                return ("block", stmts[:i], new_if)
    return blk
# functions of the plain trait `AggBasic` (agg.rs; null-free items): emitted in the namespace `plain`
# boolean elements (`T::Inner: BoolType` / `Self::Item: BoolType`): namespaces `vany`, `vall`, `plain.any`, `plain.all`
BOOL_FNS = ["vany", "vall"]
PLAIN_BOOL_FNS = ["any", "all"]
PLAIN_FNS = ["count_value", "first", "last", "n_sum", "sum", "mean", "max", "min", "argmax", "argmin"]


def trait_src(src, trait="AggValidBasic"):
    """text of `pub trait <trait> … { … }`"""
    m = re.search(r"pub trait " + trait + r"\b", src)
    if not m:
        raise C.Unsupported(f"trait {trait} not found")
    i = src.index("{", m.end())
    depth, j = 0, i
    while j < len(src):
        if src[j] == "{":
            depth += 1
        elif src[j] == "}":
            depth -= 1
            if depth == 0:
                break
        j += 1
    return src[i: j + 1]


def fn_src(tsrc, name):
    m = re.search(r"\bfn " + name + r"\s*(<[^{;]*?>)?\s*\(", tsrc)
    if not m:
        raise C.Unsupported("function not found")
    i = tsrc.index("{", m.end())
    # the first `{` after the signature could belong to a where clause only if it had braces: it has not
    sig = tsrc[m.start(): i]
    depth, j = 0, i
    while j < len(tsrc):
        if tsrc[j] == "{":
            depth += 1
        elif tsrc[j] == "}":
            depth -= 1
            if depth == 0:
                break
        j += 1
    return sig, tsrc[i: j + 1]


def translate(name, sig, body_src, siblings, plain=False, boolean=False):
    rt = ret_type(sig)
    params = re.findall(r"\b(\w+)\s*:\s*usize\b", sig.split("->")[0])
    eparams = re.findall(r"\b(\w+)\s*:\s*T\b(?!:)", sig.split("->")[0].split("(", 1)[1])
    iparams = re.findall(r"\b(\w+)\s*:\s*Self::Item\b", sig.split("->")[0].split("(", 1)[1]) if plain else []
    two = bool(re.search(r"\bother\s*:", sig))
    blk = rewrite_guard_let(C.P(C.tokenize(body_src)).block())
    mask_params = re.findall(r"\b(mask)\s*:\s*I\b", sig.split("->")[0])
    enum_params = re.findall(r"\b(\w+)\s*:\s*(" + "|".join(ENUMS) + r")\b", sig.split("->")[0])
    # `let mut x = None;` without annotation: typed by trying the two option types the subset has
    untyped = [st[1][1] for st in blk[1] if st[0] == "let" and st[1][0] == "pvar" and st[3] == ("path", "None")
               and not (len(st) > 4 and st[4])]
    import itertools
    last = None
    for combo in itertools.product(("Elem", "OptNat"), repeat=len(untyped)):
        em = C.Emit()
        em.siblings = siblings
        em.nan_vars = C.nan_assigned(blk)
        em.none_types = dict(zip(untyped, combo))
        em.plain = plain
        if boolean:
            em.elem_inner = "Bool"
        env = {p: "Nat" for p in params}
        env.update({p: "Elem" for p in eparams})
        env.update({p: "Rat" for p in iparams})
        env.update({p: ("enum", ENUMS[t]) for p, t in enum_params})
        env.update({p: "BoolList" for p in mask_params})
        try:
            txt, ty = em.stmts(blk[1], blk[2], env, [], rt)
            break
        except C.Unsupported as ex:
            last = ex
    else:
        raise last
    if ty == "Rat" and rt == "OptF":
        raise C.Unsupported("float result not lifted")
    if ty != rt and not (ty == "Elem" and rt == "OptF") and not (ty == "OptF" and rt == "Elem"):
        raise C.Unsupported(f"result type {ty}, declared {rt}")
    L = [f"namespace {name}"]
    ps = ("".join(f" ({C.lname(p)} : List (Option Bool))" for p in mask_params)
          + "".join(f" ({C.lname(p)} : Option Rat)" for p in eparams) + "".join(f" ({C.lname(p)} : Rat)" for p in iparams)
          + "".join(f" ({C.lname(p)} : Nat)" for p in params)
          + "".join(f" ({C.lname(p)} : {ENUMS[t]})" for p, t in enum_params))
    ys = " (ys : List (Option Rat))" if two else ""
    where = "tea-agg/src/lib.rs" if name in EXT_FNS and not plain else "tea-core/src/agg.rs"
    L.append(f"/-- `{name}` of {where}, in source order -/")
    xs_ty = "List Rat" if plain else "List (Option Rat)"
    if boolean:
        xs_ty = "List Bool" if plain else "List (Option Bool)"
    L.append(f"def run (sqrt : Rat → Rat) (xs : {xs_ty}){ys}{ps} : {C.ty_lean(rt)} :=")
    L.append("  let _ := sqrt; let _ := xs")
    L.append(C.indent(txt, 2))
    L.append("def parsed : Bool := true")
    L.append(f"end {name}")
    return "\n".join(L), rt, len(params) + len(mask_params), two


def main():
    out = ["/- GENERATED by translator/aggs.py from tea-core/src/agg.rs — do not edit. -/",
           "import Tv.GenPrelude", "set_option linter.unusedVariables false", "namespace Tv.GenAgg",
           "open Tv.Gen", ""]
    m = re.search(r"pub const EPS:\s*f64\s*=\s*([0-9.eE+-]+)\s*;",
                  open(os.path.join(repo, "tea-core/src/prelude.rs"), encoding="utf-8").read())
    from fractions import Fraction
    eps = Fraction(m.group(1)) if m else Fraction(0)
    out.append(f"def EPS : Rat := ({eps.numerator} : Rat) / {eps.denominator}\n")
    try:
        src = open(os.path.join(repo, "tea-core/src/agg.rs"), encoding="utf-8", errors="replace").read()
        src = src.split("#[cfg(test)]")[0]
        tsrc = trait_src(src)
    except Exception as ex:
        tsrc = None
        out.append(f"/- UNPARSED: {ex} -/")
    try:
        esrc = open(os.path.join(repo, "tea-agg/src/lib.rs"), encoding="utf-8", errors="replace").read()
        esrc = re.sub(r"//[^\n]*", "", esrc.split("#[cfg(test)]")[0])
        etsrc = trait_src(esrc, "AggValidExt")
    except Exception as ex:
        etsrc = None
        out.append(f"/- UNPARSED (tea-agg): {ex} -/")
    siblings, names = {}, []
    for name in FNS + EXT_FNS + BOOL_FNS:
        try:
            the_src = etsrc if name in EXT_FNS else tsrc
            if the_src is None:
                raise C.Unsupported("no trait")
            sig, body = fn_src(the_src, name)
            txt, rt, np, two = translate(name, sig, body, {} if name in BOOL_FNS else siblings, boolean=name in BOOL_FNS)
            if not two:
                siblings[name] = (f"{name}.run", rt, np)
        except C.Unsupported as ex:
            reason = str(ex).replace('"', "'")
            txt = (f"namespace {name}\n/- UNPARSED: {reason} -/\ndef parsed : Bool := false\n"
                   f"def reason : String := \"{reason}\"\nend {name}")
        except Exception as ex:
            reason = (type(ex).__name__ + ": " + str(ex)).replace('"', "'")
            txt = (f"namespace {name}\n/- UNPARSED: {reason} -/\ndef parsed : Bool := false\n"
                   f"def reason : String := \"{reason}\"\nend {name}")
        names.append(name)
        out.append(txt)
        out.append("")
    out.append("def functions : List String := [" + ", ".join(f'"{n}"' for n in names) + "]")
    # ---- the plain trait `AggBasic`
    out.append("\n/-! ## `AggBasic` (null-free items) -/\nnamespace plain\n")
    try:
        ptsrc = trait_src(src, "AggBasic")
    except Exception as ex:
        ptsrc = None
        out.append(f"/- UNPARSED: {ex} -/")
    psib, pnames = {}, []
    for name in PLAIN_FNS + PLAIN_BOOL_FNS:
        try:
            if ptsrc is None:
                raise C.Unsupported("no trait")
            sig, body = fn_src(ptsrc, name)
            txt, rt, np, two = translate(name, sig, body, {} if name in PLAIN_BOOL_FNS else psib, plain=True,
                                         boolean=name in PLAIN_BOOL_FNS)
            psib[name] = (f"{name}.run", rt, np)
        except C.Unsupported as ex:
            reason = str(ex).replace('"', "'")
            txt = (f"namespace {name}\n/- UNPARSED: {reason} -/\ndef parsed : Bool := false\n"
                   f"def reason : String := \"{reason}\"\nend {name}")
        except Exception as ex:
            reason = (type(ex).__name__ + ": " + str(ex)).replace('"', "'")
            txt = (f"namespace {name}\n/- UNPARSED: {reason} -/\ndef parsed : Bool := false\n"
                   f"def reason : String := \"{reason}\"\nend {name}")
        pnames.append(name)
        out.append(txt)
        out.append("")
    out.append("def functions : List String := [" + ", ".join(f'"{n}"' for n in pnames) + "]")
    out.append("end plain")
    out.append("\nend Tv.GenAgg")
    new = "\n".join(out) + "\n"
    try:
        old = open(outp, encoding="utf-8").read()
    except FileNotFoundError:
        old = None
    if old != new:
        open(outp, "w", encoding="utf-8").write(new)
    print(f"aggs.py: {len(names)} functions -> {outp}")


if __name__ == "__main__":
    main()
