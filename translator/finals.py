#!/usr/bin/env python3
"""Statement-level translator for the imperative `usize` bookkeeping of `half_life`
(tevec/src/agg.rs, trait `AggValidFinal`):  Rust function body  ->  Lean 4 function
`Tv.GenFin.half_life.run`.

Uses the parser of closures.py (extended with `while`).  The body is translated in source order:

* `let` / assignment / `+=` become shadowing `let`s (single assignment form);
* a `while c { … }` loop becomes `Gen.whileFuel guard cond body fuel state`
  (lean/Tv/GenPrelude.lean): the state is the tuple of the variables the loop assigns that were
  initialised before it, `break` ends the loop with the state reached, running out of fuel is the
  outcome `timeout`;
* every `usize` subtraction `a - b` is guarded by `b ≤ a`: a failing guard is the outcome `panic`
  (the debug-build overflow check; in a loop condition it is the loop's `guard`);
* the lag autocorrelation `self.titer().vcorr_pearson(self.titer().vshift(L as i32, None), mp)`
  — written inline or through a `let s = self.titer().vshift(L as i32, None)` — becomes the
  parameter `corrAt L mp : Option Rat` (`none` = NaN); float comparisons against a literal are
  `Gen.fLe` / `Gen.fGt` / … (false on NaN), `.is_nan()` is `.isNone`.

Not modelled: `2usize.pow(i)` overflow and the `as i32` truncation of the lag (both need a series
of ≥ 2^31 elements).  Anything outside the subset is emitted as `parsed := false` (fail closed).
"""
import re, sys, os, importlib.util
from fractions import Fraction

here = os.path.dirname(os.path.abspath(__file__))
_argv = sys.argv
sys.argv = [_argv[0], "/nonexistent", "/dev/null"]
spec = importlib.util.spec_from_file_location("maps", os.path.join(here, "maps.py"))
M = importlib.util.module_from_spec(spec)
spec.loader.exec_module(M)
sys.argv = _argv
C = M.C

Unsupported = C.Unsupported
lname = C.lname
indent = C.indent


def is_vshift(e):
    """self.titer().vshift(L as i32, None) -> L"""
    if (e[0] == "mcall" and e[2] == "vshift" and e[1] == ("mcall", ("path", "self"), "titer", [])
            and len(e[3]) == 2 and e[3][1] == ("path", "None")):
        a = e[3][0]
        while a[0] in ("cast", "paren"):
            a = a[1]
        return a
    return None


class Imp:
    def __init__(self):
        self.loops = 0
        self.corr_calls = []

    # ---- expressions -> (text, type, guards)
    def ex(self, e, env):
        k = e[0]
        if k == "num":
            v = e[1].replace("_", "")
            for suf in ("usize", "i32", "i64", "u64", "u32"):
                if v.endswith(suf):
                    return v[: -len(suf)], "Nat", []
            if "." in v or "e" in v.lower():
                fr = Fraction(re.sub(r"f64$|f32$", "", v) + ("0" if v.endswith(".") else ""))
                t = f"({fr.numerator} : Rat)" if fr.denominator == 1 else f"(({fr.numerator} : Rat) / {fr.denominator})"
                return t, "Lit", []
            return v, "Nat", []
        if k == "paren":
            t, ty, g = self.ex(e[1], env)
            return f"({t})", ty, g
        if k == "cast":
            t, ty, g = self.ex(e[1], env)
            if ty != "Nat" or e[2] not in ("i32", "usize", "i64"):
                raise Unsupported(f"cast to {e[2]}")
            return t, ty, g
        if k == "path":
            n = e[1]
            if n in env:
                if env[n] == "Uninit":
                    raise Unsupported(f"{n} read before it is assigned")
                return lname(n), env[n], []
            raise Unsupported(f"unknown name {n}")
        if k == "not":
            t, ty, g = self.ex(e[1], env)
            if ty != "Bool":
                raise Unsupported("! on a non-boolean")
            return f"(!{t})", "Bool", g
        if k == "bin":
            op = e[1]
            a, ta, ga = self.ex(e[2], env)
            b, tb, gb = self.ex(e[3], env)
            g = ga + gb
            if op in ("||", "&&") and ta == tb == "Bool":
                return f"({a} {op} {b})", "Bool", g
            if op in ("+", "*", "/") and ta == tb == "Nat":
                return f"({a} {op} {b})", "Nat", g
            if op == "-" and ta == tb == "Nat":
                return f"({a} - {b})", "Nat", g + [f"decide ({b} ≤ {a})"]
            if op in ("<", "<=", ">", ">=", "==", "!=") and ta == tb == "Nat":
                lop = {"<": "<", "<=": "≤", ">": ">", ">=": "≥", "==": "=", "!=": "≠"}[op]
                return f"decide ({a} {lop} {b})", "Bool", g
            if op in ("<", "<=", ">", ">=") and ta == "F" and tb == "Lit":
                fn = {"<": "fLt", "<=": "fLe", ">": "fGt", ">=": "fGe"}[op]
                return f"({fn} {a} {b})", "Bool", g
            raise Unsupported(f"operator {op} on {ta}, {tb}")
        if k == "mcall":
            recv, name, args = e[1], e[2], e[3]
            if recv == ("path", "self") and name == "len" and not args:
                return "len", "Nat", []
            if name == "vcorr_pearson" and recv == ("mcall", ("path", "self"), "titer", []) and len(args) == 2:
                lag = is_vshift(args[0])
                if lag is not None:
                    l, tl, gl = self.ex(lag, env)
                elif args[0][0] == "path" and env.get(args[0][1]) == "Shift":
                    l, tl, gl = lname(args[0][1]), "Nat", []
                else:
                    raise Unsupported("vcorr_pearson operand")
                m, tm, gm = self.ex(args[1], env)
                if tl != "Nat" or tm != "Nat":
                    raise Unsupported("vcorr_pearson arguments")
                # the call itself, read off the source: `self.titer().vcorr_pearson(self.titer().vshift(L as i32, None), mp)`
                comp = "GenAgg.vcorr_pearson.run sqrt xs (GenMap.vshift.run xs (Int.ofNat lag) none) mp"
                self.corr_calls.append(comp)
                return f"(corrAt {l} {m})", "F", gl + gm
            r, tr, g = self.ex(recv, env)
            if name == "pow" and len(args) == 1 and tr == "Nat":
                a, ta, ga = self.ex(args[0], env)
                if ta != "Nat":
                    raise Unsupported("pow exponent")
                return f"({r} ^ {a})", "Nat", g + ga
            if name in ("min", "max") and len(args) == 1 and tr == "Nat":
                a, ta, ga = self.ex(args[0], env)
                if ta != "Nat":
                    raise Unsupported("min/max operand")
                return f"(Nat.{name} {r} {a})", "Nat", g + ga
            if name == "unwrap_or" and len(args) == 1 and tr == "OptNat":
                a, ta, ga = self.ex(args[0], env)
                if ta != "Nat":
                    raise Unsupported("unwrap_or operand")
                return f"({r}.getD {a})", "Nat", g + ga
            if name == "is_nan" and not args and tr == "F":
                return f"{r}.isNone", "Bool", g
            raise Unsupported(f"method .{name}() on {tr}")
        raise Unsupported(f"expression {k}")

    @staticmethod
    def guarded(guards, body, fail=".panic"):
        for g in reversed(guards):
            body = f"if {g} then\n{indent(body)}\nelse {fail}"
        return body

    # ---- bindings shared by both modes: returns (binding text | None, new env, guards)
    def bind(self, st, env):
        if st[0] == "let":
            if st[1][0] != "pvar":
                raise Unsupported("let pattern")
            x = st[1][1]
            if st[3] is None:
                env = dict(env)
                env[x] = "Uninit"
                return None, env, []
            lag = is_vshift(st[3])
            if lag is not None:
                t, ty, g = self.ex(lag, env)
                if ty != "Nat":
                    raise Unsupported("vshift lag")
                env = dict(env)
                env[x] = "Shift"
                return f"let {lname(x)} := {t}", env, g
            t, ty, g = self.ex(st[3], env)
            if ty == "Lit":
                raise Unsupported("float literal binding")
            env = dict(env)
            env[x] = ty
            return f"let {lname(x)} := {t}", env, g
        if st[0] == "assign":
            if st[2][0] != "path" or st[2][1] not in env:
                raise Unsupported("assignment target")
            x = st[2][1]
            rhs = st[3] if st[1] == "=" else ("bin", st[1][0], st[2], st[3])
            t, ty, g = self.ex(rhs, env)
            if env[x] not in ("Uninit", ty):
                raise Unsupported(f"assignment changes the type of {x}")
            env = dict(env)
            env[x] = ty
            return f"let {lname(x)} := {t}", env, g
        return False, env, []

    # ---- function mode: statements -> text of type `Run Nat`
    def fn(self, stmts, tail, env):
        if not stmts:
            if tail is None:
                raise Unsupported("function without a value")
            t, ty, g = self.ex(tail, env)
            if ty != "Nat":
                raise Unsupported("result type")
            return self.guarded(g, f".ok {t}")
        st, rest = stmts[0], stmts[1:]
        b, env2, g = self.bind(st, env)
        if b is None:
            return self.fn(rest, tail, env2)
        if b is not False:
            return self.guarded(g, b + "\n" + self.fn(rest, tail, env2))
        if st[0] == "expr" and st[1][0] == "if" and st[1][3] is None:
            c, th = st[1][1], st[1][2]
            if (len(th[1]) == 1 and th[2] is None and th[1][0][0] == "expr" and th[1][0][1][0] == "return"
                    and th[1][0][1][1] is not None):
                ct, cty, cg = self.ex(c, env)
                rt, rty, rg = self.ex(th[1][0][1][1], env)
                if cty != "Bool" or rty != "Nat" or rg:
                    raise Unsupported("early return")
                return self.guarded(cg, f"if {ct} then .ok {rt} else\n" + self.fn(rest, tail, env))
            raise Unsupported("if statement")
        if st[0] == "expr" and st[1][0] == "while":
            return self.while_(st[1], rest, tail, env)
        raise Unsupported(f"statement {st[0]}")

    def while_(self, w, rest, tail, env):
        cond, body = w[1], w[2]
        acc = []
        C.assigned(body, acc)
        state = [x for x in env if x in acc and env[x] != "Uninit"]     # declaration order
        for x in acc:
            if x not in env:
                raise Unsupported(f"loop assigns the undeclared {x}")
        if any(env[x] != "Nat" for x in state) or not state:
            raise Unsupported("loop state")
        pat = C.tuple_txt([lname(x) for x in state])
        ct, cty, cg = self.ex(cond, env)
        if cty != "Bool":
            raise Unsupported("loop condition")
        guard = " && ".join(cg) if cg else "true"
        btxt = self.body(body[1], body[2], env, state)
        self.loops += 1
        k = self.loops
        after = self.fn(rest, tail, env)
        return (f"match whileFuel (fun {pat} => {guard}) (fun {pat} => {ct})\n"
                f"    (fun {pat} =>\n{indent(btxt, 6)})\n    fuel {pat} with\n"
                f"| .timeout => .timeout\n| .panic => .panic\n| .ok {pat} =>\n{indent(after)}")

    # ---- loop-body mode: statements -> text of type `state × Bool` (true = `break`)
    def body(self, stmts, tail, env, state):
        pat = C.tuple_txt([lname(x) for x in state])
        if tail is not None:
            stmts = stmts + [("expr", tail)]
        if not stmts:
            return f"({pat}, false)"
        st, rest = stmts[0], stmts[1:]
        if st == ("expr", ("path", "break")):
            return f"({pat}, true)"
        b, env2, g = self.bind(st, env)
        if g:
            raise Unsupported("usize subtraction inside a loop body")
        if b is None:
            return self.body(rest, None, env2, state)
        if b is not False:
            return b + "\n" + self.body(rest, None, env2, state)
        if st[0] == "expr" and st[1][0] == "if":
            c, th, el = st[1][1], st[1][2], st[1][3]
            ct, cty, cg = self.ex(c, env)
            if cty != "Bool" or cg:
                raise Unsupported("condition inside a loop body")
            if el is not None and el[0] != "block":
                raise Unsupported("else-if inside a loop body")
            tt = self.body(th[1] + ([("expr", th[2])] if th[2] is not None else []) + rest, None, env, state)
            ee = self.body((el[1] + ([("expr", el[2])] if el[2] is not None else []) if el is not None else []) + rest,
                           None, env, state)
            return f"if {ct} then\n{indent(tt)}\nelse\n{indent(ee)}"
        raise Unsupported(f"statement {st[0]} inside a loop body")


def translate(sig, body_src):
    blk = C.P(C.tokenize(body_src)).block()
    if not re.search(r"min_periods\s*:\s*Option<usize>", sig) or not re.search(r"->\s*usize", sig):
        raise Unsupported("signature of half_life")
    im = Imp()
    txt = im.fn(blk[1], blk[2], {"min_periods": "OptNat"})
    L = ["namespace half_life",
         "/-- `half_life` of tevec/src/agg.rs, in source order; `corrAt lag mp` is the lag autocorrelation",
         "`vcorr_pearson(self, vshift(self, lag), mp)` (`none` = NaN), `len = self.len()` -/",
         "def run (corrAt : Nat → Nat → Option Rat) (len : Nat) (min_periods : Option Nat) (fuel : Nat) : Run Nat :=",
         indent(txt, 2),
         f"def loops : Nat := {im.loops}",
         "/-- the lag autocorrelation as the source computes it: `vcorr_pearson` (aggs.py) of the series and its",
         "`vshift(lag as i32, None)` (maps.py) -/",
         "def corrSrc (sqrt : Rat → Rat) (xs : List (Option Rat)) (lag mp : Nat) : Option Rat :=",
         "  " + (im.corr_calls[0] if im.corr_calls and all(c == im.corr_calls[0] for c in im.corr_calls) else "none"),
         f"def corrCalls : Nat := {len(im.corr_calls)}",
         "/-- `half_life` with that autocorrelation and `len = self.len()` -/",
         "def runSrc (sqrt : Rat → Rat) (xs : List (Option Rat)) (min_periods : Option Nat) (fuel : Nat) : Run Nat :=",
         "  run (corrSrc sqrt xs) xs.length min_periods fuel",
         "def parsed : Bool := true",
         "end half_life"]
    return "\n".join(L)


def main():
    repo = sys.argv[1] if len(sys.argv) > 1 else "/repo"
    outp = sys.argv[2] if len(sys.argv) > 2 else "GenFin.lean"
    out = ["/- GENERATED by translator/finals.py from tevec/src/agg.rs and tevec/src/map.rs — do not edit. -/",
           "import Tv.GenPrelude", "import Tv.GenAgg", "import Tv.GenMap", "import Tv.GenRank",
           "set_option linter.unusedVariables false",
           "namespace Tv.GenFin", "open Tv.Gen", "",
           "/-- `WinsorizeMethod` -/", "inductive WinMethod where", "  | quantile | median | sigma",
           "deriving DecidableEq, Repr", "",
           "/-- `CorrMethod` -/", "inductive CorrMethod where", "  | pearson | spearman", "deriving DecidableEq, Repr", ""]
    try:
        src = open(os.path.join(repo, "tevec/src/agg.rs"), encoding="utf-8", errors="replace").read()
        src = re.sub(r"//[^\n]*", "", src.split("#[cfg(test)]")[0])
        sig, body = M.fn_src(src, "AggValidFinal", "half_life")
        out.append(translate(sig, body))
    except Exception as ex:
        reason = (("" if isinstance(ex, Unsupported) else type(ex).__name__ + ": ") + str(ex)).replace('"', "'")
        out.append(f"namespace half_life\n/- UNPARSED: {reason} -/\ndef parsed : Bool := false\n"
                   f"def reason : String := \"{reason}\"\nend half_life")
    try:
        msrc = open(os.path.join(repo, "tevec/src/map.rs"), encoding="utf-8", errors="replace").read()
        msrc = re.sub(r"//[^\n]*", "", msrc.split("#[cfg(test)]")[0])
        sig, body = M.fn_src(msrc, "MapValidFinal", "winsorize")
        out.append("")
        out.append(translate_winsorize(sig, body))
    except Exception as ex:
        reason = (("" if isinstance(ex, Unsupported) else type(ex).__name__ + ": ") + str(ex)).replace('"', "'")
        out.append(f"\nnamespace winsorize\n/- UNPARSED: {reason} -/\ndef parsed : Bool := false\n"
                   f"def reason : String := \"{reason}\"\nend winsorize")
    try:
        sig, body = M.fn_src(src, "AggValidFinal", "vcorr")
        out.append("")
        out.append(translate_vcorr(sig, body))
    except Exception as ex:
        reason = (("" if isinstance(ex, Unsupported) else type(ex).__name__ + ": ") + str(ex)).replace('"', "'")
        out.append(f"\nnamespace vcorr\n/- UNPARSED: {reason} -/\ndef parsed : Bool := false\n"
                   f"def reason : String := \"{reason}\"\nend vcorr")
    out.append("\nend Tv.GenFin")
    new = "\n".join(out) + "\n"
    try:
        old = open(outp, encoding="utf-8").read()
    except FileNotFoundError:
        old = None
    if old != new:
        open(outp, "w", encoding="utf-8").write(new)
    print(f"finals.py: half_life -> {outp}")




# ---------------------------------------------------------------------------------------------
# winsorize (tevec/src/map.rs): the composition of vquantile / vmedian / vmean_var / vclip
# ---------------------------------------------------------------------------------------------
_spec_q = importlib.util.spec_from_file_location("quant", os.path.join(here, "quant.py"))
Q = importlib.util.module_from_spec(_spec_q)
_argv2 = sys.argv
sys.argv = [_argv2[0], "/nonexistent", "/dev/null"]
_spec_q.loader.exec_module(Q)
sys.argv = _argv2

WIN_ARMS = {"Quantile": ".quantile", "Median": ".median", "Sigma": ".sigma"}


class WinCps(Q.Cps):
    """`winsorize`: result `TResult<Box<dyn TrustedLen<Item = f64>>>` is `Option (List (Option Rat))`
    (`none` = `Err`); `e?` binds; `self.vquantile(q, Linear)` / `self.vmedian()` /
    `self.titer().vmean_var(k)` are the parameters `vquantile` / `vmedian` / `vmean_var`,
    `self.iter_cast::<f64>()` is the input list, `.vclip(lo, hi)` the function regenerated by maps.py"""

    def ex(self, e, env):
        k = e[0]
        if k == "path" and e[1] == "EPS":
            return "GenAgg.EPS", "Rat", []
        if k == "try":
            t, ty, w = self.ex(e[1], env)
            if not (isinstance(ty, tuple) and ty[0] == "res"):
                raise Unsupported("? on a non-result")
            self.nk += 1
            v = f"t__{self.nk}"
            return v, ty[1], w + [lambda body, t=t, v=v: f"match {t} with\n| none => none\n| some {v} =>\n{indent(body)}"]
        if k == "mcall":
            recv, name, args = e[1], e[2], e[3]
            if recv == ("path", "self") and name == "vquantile" and len(args) == 2 and args[1] == ("path", "QuantileMethod::Linear"):
                q, tq, wq = self.ex(args[0], env)
                if tq != "Rat":
                    raise Unsupported("quantile level")
                return f"(vquantile xs {q})", ("res", "F"), wq
            if recv == ("path", "self") and name == "vmedian" and not args:
                return "(vmedian xs)", "F", []
            if recv == ("path", "self") and name == "iter_cast" and not args:
                return "xs", "ListE", []
            if recv == ("path", "self") and name == "map" and len(args) == 1 and args[0][0] == "closure":
                cl = args[0]
                if len(cl[1]) != 1 or cl[1][0][0] != "pvar" or cl[2][0] != "block" or cl[2][1]:
                    raise Unsupported("closure of map")
                v = cl[1][0][1]
                env_b = dict(env)
                env_b[v] = "Elem"
                b, tb, wb = self.ex(cl[2][2], env_b)
                if wb or tb != "F":
                    raise Unsupported("body of the map closure")
                return f"(xs.map fun {lname(v)} => {b})", "ListE", []
            if name == "vmean_var" and recv == ("mcall", ("path", "self"), "titer", []) and len(args) == 1:
                a, ta, wa = self.ex(args[0], env)
                if ta != "Nat":
                    raise Unsupported("vmean_var argument")
                return f"(vmean_var xs {a})", ("tuple", ("F", "F")), wa
            r, tr, w = self.ex(recv, env)
            if tr == "ListE" and name == "collect_trusted_to_vec" and not args:
                return r, "ListE", w
            if tr == "ListE" and name == "vmedian" and not args:
                return f"(vmedian {r})", "F", w
            if tr == "ListE" and name == "vclip" and len(args) == 2:
                lo, tlo, wlo = self.ex(args[0], env)
                hi, thi, whi = self.ex(args[1], env)
                if tlo == "Rat":
                    lo, tlo = f"(some {lo})", "F"
                if thi == "Rat":
                    hi, thi = f"(some {hi})", "F"
                if tlo != "F" or thi != "F":
                    raise Unsupported("vclip bounds")
                return f"(GenMap.vclip.run {r} {lo} {hi})", "ListE", w + wlo + whi
            if tr == "OptRat" and name == "unwrap_or" and len(args) == 1:
                a, ta, wa = self.ex(args[0], env)
                if ta != "Rat":
                    raise Unsupported("unwrap_or operand")
                return f"({r}.getD {a})", "Rat", w + wa
            if tr in ("F", "Elem") and name == "not_none" and not args:
                return f"{r}.isSome", "Bool", w
            if tr == "F" and name == "abs" and not args:
                return f"({r}.map ratAbs)", "F", w
            if tr == "F" and name == "sqrt" and not args:
                return f"({r}.map sqrt)", "F", w
        if k == "bin" and e[1] in (">", "<", ">=", "<="):
            a, ta, wa = self.ex(e[2], env)
            b, tb, wb = self.ex(e[3], env)
            if ta == "F" and tb == "Rat":
                fn = {"<": "fLt", "<=": "fLe", ">": "fGt", ">=": "fGe"}[e[1]]
                return f"({fn} {a} {b})", "Bool", wa + wb
            if ta == "Rat" and tb == "F":        # `EPS < var`: the mirrored comparison
                fn = {"<": "fGt", "<=": "fGe", ">": "fLt", ">=": "fLe"}[e[1]]
                return f"({fn} {b} {a})", "Bool", wa + wb
        return super().ex(e, env)

    def result(self, e, env):
        if e[0] == "call" and e[1] == "Ok" and len(e[2]) == 1 and e[2][0][0] == "call" and e[2][0][1] == "Box::new" and len(e[2][0][2]) == 1:
            t, ty, w = self.ex(e[2][0][2][0], env)
            if ty != "ListE":
                raise Unsupported("boxed value")
            return self.wrap(w, f"some {t}")
        raise Unsupported("returned value")

    def branch(self, e, env, k):
        if e[0] == "match":
            scrut, arms = e[1], e[2]
            st, sty, sw = self.ex(scrut, env)
            if sty != ("enum", "WinMethod"):
                return super().branch(e, env, k)
            out = [f"match {st} with"]
            for pats, body in arms:
                if len(pats) != 1 or pats[0] not in WIN_ARMS:
                    raise Unsupported(f"match arm {pats}")
                b = self.seq(body[1], body[2], env, k) if body[0] == "block" else self.seq([], body, env, k)
                out.append(f"| {WIN_ARMS[pats[0]]} =>\n{indent(b)}")
            return self.wrap(sw, "\n".join(out))
        return super().branch(e, env, k)


def translate_winsorize(sig, body_src):
    blk = C.P(C.tokenize(body_src)).block()
    if (not re.search(r"method\s*:\s*WinsorizeMethod", sig) or not re.search(r"method_params\s*:\s*Option<f64>", sig)
            or "TResult<Box<dyn TrustedLen<Item = f64>" not in re.sub(r"\s+", " ", sig)):
        raise Unsupported("signature of winsorize")
    em = WinCps()

    def final(v, ty, env):
        if ty == "Res":
            return em.result(v[1], env)
        raise Unsupported(f"function value of type {ty}")
    txt = em.seq(blk[1], blk[2], {"method": ("enum", "WinMethod"), "method_params": "OptRat"}, final)
    L = ["namespace winsorize",
         "/-- `winsorize` of tevec/src/map.rs, in source order; `none` = `Err`. Parameters: `vquantile l q` is",
         "`l.vquantile(q, Linear)` (`none` = its error), `vmedian l` is `l.vmedian()`, `vmean_var l k` is",
         "`l.titer().vmean_var(k)` (NaN = `none`); `vclip` is the function regenerated by maps.py -/",
         "def run (sqrt : Rat → Rat) (vquantile : List (Option Rat) → Rat → Option (Option Rat))",
         "    (vmedian : List (Option Rat) → Option Rat) (vmean_var : List (Option Rat) → Nat → Option Rat × Option Rat)",
         "    (xs : List (Option Rat)) (method : WinMethod) (method_params : Option Rat) : Option (List (Option Rat)) :=",
         indent(txt, 2),
         "def parsed : Bool := true",
         "end winsorize"]
    return "\n".join(L)


# ---------------------------------------------------------------------------------------------
# vcorr (tevec/src/agg.rs): Pearson, or Pearson of the average ranks (Spearman)
# ---------------------------------------------------------------------------------------------
CORR_ARMS = {"CorrMethod::Pearson": ".pearson", "CorrMethod::Spearman": ".spearman", "Pearson": ".pearson", "Spearman": ".spearman"}


class CorrCps(Q.Cps):
    """`vcorr`: the result `T::Cast<f64>` is `Option (Option Rat)` (`none` = panic, `some none` = NaN);
    `self` / `other` are the lists `xs` / `ys`, `X.vrank::<Vec<f64>, _>(pct, rev)` is the function
    regenerated by ranks.py (its write-once slots flattened to floats), `X.vcorr_pearson(Y, mp)` the
    one regenerated by aggs.py"""
    PANIC = "none"

    def flat(self, t, ty):
        if ty == "OutL":
            return f"({t}.map Option.join)"
        if ty == "ListE":
            return t
        raise Unsupported(f"series of type {ty}")

    def ex(self, e, env):
        k = e[0]
        if k == "path" and e[1] in ("true", "false") and e[1] not in env:
            return e[1], "Bool", []
        if k == "bin" and e[1] == "/":
            a, ta, wa = self.ex(e[2], env)
            b, tb, wb = self.ex(e[3], env)
            if ta == tb == "Nat":
                return f"({a} / {b})", "Nat", wa + wb
        if k == "mcall":
            recv, name, args = e[1], e[2], e[3]
            if recv in (("path", "self"), ("path", "other")) and name == "titer" and not args:
                return ("xs" if recv[1] == "self" else "ys"), "ListE", []
            if recv in (("path", "self"), ("path", "other")) and name == "len" and not args:
                return ("xs" if recv[1] == "self" else "ys") + ".length", "Nat", []
            if recv in (("path", "self"), ("path", "other")) and name == "vrank" and len(args) == 2:
                a, ta, wa = self.ex(args[0], env)
                b, tb, wb = self.ex(args[1], env)
                if ta != "Bool" or tb != "Bool":
                    raise Unsupported("vrank arguments")
                self.nk += 1
                v = f"r__{self.nk}"
                src = "xs" if recv[1] == "self" else "ys"
                call = f"(GenRank.vrank.run S {src} {a} {b})"
                return v, "OutL", wa + wb + [lambda body, call=call, v=v: f"match {call} with\n| none => none\n| some {v} =>\n{indent(body)}"]
            if name == "vcorr_pearson" and len(args) == 2:
                x, tx, wx = self.ex(recv, env)
                y, ty_, wy = self.ex(args[0], env)
                m, tm, wm = self.ex(args[1], env)
                if tm != "Nat":
                    raise Unsupported("min_periods")
                return f"(GenAgg.vcorr_pearson.run sqrt {self.flat(x, tx)} {self.flat(y, ty_)} {m})", "F", wx + wy + wm
            r, tr, w = self.ex(recv, env)
            if tr == "OptNat" and name == "unwrap_or" and len(args) == 1:
                a, ta, wa = self.ex(args[0], env)
                if ta != "Nat":
                    raise Unsupported("unwrap_or operand")
                return f"({r}.getD {a})", "Nat", w + wa
        return super().ex(e, env)

    def branch(self, e, env, k):
        if e[0] == "match":
            scrut, arms = e[1], e[2]
            st, sty, sw = self.ex(scrut, env)
            if sty == ("enum", "CorrMethod"):
                out = [f"match {st} with"]
                for pats, body in arms:
                    if len(pats) != 1 or pats[0] not in CORR_ARMS:
                        raise Unsupported(f"match arm {pats}")
                    b = self.seq(body[1], body[2], env, k) if body[0] == "block" else self.seq([], body, env, k)
                    out.append(f"| {CORR_ARMS[pats[0]]} =>\n{indent(b)}")
                return self.wrap(sw, "\n".join(out))
        return super().branch(e, env, k)


def translate_vcorr(sig, body_src):
    body_src = re.sub(r"#\[[^\]]*\]", "", body_src)          # `#[cfg(feature = "map")]` on a match arm
    blk = C.P(C.tokenize(body_src)).block()
    if (not re.search(r"other\s*:\s*&V2", sig) or not re.search(r"min_periods\s*:\s*Option<usize>", sig)
            or not re.search(r"method\s*:\s*CorrMethod", sig)):
        raise Unsupported("signature of vcorr")
    em = CorrCps()

    def final(v, ty, env):
        if ty == "F":
            return f"some {v}"
        raise Unsupported(f"function value of type {ty}")
    txt = em.seq(blk[1], blk[2], {"min_periods": "OptNat", "method": ("enum", "CorrMethod")}, final)
    L = ["namespace vcorr",
         "/-- `vcorr` of tevec/src/agg.rs, in source order; `none` = panic, `some none` = NaN -/",
         "def run (sqrt : Rat → Rat) (S : C12.Std) (xs ys : List (Option Rat)) (min_periods : Option Nat)",
         "    (method : CorrMethod) : Option (Option Rat) :=",
         indent(txt, 2),
         "def parsed : Bool := true",
         "end vcorr"]
    return "\n".join(L)


if __name__ == "__main__":
    main()
