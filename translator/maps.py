#!/usr/bin/env python3
"""Statement-level translator for the element-wise mapping operations of tea-map
(`MapBasic::shift`, `MapValidBasic::{vclip, fill, vshift}`, `MapValidVec::{vdiff, vpct_change}`):
Rust function body  ->  Lean 4 function  `Tv.GenMap.<fn>.run`  on lists.

Uses the parser / emitter of closures.py and adds the iterator algebra these functions are written
in, read as the list algebra of the items an iterator yields:

    self / self.titer()            xs                    std::iter::repeat_n(v, k)   List.replicate k v
    a.chain(b)                     a ++ b                a.take(k) / a.skip(k)       a.take k / a.drop k
    a.zip(b)                       a.zip b               a.map(|p| e)                a.map fun p => e
    Box::new(a), a.to_trust(n), TrustIter::new(a, n)     a        (announced lengths are C09's subject)
    self.len()                     xs.length             n.unsigned_abs() as usize   n.natAbs   (n : Int)

`match n { n if c => a, …, _ => z }` becomes an `if` chain, `match (f, g) { (true, false) => … }`
nested `if`s, `if c { return x; }` nests the rest of the body in the `else` branch.  Elements are
`Option Rat` (`none` = NaN / `None`); arithmetic on elements propagates nulls (`lift2`).
Anything outside the subset is emitted as `parsed := false` (fail closed).
"""
import re, sys, os, importlib.util

here = os.path.dirname(os.path.abspath(__file__))
spec = importlib.util.spec_from_file_location("closures", os.path.join(here, "closures.py"))
_argv = sys.argv
sys.argv = [_argv[0]]
C = importlib.util.module_from_spec(spec)
spec.loader.exec_module(C)
sys.argv = _argv
Unsupported = C.Unsupported

repo = sys.argv[1] if len(sys.argv) > 1 else "/repo"
outp = sys.argv[2] if len(sys.argv) > 2 else "GenMap.lean"

# (function, file, trait, element type of `self`, parameter types)
FNS = [
    ("shift", "tea-map/src/lib.rs", "MapBasic", {"n": "Int", "value": "Elem"}),
    ("vclip", "tea-map/src/valid_iter.rs", "MapValidBasic", {"lower": "Elem", "upper": "Elem"}),
    ("fill_mask", "tea-map/src/valid_iter.rs", "MapValidBasic", {"mask_func": "Mask", "value": "Elem"}),
    ("fill", "tea-map/src/valid_iter.rs", "MapValidBasic", {"value": "Elem"}),
    ("ffill_mask", "tea-map/src/valid_iter.rs", "MapValidBasic", {"mask_func": "Mask", "value": ("opt", "Elem")}),
    ("ffill", "tea-map/src/valid_iter.rs", "MapValidBasic", {"value": ("opt", "Elem")}),
    ("bfill_mask", "tea-map/src/valid_iter.rs", "MapValidBasic", {"mask_func": "Mask", "value": ("opt", "Elem")}),
    ("bfill", "tea-map/src/valid_iter.rs", "MapValidBasic", {"value": ("opt", "Elem")}),
    ("vshift", "tea-map/src/valid_iter.rs", "MapValidBasic", {"n": "Int", "value": ("opt", "Elem")}),
    ("vdiff", "tea-map/src/vec_map.rs", "MapValidVec", {"n": "Int", "value": ("opt", "Elem")}),
    ("vpct_change", "tea-map/src/vec_map.rs", "MapValidVec", {"n": "Int"}),
    ("abs", "tea-map/src/lib.rs", "MapBasic", {}),
    ("vabs", "tea-map/src/valid_iter.rs", "MapValidBasic", {}),
    ("drop_none", "tea-map/src/valid_iter.rs", "MapValidBasic", {}),
    ("vsorted_unique", "tea-map/src/valid_iter.rs", "MapValidBasic", {}),
    ("vsorted_unique_idx", "tea-map/src/valid_iter.rs", "MapValidBasic", {"keep": "Keep"}),
    ("vcut", "tea-map/src/valid_iter.rs", "MapValidBasic",
     {"bins": ("list", "Rat"), "labels": ("list", "Elem"), "right": "Bool", "add_bounds": "Bool"}),
]

# `let mut x = None;` / `let mut x = if let … { … } else { None };` without annotation: the option type
LET_TYPES = {"vsorted_unique_idx": {"last_value": "Elem"}, "vcut": {"out": ("opt", "Elem")}}

# item type of the closure of a `filter_map` per function
FILTER_MAP_ITEM = {"vsorted_unique": ("opt", "Elem"), "vsorted_unique_idx": "OptNat"}


_ann = C.ann_type
def ann_type(txt):
    t = (txt or "").replace(" ", "")
    if t == "Option<T>":
        return "OptElem"
    return _ann(txt)
C.ann_type = ann_type


def is_list(t):
    return isinstance(t, tuple) and t[0] == "list"


def elem_compat(a, b):
    opt = ("Elem", "OptF")
    if a == b or (a in opt and b in opt):
        return True
    if isinstance(a, tuple) and isinstance(b, tuple) and a[0] == b[0] == "tuple" and len(a[1]) == len(b[1]):
        return all(elem_compat(x, y) for x, y in zip(a[1], b[1]))
    return False


def ty_lean(t):
    if is_list(t):
        return "List (" + ty_lean(t[1]) + ")"
    if t == "Int":
        return "Int"
    if t == "Mask":
        return "Option Rat → Bool"
    if t == "Keep":
        return "Bool"
    if isinstance(t, tuple) and t[0] == "opt":
        return "Option (" + ty_lean(t[1]) + ")"
    return C.ty_lean(t)


def rewrite_replace(node):
    """`X.replace(E).map(|_| R)` as the tail of a block  ->  `let old__ = X; X = Some(E); old__.map(|_| R)`
    (`Option::replace` stores `Some(E)` and returns the previous value)"""
    if isinstance(node, list):
        return [rewrite_replace(x) for x in node]
    if not isinstance(node, tuple):
        return node
    node = tuple(rewrite_replace(x) for x in node)
    if node and node[0] == "block" and node[2] is not None:
        t = node[2]
        if (t[0] == "mcall" and t[2] == "map" and t[1][0] == "mcall" and t[1][2] == "replace" and len(t[1][3]) == 1
                and t[1][1][0] == "path"):
            x = t[1][1]
            stmts = list(node[1]) + [("let", ("pvar", "old__"), False, x, ""),
                                     ("assign", "=", x, ("call", "Some", [t[1][3][0]]))]
            return ("block", stmts, ("mcall", ("path", "old__"), "map", t[3]))
    return node


def rewrite_is_none(node):
    """`if x.is_none() { A } else { B }`  ->  `if x.not_none() { B } else { A }` (B may unwrap `x`)"""
    if isinstance(node, list):
        return [rewrite_is_none(x) for x in node]
    if not isinstance(node, tuple):
        return node
    node = tuple(rewrite_is_none(x) for x in node)
    if (node and node[0] == "if" and node[3] is not None and node[3][0] == "block" and node[1][0] == "mcall"
            and node[1][2] == "is_none" and not node[1][3] and node[1][1][0] == "path"):
        return ("if", ("mcall", node[1][1], "not_none", []), node[3], node[2])
    return node


def has_break(node):
    if isinstance(node, list):
        return any(has_break(x) for x in node)
    if isinstance(node, tuple):
        if node == ("path", "break"):
            return True
        return any(has_break(x) for x in node)
    return False


def rewrite_break(node):
    """`break;`  ->  `brk__ = true;`"""
    if isinstance(node, list):
        return [rewrite_break(x) for x in node]
    if not isinstance(node, tuple):
        return node
    if node == ("expr", ("path", "break")):
        return ("assign", "=", ("path", "brk__"), ("path", "true"))
    return tuple(rewrite_break(x) for x in node)


def contains_return(node):
    if isinstance(node, list):
        return any(contains_return(x) for x in node)
    if isinstance(node, tuple):
        if node and node[0] == "return":
            return True
        if node and node[0] == "closure":
            return False
        return any(contains_return(x) for x in node)
    return False


class MapEmit(C.Emit):
    def stmts(self, ss, tail, env, outs, expect=None):
        # `let first = iter.next();` on a list-valued iterator variable: its head, and the variable is its tail
        ss1 = []
        for st in ss:
            if (st[0] == "let" and st[3] is not None and st[3][0] == "mcall" and st[3][2] == "next" and not st[3][3]
                    and st[3][1][0] == "path"):
                it = st[3][1]
                ss1.append(("let", st[1], st[2], ("mcall", it, "__head", []), st[4] if len(st) > 4 else ""))
                ss1.append(("assign", "=", it, ("mcall", it, "__tail", [])))
            else:
                ss1.append(st)
        ss = ss1
        for idx, st in enumerate(ss):
            if st[0] == "let" and st[3] is not None and st[1][0] == "pvar" and contains_return(st[3]):
                # `let x = if c { return Err(..) } …;`: the initialiser in the Option monad (`none` = the early
                # `Err`), then the rest of the block under the bound value
                pre_txt, _ = super().stmts(ss[:idx], None, env, outs, None) if idx else ("", None)
                self.in_result = True
                e_txt, e_ty = self.result_value(st[3], env)
                self.in_result = False
                env2 = dict(env)
                env2[st[1][1]] = e_ty
                rest_txt, rest_ty = self.stmts(ss[idx + 1:], tail, env2, outs, expect)
                if not (isinstance(rest_ty, tuple) and rest_ty[0] == "opt"):
                    raise Unsupported(f"block after a fallible let has type {rest_ty}")
                lines = pre_txt.split("\n")[:-1] if idx else []
                lines.append(f"match (\n{C.indent(e_txt)}) with\n| none => none\n| some {C.lname(st[1][1])} =>\n{C.indent(rest_txt)}")
                return "\n".join(lines), rest_ty
        # bind state-mutating closures (`let f = move |v: T| { … last_valid = … }`) symbolically
        ss2 = []
        ss = [(("let", st[1], st[2], ("call", "__none_optelem", []), st[4])
               if (st[0] == "let" and len(st) > 4 and (st[4] or "").replace(" ", "") == "Option<T>" and st[3] == ("path", "None"))
               else st) for st in ss]
        for st in ss:
            if st[0] == "let" and st[3] is not None and st[3][0] == "closure" and st[1][0] == "pvar":
                cl = st[3]
                if len(cl[1]) != 1:
                    raise Unsupported("stateful closure arity")
                env[st[1][1]] = ("stclosure", cl, None)
                continue
            ss2.append(st)
        return super().stmts(ss2, tail, env, outs, expect)

    def result_value(self, e, env):
        """an expression that may `return Err(..)`: (text of type Option T, T)"""
        k = e[0]
        if k == "if":
            c, cty = self.ex0(e[1], env)
            if cty != "Bool":
                raise Unsupported("condition is not boolean")
            t, tt = self.result_value(e[2], env)
            if e[3] is None:
                raise Unsupported("fallible if without else")
            f, ft = self.result_value(e[3], env)
            if tt is None:
                tt = ft
            if ft is None:
                ft = tt
            if tt != ft:
                raise Unsupported(f"fallible branches of types {tt} / {ft}")
            return f"if {c} then\n{C.indent(t)}\nelse\n{C.indent(f)}", tt
        if k == "block":
            ss, tail = e[1], e[2]
            # `if c { return Err(..) }` statements, then a value
            if ss and ss[0][0] == "expr" and ss[0][1][0] == "if" and ss[0][1][3] is None and self.ends_with_return(ss[0][1][2]):
                c, cty = self.ex0(ss[0][1][1], env)
                if cty != "Bool":
                    raise Unsupported("condition is not boolean")
                rest, rt = self.result_value(("block", ss[1:], tail), env)
                return f"if {c} then\n  none\nelse\n{C.indent(rest)}", rt
            if ss and ss[0][0] == "expr" and ss[0][1][0] == "return":
                return "none", None
            if ss or tail is None:
                raise Unsupported("fallible block shape")
            v, vt = self.ex0(tail, env)
            return f"some {v}", vt
        if k == "return":
            return "none", None
        v, vt = self.ex0(e, env)
        return f"some {v}", vt

    def conj(self, c):
        if c[0] == "paren":
            return self.conj(c[1])
        if c[0] == "bin" and c[1] in ("&&", "&"):
            return self.conj(c[2]) + self.conj(c[3])
        return [c]

    def guard_split(self, c, env):
        """leading `x.not_none()` conjuncts over nullable variables, and the remaining conjuncts"""
        names, rest = [], []
        for x in self.conj(c):
            if (not rest and x[0] == "mcall" and x[2] == "not_none" and not x[3] and x[1][0] == "path"
                    and env.get(x[1][1]) in ("Elem", "OptF") and x[1][1] not in names):
                names.append(x[1][1])
            else:
                rest.append(x)
        return names, rest

    def effect(self, e, env, outs, expect=None):
        k = e[0]
        if k == "if" and not outs:
            names, rest = self.guard_split(e[1], env)
            if names and e[3] is not None:
                env_t = dict(env)
                for n in names:
                    env_t[n] = "Rat"
                conds = []
                for r in rest:
                    ct, cty = self.ex0(r, env_t)
                    if cty != "Bool":
                        raise Unsupported("condition is not boolean")
                    conds.append(ct)
                want = expect if (expect in ("Elem", "OptF") or expect == ("opt", "Elem")) else "OptF"
                t_txt, t_ty = self.effect(e[2], env_t, [], want)
                ei_txt, ei_ty = self.effect(e[3], env_t, [], want)       # else, variables rebound
                eo_txt, eo_ty = self.effect(e[3], dict(env), [], want)   # else, a variable is null
                if want == ("opt", "Elem") and not (t_ty == ei_ty == eo_ty == want):
                    raise Unsupported(f"guarded branches of types {t_ty} / {ei_ty} / {eo_ty}")
                if want != ("opt", "Elem") and not (elem_compat(t_ty, want) and elem_compat(ei_ty, want) and elem_compat(eo_ty, want)):
                    raise Unsupported(f"guarded branches of types {t_ty} / {ei_ty} / {eo_ty}")
                scrut = ", ".join(C.lname(n) for n in names)
                pats = ", ".join(f"some {C.lname(n)}" for n in names)
                wild = ", ".join("_" for _ in names)
                inner = t_txt if not conds else (
                    f"if {' && '.join(conds)} then\n{C.indent(t_txt)}\nelse\n{C.indent(ei_txt)}")
                return (f"match {scrut} with\n| {pats} =>\n{C.indent(inner)}\n| {wild} =>\n{C.indent(eo_txt)}"), want
        if k == "matchg":
            if outs:
                raise Unsupported("guarded match that assigns")
            return self.matchg(e, env, expect)
        if k == "for" and not (e[2][0] == "bin" and e[2][1] in ("..", "..=")):
            # `for pat in <iterator> { …; if c { …; break; } }` over a list-valued iterator
            pat, it, body = e[1], e[2], e[3]
            r, tr = self.ex0(it, env)
            if not is_list(tr):
                raise Unsupported("for over a non-list")
            if not outs:
                return "()", None
            brk = has_break(body)
            body = rewrite_break(body)
            env_b = dict(env)
            ptxt = self.bind_pat(pat, tr[1], env_b)
            st = list(outs)
            if brk:
                env_b["brk__"] = "Bool"
                st = st + ["brk__"]
            btxt, bty = self.stmts(body[1], body[2], env_b, st, None)
            if bty is not None:
                raise Unsupported("valued for body")
            acc = C.tuple_txt([C.lname(o) for o in st])
            if brk:
                keep = C.tuple_txt([C.lname(o) for o in outs])
                return (f"(List.foldl (fun {acc} {ptxt} =>\n  if brk__ then {acc} else\n{C.indent(btxt)})\n  {C.tuple_txt([C.lname(o) for o in outs] + ['false'])} {r}){'.1' if len(outs) == 1 else ''}"
                        if len(outs) == 1 else None) or (_ for _ in ()).throw(Unsupported("for-break with several outputs")), None
            return f"List.foldl (fun {acc} {ptxt} =>\n{C.indent(btxt)})\n  {acc} {r}", None
        if k == "match" and e[1][0] == "path" and env.get(e[1][1]) == "Keep":
            if outs:
                raise Unsupported("match on keep that assigns")
            arms = {}
            for pats, body in e[2]:
                if len(pats) != 1 or pats[0] not in ("Keep::First", "Keep::Last"):
                    raise Unsupported("Keep pattern")
                arms[pats[0]] = self.effect(body, dict(env), [], expect)
            if set(arms) != {"Keep::First", "Keep::Last"}:
                raise Unsupported("non-exhaustive match on Keep")
            (a, ta), (b, tb) = arms["Keep::First"], arms["Keep::Last"]
            if ta != tb:
                raise Unsupported("Keep arms of different types")
            return f"if {C.lname(e[1][1])} then\n{C.indent(a)}\nelse\n{C.indent(b)}", ta
        return super().effect(e, env, outs, expect)

    def matchg(self, e, env, expect):
        scrut, arms = e[1], e[2]
        # (a) `match n { n if c => a, …, _ => z }` on an integer
        if scrut[0] == "path" and env.get(scrut[1]) == "Int":
            txt, ty = None, None
            for pats, guard, body in reversed(arms):
                if len(pats) != 1:
                    raise Unsupported("or-pattern in a guarded match")
                b_txt, b_ty = self.effect(body, dict(env), [], expect)
                if ty is not None and not (b_ty == ty or (is_list(b_ty) and is_list(ty) and elem_compat(b_ty[1], ty[1]))):
                    raise Unsupported(f"match arms of types {b_ty} / {ty}")
                ty = b_ty if ty is None else ty
                if pats[0] == "_" and guard is None:
                    if txt is not None:
                        raise Unsupported("wildcard arm is not last")
                    txt = b_txt
                    continue
                if pats[0] != scrut[1] or guard is None:
                    raise Unsupported("guarded match arm shape")
                if txt is None:
                    raise Unsupported("match without a wildcard arm")
                g_txt, g_ty = self.ex0(guard, env)
                if g_ty != "Bool":
                    raise Unsupported("guard is not boolean")
                txt = f"if {g_txt} then\n{C.indent(b_txt)}\nelse\n{C.indent(txt)}"
            return txt, ty
        # (b) `match (f, g) { (true, false) => …, … }` on booleans
        if scrut[0] == "tuple" and all(x[0] == "path" and env.get(x[1]) == "Bool" for x in scrut[1]):
            flags = [C.lname(x[1]) for x in scrut[1]]
            table = {}
            ty = None
            for pats, guard, body in arms:
                if guard is not None or len(pats) != 1 or not (isinstance(pats[0], tuple) and pats[0][0] == "tuplepat"):
                    raise Unsupported("boolean match arm shape")
                b_txt, b_ty = self.effect(body, dict(env), [], expect)
                if ty is not None and not (b_ty == ty or (is_list(b_ty) and is_list(ty) and elem_compat(b_ty[1], ty[1]))):
                    raise Unsupported(f"match arms of types {b_ty} / {ty}")
                ty = b_ty if ty is None else ty
                table[tuple(pats[0][1])] = b_txt

            def build(prefix):
                i = len(prefix)
                if i == len(flags):
                    for key, val in table.items():
                        if all(k_ in ("_", p_) for k_, p_ in zip(key, prefix)):
                            return val
                    raise Unsupported("non-exhaustive boolean match")
                return (f"if {flags[i]} then\n{C.indent(build(prefix + ['true']))}\nelse\n"
                        f"{C.indent(build(prefix + ['false']))}")
            return build([]), ty
        raise Unsupported("guarded match scrutinee")

    def ex0(self, e, env, expect=None):
        k = e[0]
        if k == "path" and e[1] == "self":
            return "xs", ("list", "Elem")
        if k == "matchg" or (k == "if" and self.guard_split(e[1], env)[0] and e[3] is not None):
            t, ty = self.effect(e, env, [], expect)
            return "(\n" + C.indent(t) + ")", ty
        if k == "path" and e[1] == "T::is_none":
            return "Option.isNone", "Mask"
        if k == "path" and e[1] in ("true", "false") and e[1] not in env:
            return e[1], "Bool"
        if k == "match" and e[1][0] == "path" and env.get(e[1][1]) == "Keep":
            t, ty = self.effect(e, env, [], expect)
            return "(\n" + C.indent(t) + ")", ty
        if k == "closure" and env.get("__stateful_ok__"):
            raise Unsupported("closure value")
        if k == "call":
            name, args = e[1], e[2]
            if env.get(name) == "Mask" and len(args) == 1:
                a, ta = self.ex0(args[0], env)
                if ta != "Elem":
                    raise Unsupported("mask argument")
                return f"({C.lname(name)} {a})", "Bool"
            if name == "__none_optelem":
                return "(none : Option (Option Rat))", ("opt", "Elem")
            if name == "Ok" and len(args) == 1:
                a, ta = self.ex0(args[0], env, expect[1] if isinstance(expect, tuple) and expect[0] == "opt" else None)
                return f"(some {a})", ("opt", ta)
            if name == "vec1__" and len(args) == 1:
                a, ta = self.ex0(args[0], env)
                if ta != "Rat":
                    raise Unsupported("vec! element")
                return f"[{a}]", ("list", "Rat")
            if re.fullmatch(r"(\w+::)*min_", name) and not args and "MIN" in env:
                return "MIN", "Rat"
            if re.fullmatch(r"(\w+::)*max_", name) and not args and "MAX" in env:
                return "MAX", "Rat"
            if re.fullmatch(r"(\w+::)*none", name) and not args:
                return "none", "Elem"
            if re.fullmatch(r"(\w+::)*from_inner", name) and len(args) == 1:
                a, ta = self.ex0(args[0], env)
                if ta != "Rat":
                    raise Unsupported("from_inner argument")
                return f"(some {a})", "Elem"
            if name == "Some" and len(args) == 1:
                a, ta = self.ex0(args[0], env)
                if ta == "Elem":
                    return f"(some {a})", ("opt", "Elem")
            if name == "Box::new" and len(args) == 1:
                return self.ex0(args[0], env, expect)
            if name == "TrustIter::new" and len(args) == 2:
                return self.ex0(args[0], env, expect)
            if name in ("std::iter::once", "once") and len(args) == 1:
                v, tv = self.ex(args[0], env, "Elem")
                if tv not in ("Elem", "OptF"):
                    raise Unsupported(f"once({tv})")
                return f"[{v}]", ("list", "Elem")
            if name in ("std::iter::repeat_n", "repeat_n") and len(args) == 2:
                v, tv = self.ex0(args[0], env)
                n, tn = self.ex0(args[1], env)
                if tn != "Nat" or tv not in ("Elem", "OptF"):
                    raise Unsupported(f"repeat_n({tv}, {tn})")
                return f"(List.replicate {n} {v})", ("list", "Elem")
        if k == "bin" and e[1] in ("<", ">", "<=", ">=", "==", "!="):
            a, ta = self.ex0(e[2], env)
            b, tb = self.ex0(e[3], env)
            if ta == "Int" and e[3][0] == "num":
                lop = {"<": "<", ">": ">", "<=": "≤", ">=": "≥", "==": "=", "!=": "≠"}[e[1]]
                return f"decide ({a} {lop} ({b} : Int))", "Bool"
        if k == "bin" and e[1] in ("==", "!="):
            a, ta = self.ex0(e[2], env)
            b, tb = self.ex0(e[3], env)
            if ta in ("Elem", "OptF") and tb in ("Elem", "OptF"):
                return f"decide ({a} {'=' if e[1] == '==' else '≠'} {b})", "Bool"
        if k == "bin" and e[1] in ("+", "-", "*", "/"):
            a, ta = self.ex0(e[2], env)
            b, tb = self.ex0(e[3], env)
            if ta in ("Elem", "OptF") and tb in ("Elem", "OptF"):
                return f"(lift2 (· {e[1]} ·) {a} {b})", ("Elem" if ta == tb == "Elem" else "OptF")
        if k == "mcall":
            name, args = e[2], e[3]
            if e[1][0] == "path" and is_list(env.get(e[1][1])) and name in ("titer", "len"):
                if name == "titer" and not args:
                    return C.lname(e[1][1]), env[e[1][1]]
                if name == "len" and not args:
                    return f"{C.lname(e[1][1])}.length", "Nat"
            if e[1] == ("path", "self"):
                if name == "titer" and not args:
                    return "xs", ("list", "Elem")
                if name == "len" and not args:
                    return "xs.length", "Nat"
            if e[1] == ("path", "self") and name in getattr(self, "siblings", {}):
                lean_name, ptys = self.siblings[name]
                if len(args) != len(ptys):
                    raise Unsupported("sibling call arity")
                ats = []
                for a, pt in zip(args, ptys):
                    at, aty = self.ex0(a, env)
                    if aty != pt:
                        raise Unsupported(f"sibling call argument {aty} for {pt}")
                    ats.append(at)
                return f"({lean_name} xs" + "".join(" " + a for a in ats) + ")", ("list", "Elem")
            r, tr = self.ex0(e[1], env)
            if name in ("clone", "as_ref", "into_iter", "collect_trusted_to_vec", "collect", "collect_trusted_vec1") and not args:
                return r, tr
            if name == "map" and args == [("path", "IsNone::unwrap")] and tr == ("list", "Rat"):
                return r, tr          # the edges are non-null values: `unwrap` is the identity on them
            if name == "saturating_sub" and len(args) == 1 and tr == "Nat":
                a, ta = self.ex0(args[0], env)
                if ta != "Nat":
                    raise Unsupported("saturating_sub argument")
                return f"({r} - {a})", "Nat"
            if name == "tuple_windows" and not args and tr == ("list", "Rat"):
                return f"(windows {r})", ("list", ("tuple", ("Rat", "Rat")))
            if name == "ok_or_else" and len(args) == 1 and tr == ("opt", "Elem"):
                return r, tr          # `None` becomes the per-element `Err`: `none` of the item type
            if name == "len" and not args and is_list(tr):
                return f"{r}.length", "Nat"
            if name == "rev" and not args and is_list(tr):
                return f"{r}.reverse", tr
            if name == "__head" and is_list(tr):
                return f"{r}.head?", ("opt", tr[1])
            if name == "__tail" and is_list(tr):
                return f"{r}.tail", tr
            if name == "enumerate" and not args and is_list(tr):
                return f"(enumerate {r})", ("list", ("tuple", ("Nat", tr[1])))
            if name == "map" and len(args) == 1 and args[0][0] == "path" and isinstance(env.get(args[0][1]), tuple) \
                    and env[args[0][1]][0] == "stclosure" and is_list(tr):
                # `.map(f)` with `f` a closure that mutates a captured cell: a state-passing map
                _, cl, _ = env[args[0][1]]
                bound = set(n for q in cl[1] for n in C.pat_names(q, []))
                state = [o for o in C.assigned_outer(cl[2], frozenset(bound))
                         if o in env and not (isinstance(env[o], tuple) and env[o][0] == "stclosure")]
                if not state:
                    raise Unsupported("stateful map without state")
                env2 = dict(env)
                ptxt = self.bind_pat(cl[1][0], tr[1], env2)
                b, tb = self.stmts(cl[2][1], cl[2][2], env2, state, "Elem")
                if tb not in ("Elem", "OptF"):
                    raise Unsupported(f"stateful map closure result {tb}")
                st = C.tuple_txt([C.lname(o) for o in state])
                return (f"(mapSt (fun {st} {ptxt} =>\n{C.indent(b)})\n  {st} {r})"), ("list", "Elem")
            if name == "filter_map" and len(args) == 1 and args[0][0] == "closure" and is_list(tr):
                # `.filter_map(move |p| …)`: the closure may mutate captured cells (state-passing)
                cl = args[0]
                if len(cl[1]) != 1:
                    raise Unsupported("filter_map closure arity")
                bound = set(n for q in cl[1] for n in C.pat_names(q, []))
                state = [o for o in C.assigned_outer(cl[2], frozenset(bound))
                         if o in env and not (isinstance(env[o], tuple) and env[o][0] == "stclosure")]
                env2 = dict(env)
                ptxt = self.bind_pat(cl[1][0], tr[1], env2)
                want = getattr(self, "filter_map_item", None)
                b, tb = self.stmts(cl[2][1], cl[2][2], env2, state, want)
                if tb == ("opt", "Elem"):
                    item = "Elem"
                elif tb == "OptNat":
                    item = "Nat"
                else:
                    raise Unsupported(f"filter_map closure result {tb}")
                if state:
                    st = C.tuple_txt([C.lname(o) for o in state])
                    return (f"(filterMapSt (fun {st} {ptxt} =>\n{C.indent(b)})\n  {st} {r})"), ("list", item)
                return f"({r}.filterMap fun {ptxt} =>\n{C.indent(b)})", ("list", item)
            if name == "unwrap" and not args and tr == "Elem":
                return f"({r}.getD 0)", "Rat"      # a panic on a null is not part of the generated semantics
            if name == "unsigned_abs" and not args and tr == "Int":
                return f"{r}.natAbs", "Nat"
            if name == "unwrap_or_else" and len(args) == 1 and tr == ("opt", "Elem"):
                cl = args[0]
                if cl[0] != "closure" or cl[1]:
                    raise Unsupported("unwrap_or_else argument")
                d, td = self.effect(cl[2], dict(env), [], "Elem")
                return f"({r}.getD {d})", "Elem"
            if name == "to_trust" and len(args) == 1 and is_list(tr):
                return r, tr
            if name in ("take", "skip") and len(args) == 1 and is_list(tr):
                a, ta = self.ex0(args[0], env)
                if ta != "Nat":
                    raise Unsupported(f"{name} argument")
                return f"({r}.{'take' if name == 'take' else 'drop'} {a})", tr
            if name == "chain" and len(args) == 1 and is_list(tr):
                a, ta = self.ex0(args[0], env)
                if not (is_list(ta) and (ta[1] == tr[1] or elem_compat(ta[1], tr[1]))):
                    raise Unsupported(f"chain of {tr} and {ta}")
                return f"({r} ++ {a})", tr
            if name == "zip" and len(args) == 1 and is_list(tr):
                a, ta = self.ex0(args[0], env)
                if not is_list(ta):
                    raise Unsupported("zip argument")
                return f"({r}.zip {a})", ("list", ("tuple", (tr[1], ta[1])))
            if name == "map" and len(args) == 1 and args[0][0] == "closure" and is_list(tr):
                cl = args[0]
                if len(cl[1]) != 1:
                    raise Unsupported("map closure arity")
                env2 = dict(env)
                ptxt = self.bind_pat(cl[1][0], tr[1], env2)
                if [o for o in C.assigned_outer(cl[2]) if o in env]:
                    raise Unsupported("map closure assigns captured variables")
                want = getattr(self, "map_item", None) or ("Elem" if tr[1] == "Elem" else "OptF")
                b, tb = self.effect(cl[2], env2, [], want)
                if tb == "Rat":
                    b, tb = f"some ({b})", want
                if tb == ("opt", "Elem") and want == ("opt", "Elem"):
                    body = "(\n" + C.indent(b) + ")" if "\n" in b else f"({b})"
                    return f"({r}.map fun {ptxt} => {body})", ("list", ("opt", "Elem"))
                if tb not in ("Elem", "OptF"):
                    raise Unsupported(f"map closure result {tb}")
                body = "(\n" + C.indent(b) + ")" if "\n" in b else f"({b})"
                return f"({r}.map fun {ptxt} => {body})", ("list", "Elem")
            if name == "cast" and not args and tr == "Elem":
                return r, "OptF"
            if name in ("abs", "vabs") and not args and tr in ("Elem", "OptF"):
                # `Number::abs` on the value (NaN.abs() is NaN) / `IsNone::vabs`: abs of the inner value
                return f"({r}.map ratAbs)", tr
            if name == "filter" and len(args) == 1 and args[0] == ("path", "T::not_none") and is_list(tr):
                return f"({r}.filter Option.isSome)", tr
        return super().ex0(e, env, expect)


INF = "∞"


class LenEmit(MapEmit):
    """the same walk, with every iterator-valued expression replaced by the length its `size_hint` /
    `TrustedLen` contract announces: `self` / `titer()` -> xs.length, repeat_n(v, k) -> k, chain -> +,
    take(k) -> min, skip(k) -> -, zip -> min, map / rev / enumerate / Box::new -> unchanged,
    `to_trust(n)` / `TrustIter::new(_, n)` -> n (the claim), `repeat(v)` -> infinite (only under take)"""

    def ex0(self, e, env, expect=None):
        k = e[0]
        if getattr(self, "value_mode", False):
            return MapEmit.ex0(self, e, env, expect)
        if k == "mcall" and e[2] in ("collect", "collect_trusted_vec1", "collect_trusted_to_vec"):
            # a collected `Vec` is a value (its items matter later), not a returned iterator
            self.value_mode = True
            try:
                r, tr = MapEmit.ex0(self, e, env, expect)
            finally:
                self.value_mode = False
            return r, (("vec", tr[1]) if is_list(tr) else tr)
        if k == "path" and isinstance(env.get(e[1]), tuple) and env[e[1]][0] == "vec":
            return C.lname(e[1]), env[e[1]]
        if k == "mcall" and e[2] in ("len", "titer", "into_iter") and not e[3]:
            try:
                r, tr = self.ex0(e[1], env)
            except Unsupported:
                r, tr = None, None
            if isinstance(tr, tuple) and tr[0] == "vec":
                return (f"{r}.length", "Nat") if e[2] == "len" else (f"{r}.length", ("list", tr[1]))
        if k == "path" and e[1] == "self":
            return "xs.length", ("list", "Elem")
        if k == "call":
            name, args = e[1], e[2]
            if name in ("Box::new",) and len(args) == 1:
                return self.ex0(args[0], env, expect)
            if name == "TrustIter::new" and len(args) == 2:
                n, tn = MapEmit.ex0(self, args[1], env)
                if tn != "Nat":
                    raise Unsupported("announced length")
                return n, ("list", "Elem")
            if name in ("std::iter::repeat_n", "repeat_n") and len(args) == 2:
                n, tn = MapEmit.ex0(self, args[1], env)
                if tn != "Nat":
                    raise Unsupported("repeat_n count")
                return n, ("list", "Elem")
            if name in ("std::iter::repeat", "repeat", "std::iter::repeat_with", "repeat_with") and len(args) == 1:
                return INF, ("list", "Elem")
            if name in ("std::iter::once", "once") and len(args) == 1:
                return "1", ("list", "Elem")
            if name == "Ok" and len(args) == 1:
                a, ta = self.ex0(args[0], env)
                if is_list(ta):
                    return f"(some {a})", ("opt", ta)
        if k == "mcall":
            name, args = e[2], e[3]
            if e[1] == ("path", "self") and name in ("titer", "into_iter") and not args:
                return "xs.length", ("list", "Elem")
            if e[1] == ("path", "self") and name in getattr(self, "len_siblings", {}):
                lean_name, ptys = self.len_siblings[name]
                ats = []
                for a, pt in zip(args, ptys):
                    at, aty = MapEmit.ex0(self, a, env)
                    ats.append(at)
                return f"({lean_name} xs" + "".join(" " + a for a in ats) + ")", ("list", "Elem")
            if name == "to_trust" and len(args) == 1:
                n, tn = MapEmit.ex0(self, args[0], env)
                if tn != "Nat":
                    raise Unsupported("announced length")
                return n, ("list", "Elem")
            if name in ("map", "rev", "enumerate", "into_iter", "clone", "collect", "collect_trusted_vec1",
                        "collect_trusted_to_vec", "titer") and (e[1] == ("path", "self") or e[1][0] in ("mcall", "call", "path")):
                try:
                    r, tr = self.ex0(e[1], env)
                except Unsupported:
                    r, tr = None, None
                if r is not None and is_list(tr):
                    if name == "map" and len(args) == 1 and args[0][0] == "path" and isinstance(env.get(args[0][1]), tuple):
                        return r, tr
                    if name in ("map",) and len(args) != 1:
                        raise Unsupported("map arity")
                    return r, tr
            if name in ("chain", "zip", "take", "skip"):
                r, tr = self.ex0(e[1], env)
                if not is_list(tr) or len(args) != 1:
                    raise Unsupported(f"{name} receiver")
                if name in ("chain", "zip"):
                    a, ta = self.ex0(args[0], env)
                    if not is_list(ta):
                        raise Unsupported(f"{name} argument")
                    if name == "chain":
                        return (INF if INF in (r, a) else f"({r} + {a})"), tr
                    if r == INF:
                        return a, tr
                    if a == INF:
                        return r, tr
                    return f"(min {r} {a})", tr
                a, ta = MapEmit.ex0(self, args[0], env)
                if ta != "Nat":
                    raise Unsupported(f"{name} argument")
                if name == "take":
                    return (a if r == INF else f"(min {r} {a})"), tr
                return (INF if r == INF else f"({r} - {a})"), tr
            if name in ("filter", "filter_map"):
                raise Unsupported(f"{name}: not an exact-length iterator")
        return super().ex0(e, env, expect)


def fn_src(src, trait, name):
    m = re.search(r"pub trait " + trait + r"\b", src)
    if not m:
        raise Unsupported(f"trait {trait} not found")
    src = src[m.end():]
    m = re.search(r"\bfn " + name + r"\b", src)
    if not m:
        raise Unsupported("function not found")
    # skip the generic parameter list (it may contain `Fn(&T) -> bool`)
    j0 = m.end()
    while src[j0].isspace():
        j0 += 1
    if src[j0] == "<":
        depth, q = 0, j0
        while True:
            c = src[q]
            if c == "<":
                depth += 1
            elif c == ">" and src[q - 1] != "-":
                depth -= 1
                if depth == 0:
                    break
            q += 1
        j0 = q + 1
    i = src.index("{", j0)
    sig_start = j0
    depth, j = 0, i
    while j < len(src):
        if src[j] == "{":
            depth += 1
        elif src[j] == "}":
            depth -= 1
            if depth == 0:
                break
        j += 1
    return src[sig_start: i], src[i: j + 1]


SIBLINGS = {}
LEN_SIBLINGS = {}
# functions that return `impl TrustedLen` / `Box<dyn TrustedLen>`: their announced length is generated too
TRUSTED = ["shift", "vclip", "fill_mask", "fill", "ffill_mask", "ffill", "bfill_mask", "bfill", "vshift", "vdiff",
           "vpct_change", "abs", "vabs", "vcut"]


def translate(name, rel, trait, params):
    src = open(os.path.join(repo, rel), encoding="utf-8", errors="replace").read().split("#[cfg(test)]")[0]
    sig, body_src = fn_src(src, trait, name)
    # the parameters named in the table must be those of the signature, in order
    sig_params = re.findall(r"\b(\w+)\s*:(?!:)", sig.split("->")[0].split("(", 1)[1])
    sig_params = [p for p in sig_params if p not in ("self",)]
    if [p for p in sig_params if p in params] != list(params) or any(p not in params for p in sig_params):
        raise Unsupported(f"parameters {sig_params}")
    if name == "vcut":
        body_src = re.sub(r"//[^\n]*", "", body_src)
        body_src = re.sub(r'"(?:[^"\\]|\\.)*"', "0", body_src)
        bal = r"\((?:[^()]|\((?:[^()]|\([^()]*\))*\))*\)"
        body_src = re.sub(r"\btbail!\s*" + bal, "return Err(0)", body_src)
        body_src = re.sub(r"\bterr!\s*" + bal, "0", body_src)
        body_src = re.sub(r"\bvec!\s*\[([^\[\]]*)\]", r"vec1__(\1)", body_src)
    blk = rewrite_is_none(rewrite_replace(C.P(C.tokenize(body_src)).block()))
    em = MapEmit()
    em.none_types = LET_TYPES.get(name, {})
    em.map_item = ("opt", "Elem") if name == "vcut" else None
    em.siblings = dict(SIBLINGS)
    em.allow_len = False
    em.filter_map_item = FILTER_MAP_ITEM.get(name)
    env = dict(params)
    if name == "vcut":
        env["MIN"] = "Rat"
        env["MAX"] = "Rat"
    txt, ty = em.stmts(blk[1], blk[2], env, [], None)
    fallible = isinstance(ty, tuple) and ty[0] == "opt" and is_list(ty[1])
    if not fallible and (not is_list(ty) or ty[1] not in ("Elem", "OptF", "Nat")):
        raise Unsupported(f"result type {ty}")
    L = [f"namespace {name}"]
    ps = "".join(f" ({C.lname(p)} : {ty_lean(t)})" for p, t in params.items())
    if name == "vcut":
        ps = " (MIN MAX : Rat)" + ps
    L.append(f"/-- `{trait}::{name}` ({rel}), in source order, on the list of items the iterator yields -/")
    L.append(f"def run (xs : List (Option Rat)){ps} : {ty_lean(ty)} :=")
    L.append(C.indent(txt, 2))
    L.append("def parsed : Bool := true")
    if name in TRUSTED:
        try:
            lem = LenEmit()
            lem.siblings = dict(SIBLINGS)
            lem.len_siblings = dict(LEN_SIBLINGS)
            lem.allow_len = False
            lem.none_types = LET_TYPES.get(name, {})
            lem.map_item = em.map_item
            lenv = dict(params)
            if name == "vcut":
                lenv["MIN"] = "Rat"
                lenv["MAX"] = "Rat"
            ltxt, lty = lem.stmts(blk[1], blk[2], lenv, [], None)
            if INF in ltxt:
                raise Unsupported("an infinite iterator is returned")
            fall = isinstance(lty, tuple) and lty[0] == "opt"
            L.append("/-- the length the returned `TrustedLen` iterator announces (`to_trust(n)` claims `n`) -/")
            L.append(f"def announced (xs : List (Option Rat)){ps} : {'Option Nat' if fall else 'Nat'} :=")
            L.append(C.indent(ltxt, 2))
            L.append("def announcedParsed : Bool := true")
            LEN_SIBLINGS[name] = (f"{name}.announced", list(params.values()))
        except Unsupported as ex:
            reason = str(ex).replace('"', "'")
            L.append(f"/- announced length UNPARSED: {reason} -/")
            L.append("def announcedParsed : Bool := false")
    L.append(f"end {name}")
    SIBLINGS[name] = (f"{name}.run", list(params.values()))
    return "\n".join(L)


def main():
    out = ["/- GENERATED by translator/maps.py from tea-map — do not edit. -/",
           "import Tv.GenPrelude", "set_option linter.unusedVariables false", "namespace Tv.GenMap",
           "open Tv.Gen", ""]
    names = []
    for name, rel, trait, params in FNS:
        try:
            txt = translate(name, rel, trait, params)
        except Unsupported as ex:
            reason = str(ex).replace('"', "'")
            txt = (f"namespace {name}\n/- UNPARSED: {reason} -/\ndef parsed : Bool := false\n"
                   f"def reason : String := \"{reason}\"\nend {name}")
        except Exception as ex:
            reason = (type(ex).__name__ + ": " + str(ex)).replace('"', "'")
            txt = (f"namespace {name}\n/- UNPARSED: {reason} -/\ndef parsed : Bool := false\n"
                   f"def reason : String := \"{reason}\"\nend {name}")
        names.append(name)
        out.append(txt)
        out.append("")
    out.append("def functions : List String := [" + ", ".join(f'"{n}"' for n in names) + "]")
    out.append("\nend Tv.GenMap")
    new = "\n".join(out) + "\n"
    try:
        old = open(outp, encoding="utf-8").read()
    except FileNotFoundError:
        old = None
    if old != new:
        open(outp, "w", encoding="utf-8").write(new)
    print(f"maps.py: {len(names)} functions -> {outp}")


if __name__ == "__main__":
    main()
