#!/usr/bin/env python3
"""reads.py <repo> <out.lean>: the unchecked element accesses of the rolling kernels, regenerated.

For every `fn ts_*` of the rolling crates whose body contains an unchecked accessor (`uget`,
`uslice`, `get_unchecked`, …) the closure handed to `rolling_apply_idx` / `rolling2_apply_idx` is
walked statement by statement and every access site becomes one term of

    def <fn>.reads (start : Option Nat) (end' : Nat) : List Nat

— the indices the closure can pass to an unchecked accessor in one invocation with the driver's
arguments `(start, end)`.  Conditions are dropped (every branch contributes: an over-approximation
of the accesses, which is the safe direction for "never out of bounds"), loops `for i in a..b`,
`a..=b` and `(a..=b).map(|j| …)` contribute the whole index range, `start.unwrap()`,
`let start = start.unwrap()` and `if let Some(start) = start` contribute only when `start` is
`Some` (a `None` is a clean panic or a skipped branch, not an access).  An index expression may be
built from the closure's `start` / `end`, loop variables, literals and `+` only; anything else (a
captured mutable variable, a subtraction, which wraps in release builds, an assignment to an index
variable, an accessor other than `uget`, an accessor outside a `ts_*` closure) is refused and the
function is emitted as `parsed := false` (fail closed).  `Thm/C10GenC.lean` proves every listed
index `≤ end'` whenever `start ≤ end'`, and, composed with the regenerated drivers (`GenDrv`),
`< len` for every call the drivers make.
"""
import os
import re
import sys

sys.path.insert(0, os.path.dirname(os.path.abspath(__file__)))
_argv = sys.argv
sys.argv = [_argv[0], _argv[1] if len(_argv) > 1 else ".", os.devnull]
import closures as C  # noqa: E402  (parser only)
sys.argv = _argv

FILES = ["tea-rolling/src/cmp.rs", "tea-rolling/src/norm.rs", "tea-rolling/src/reg.rs",
         "tea-rolling/src/features.rs", "tea-rolling/src/binary.rs", "tevec/src/rolling.rs"]
ACCESSORS = ("uget", "uget_mut", "uslice", "uslice_mut", "get_unchecked", "get_unchecked_mut", "uvget", "uset")
ACC_RE = re.compile(r"\b(" + "|".join(ACCESSORS) + r")\s*\(")
Unsupported = C.Unsupported


class Walk:
    def __init__(self):
        self.sites = 0
        self.fresh = 0

    def name(self, base):
        self.fresh += 1
        return f"{base}__{self.fresh}"

    # ---- index expressions: (lean text, [(optional lean expr, bound name)])
    def idx(self, e, env):
        t = e[0]
        if t == "paren":
            return self.idx(e[1], env)
        if t == "num":
            if not re.fullmatch(r"\d+(usize)?", e[1]):
                raise Unsupported(f"index literal {e[1]}")
            return e[1].replace("usize", ""), []
        if t == "path":
            v = env.get(e[1])
            if v is None:
                raise Unsupported(f"index depends on `{e[1]}` (not the closure's start / end, a loop variable or a literal)")
            if v[0] != "nat":
                raise Unsupported(f"optional `{e[1]}` used as an index")
            return v[1], []
        if t == "mcall" and e[1][0] == "path" and e[1][1] in env and env[e[1][1]][0] == "opt":
            o = env[e[1][1]][1]
            if e[2] == "unwrap" and not e[3]:
                n = self.name("s")
                return n, [(o, n)]
            if e[2] == "unwrap_or" and len(e[3]) == 1 and e[3][0][0] == "num" and re.fullmatch(r"\d+(usize)?", e[3][0][1]):
                return f"({o}.getD {e[3][0][1].replace('usize', '')})", []
        if t == "mcall" and e[1][0] == "path" and e[1][1] not in env:
            raise Unsupported(f"index depends on `{e[1][1]}` (not the closure's start / end, a loop variable or a literal)")
        if t == "bin" and e[1] == "+":
            a, ga = self.idx(e[2], env)
            b, gb = self.idx(e[3], env)
            return f"({a} + {b})", ga + gb
        if t == "bin" and e[1] == "-":
            raise Unsupported("subtraction in an index expression (wraps in release builds)")
        raise Unsupported(f"index expression {t}")

    @staticmethod
    def guard(gs, body):
        for o, n in reversed(gs):
            body = f"(match {o} with | some {n} => {body} | none => [])"
        return body

    @staticmethod
    def cat(parts):
        parts = [p for p in parts if p != "[]"]
        if not parts:
            return "[]"
        return "(" + " ++ ".join(parts) + ")" if len(parts) > 1 else parts[0]

    def rng(self, it, env):
        """`a..b` / `a..=b` -> (lo, count, guards)"""
        lo, g1 = self.idx(it[2], env)
        hi, g2 = self.idx(it[3], env)
        n = f"({hi} + 1 - {lo})" if it[1] == "..=" else f"({hi} - {lo})"
        return lo, n, g1 + g2

    def drop(self, env, names):
        env = dict(env)
        for n in names:
            env.pop(n, None)
        return env

    # ---- expressions: Lean list expression of the indices accessed
    def ex(self, e, env):
        if e is None or not isinstance(e, tuple) or not e or not isinstance(e[0], str):
            return "[]"
        t = e[0]
        if t in ("path", "num", "ppath", "pvar", "pwild"):
            return "[]"
        if t == "block":
            return self.block(e[1], e[2], env)
        if t == "for":
            p, it, body = e[1], e[2], e[3]
            if it[0] == "paren":
                it = it[1]
            if it[0] == "bin" and it[1] in ("..", "..="):
                if p[0] != "pvar":
                    raise Unsupported("loop pattern over a range")
                lo, n, gs = self.rng(it, env)
                v = C.lname(p[1])
                env2 = dict(env)
                env2[p[1]] = ("nat", v)
                b = self.ex(body, env2)
                if b == "[]":
                    return "[]"
                return self.guard(gs, f"((List.range' {lo} {n}).flatMap (fun {v} => {b}))")
            acc = []
            C.pat_names(p, acc)
            return self.cat([self.ex(it, env), self.ex(body, self.drop(env, acc))])
        if t == "while":
            return self.cat([self.ex(e[1], env), self.ex(e[2], env)])
        if t == "if":
            return self.cat([self.ex(e[1], env), self.ex(e[2], env), self.ex(e[3], env)])
        if t == "iflet":
            p, scrut, th, el = e[1], e[2], e[3], e[4]
            parts = [self.ex(scrut, env)]
            if p[0] == "psome" and p[1][0] == "pvar" and scrut[0] == "path" and env.get(scrut[1], ("", ""))[0] == "opt":
                n = self.name("s")
                env2 = dict(env)
                env2[p[1][1]] = ("nat", n)
                b = self.ex(th, env2)
                if b != "[]":
                    parts.append(self.guard([(env[scrut[1]][1], n)], b))
            else:
                acc = []
                C.pat_names(p, acc)
                parts.append(self.ex(th, self.drop(env, acc)))
            parts.append(self.ex(el, env))
            return self.cat(parts)
        if t in ("match", "matchg"):
            parts = [self.ex(e[1], env)]
            for arm in e[2]:
                pats, body = arm[0], arm[-1]
                bound = [q[1] for q in pats if isinstance(q, tuple) and q[0] == "Some"]
                env2 = self.drop(env, bound)
                if t == "matchg" and arm[1] is not None:
                    parts.append(self.ex(arm[1], env2))
                parts.append(self.ex(body, env2))
            return self.cat(parts)
        if t == "closure":
            acc = []
            for q in e[1]:
                C.pat_names(q, acc)
            return self.ex(e[2], self.drop(env, acc))
        if t == "mcall":
            recv, name, args = e[1], e[2], e[3]
            if name in ACCESSORS:
                if name != "uget" or len(args) != 1:
                    raise Unsupported(f"unchecked accessor `{name}` in a rolling closure")
                self.sites += 1
                i, gs = self.idx(args[0], env)
                return self.cat([self.ex(recv, env), self.guard(gs, f"[{i}]")])
            r = recv[1] if recv[0] == "paren" else recv
            if name == "map" and r[0] == "bin" and r[1] in ("..", "..=") and len(args) == 1 and args[0][0] == "closure":
                cl = args[0]
                if len(cl[1]) != 1 or cl[1][0][0] != "pvar":
                    raise Unsupported("closure over a range")
                lo, n, gs = self.rng(r, env)
                v = C.lname(cl[1][0][1])
                env2 = dict(env)
                env2[cl[1][0][1]] = ("nat", v)
                b = self.ex(cl[2], env2)
                if b == "[]":
                    return "[]"
                return self.guard(gs, f"((List.range' {lo} {n}).flatMap (fun {v} => {b}))")
            return self.cat([self.ex(recv, env)] + [self.ex(a, env) for a in args])
        if t == "call":
            if e[1].split("::")[-1] in ACCESSORS:
                raise Unsupported(f"unchecked accessor `{e[1]}` called as a function")
            return self.cat([self.ex(a, env) for a in e[2]])
        if t == "struct":
            return self.cat([self.ex(fe, env) for _, fe in e[2]])
        # generic: every child that is an expression or a list of expressions
        parts = []
        for c in e[1:]:
            if isinstance(c, tuple):
                parts.append(self.ex(c, env))
            elif isinstance(c, list):
                for d in c:
                    if isinstance(d, tuple):
                        parts.append(self.ex(d, env))
        return self.cat(parts)

    def tracked_targets(self, lhs, env):
        if lhs[0] == "path":
            if lhs[1] in env:
                raise Unsupported(f"assignment to the index variable `{lhs[1]}`")
        elif lhs[0] in ("tuple",):
            for x in lhs[1]:
                self.tracked_targets(x, env)
        elif lhs[0] == "paren":
            self.tracked_targets(lhs[1], env)

    def block(self, stmts, tail, env):
        env = dict(env)
        if not stmts:
            return self.ex(tail, env)
        st, rest = stmts[0], stmts[1:]
        if st[0] == "let":
            p, e = st[1], st[3]
            head = self.ex(e, env)
            acc = []
            C.pat_names(p, acc)
            if p[0] == "pvar" and e is not None and not st[2]:   # `let mut`: never an index variable
                x = p[1]
                e1 = e[1] if e[0] == "paren" else e
                if (e1[0] == "mcall" and e1[1][0] == "path" and env.get(e1[1][1], ("", ""))[0] == "opt"
                        and e1[2] == "unwrap" and not e1[3]):
                    n = self.name("s")
                    o = env[e1[1][1]][1]
                    env2 = dict(env)
                    env2[x] = ("nat", n)
                    r = self.block(rest, tail, env2)
                    return self.cat([head, self.guard([(o, n)], r) if r != "[]" else "[]"])
                try:
                    i, gs = self.idx(e1, env)
                except Unsupported:
                    i, gs = None, None
                if i is not None and not gs:
                    env2 = dict(env)
                    env2[x] = ("nat", i)
                    return self.cat([head, self.block(rest, tail, env2)])
                if e1[0] == "path" and e1[1] in env:
                    env2 = dict(env)
                    env2[x] = env[e1[1]]
                    return self.cat([head, self.block(rest, tail, env2)])
            return self.cat([head, self.block(rest, tail, self.drop(env, acc))])
        if st[0] == "assign":
            self.tracked_targets(st[2], env)
            return self.cat([self.ex(st[3], env), self.ex(st[2], env), self.block(rest, tail, env)])
        if st[0] == "expr":
            return self.cat([self.ex(st[1], env), self.block(rest, tail, env)])
        raise Unsupported(f"statement {st[0]}")


def find_closure(node):
    """the closure argument of the (single) `rolling*_apply_idx*` call of a function body"""
    found = []

    def walk(x):
        if isinstance(x, tuple):
            if x and x[0] == "mcall" and isinstance(x[2], str) and x[2].startswith("rolling") and "apply" in x[2]:
                cl = [a for a in x[3] if isinstance(a, tuple) and a and a[0] == "closure"]
                found.append((x[2], cl))
            for c in x:
                walk(c)
        elif isinstance(x, list):
            for c in x:
                walk(c)
    walk(node)
    return found


def translate(name, body):
    blk = C.P(C.tokenize(body)).block()
    calls = find_closure(blk)
    if len(calls) != 1 or len(calls[0][1]) != 1:
        raise Unsupported("not exactly one rolling driver call with one closure")
    drv, (cl,) = calls[0]
    if drv not in ("rolling_apply_idx", "rolling2_apply_idx", "rolling_apply_idx_to", "rolling2_apply_idx_to"):
        raise Unsupported(f"unchecked access in a closure of `{drv}` (no index arguments)")
    params = cl[1]
    if len(params) != 3 or params[0][0] != "pvar" or params[1][0] != "pvar":
        raise Unsupported("closure parameters")
    w = Walk()
    env = {params[0][1]: ("opt", "start"), params[1][1]: ("nat", "end'")}
    # accesses outside the closure (the prologue of the function) are refused
    outside = len(ACC_RE.findall(body))
    txt = w.ex(cl[2], env)
    if w.sites != outside:
        raise Unsupported(f"{outside} accessor calls in the function, {w.sites} inside the closure")
    return drv, w.sites, txt


def main():
    repo, outp = sys.argv[1], sys.argv[2]
    out = ["/- GENERATED by translator/reads.py from the Rust sources — do not edit. -/",
           "set_option linter.unusedVariables false", "namespace Tv.GenReads", ""]
    names, total_sites, census = [], 0, 0
    ok = True
    import glob
    files = sorted(set(FILES) | {os.path.relpath(f, repo) for f in glob.glob(os.path.join(repo, "tea-rolling/src/**/*.rs"), recursive=True)},
                   key=lambda f: (FILES.index(f) if f in FILES else len(FILES), f))
    for rel in files:
        try:
            src = open(os.path.join(repo, rel), encoding="utf-8", errors="replace").read()
        except FileNotFoundError:
            continue
        src_nt = src.split("#[cfg(test)]")[0]
        census += len(ACC_RE.findall(src_nt))
        for name, body, sig in C.fn_bodies(src):
            if not ACC_RE.search(body):
                continue
            out.append(f"/-! `{name}` ({rel}) -/")
            out.append(f"namespace {name}")
            try:
                drv, sites, txt = translate(name, body)
                out.append(f"def driver : String := \"{drv}\"")
                out.append(f"def sites : Nat := {sites}")
                out.append("/-- every index one invocation `(start, end)` of the closure can pass to `uget` -/")
                out.append("def reads (start : Option Nat) (end' : Nat) : List Nat :=")
                out.append(f"  {txt}")
                out.append("def parsed : Bool := true")
                total_sites += sites
                names.append(name)
            except Exception as ex:   # Unsupported, tokenizer or parser crash: fail closed
                reason = (str(ex) if isinstance(ex, Unsupported) else type(ex).__name__ + ": " + str(ex)).replace('"', "'")
                out.append(f"/- UNPARSED: {reason} -/")
                out.append("def parsed : Bool := false")
                out.append(f"def reason : String := \"{reason}\"")
                ok = False
            out.append(f"end {name}")
            out.append("")
    out.append("/-- every kernel with unchecked accesses, by name -/")
    out.append("def all : List (String × (Option Nat → Nat → List Nat)) := ["
               + ", ".join(f'("{n}", {n}.reads)' for n in names) + "]")
    out.append(f"def totalSites : Nat := {total_sites}")
    out.append("/-- accessor calls in the scanned files outside `#[cfg(test)]` (must equal `totalSites`: none outside a listed closure) -/")
    out.append(f"def census : Nat := {census}")
    out.append(f"def parsed : Bool := {'true' if ok and census == total_sites else 'false'}")
    out.append("\nend Tv.GenReads")
    new = "\n".join(out) + "\n"
    try:
        old = open(outp, encoding="utf-8").read()
    except FileNotFoundError:
        old = None
    if old != new:
        open(outp, "w", encoding="utf-8").write(new)
    print(f"reads.py: {len(names)} kernels, {total_sites} access sites (census {census}) -> {outp}")


if __name__ == "__main__":
    main()
