#!/usr/bin/env python3
"""Statement-level translator for the partition functions of tea-map/src/vec_map.rs
(`MapValidVec::vpartition`, `varg_partition`):  Rust function body -> Lean 4 functions
`Tv.GenPart.<fn>.run S xs kth sort rev : Option (List _)` (the items the returned iterator yields;
`none` = a panic of `select_nth_unstable_by`) and `Tv.GenPart.<fn>.announced … : Nat` (the length the
returned `TrustedLen` iterator announces).

The bodies are sequences of statements that mutate a scratch `Vec` in place; they are threaded in
source order:

    let mut v: Vec<_> = self.titer().collect_trusted_vec1();     let v := xs
    let mut idx: Vec<_> = Vec1Create::range(None, N as i32, None) let idx := List.range N
    v.sort_unstable_by(cmp).unwrap();                             let v := S.sort cmp v
    v.select_nth_unstable_by(k, cmp);                             match S.select cmp v k with
                                                                  | none => none | some (h, m, t) => let v := h ++ m :: t; …
    v.truncate(k);                                                let v := v.take k
    if c { return X; }  /  if c { … return … } else { … return … }   if c then some X else …
    if c { <mutations> } [else { <mutations> }]                   let v := if c then … else …

`S : C12.Std` is the trusted contract of std's sort / select (lean/Tv/Model/C12.lean).  Comparators:
`T::sort_cmp`, `|a, b| a.sort_cmp(b)` -> `C12.leE false`; the `_rev` forms -> `C12.leE true`; a closure
that reads `self.uget(*a as usize)`, `self.uget(*b as usize)` and compares them -> `C12.leIdx rev xs`.
Iterator expressions use the list algebra of maps.py (`repeat(v)` is allowed only under `take`).
Anything outside the subset is emitted as `parsed := false` (fail closed).
"""
import re, sys, os, importlib.util

here = os.path.dirname(os.path.abspath(__file__))
_argv = sys.argv
sys.argv = [_argv[0], "/nonexistent", "/dev/null"]
spec = importlib.util.spec_from_file_location("maps", os.path.join(here, "maps.py"))
M = importlib.util.module_from_spec(spec)
spec.loader.exec_module(M)
sys.argv = _argv
C = M.C
Unsupported = C.Unsupported

repo = sys.argv[1] if len(sys.argv) > 1 else "/repo"
outp = sys.argv[2] if len(sys.argv) > 2 else "GenPart.lean"
M.repo = repo
REL = "tea-map/src/vec_map.rs"
FNS = [("vpartition", "Elem"), ("varg_partition", "Int")]
INF = "∞"


def ind(s, n=2):
    return C.indent(s, n)


class PartEmit(M.MapEmit):
    """expressions: the list algebra of maps.py plus the iterator forms of the partition functions"""
    item = "Elem"

    def cmp_of(self, e, env):
        """a comparator expression -> Lean term of type item → item → Bool"""
        if e[0] == "path" and e[1] in ("T::sort_cmp", "T::sort_cmp_rev"):
            return f"(C12.leE {'true' if e[1].endswith('_rev') else 'false'})"
        if e[0] == "path" and env.get(e[1]) == "Cmp":
            return C.lname(e[1])
        if e[0] == "closure" and len(e[1]) == 2:
            body = e[2]
            names = [q[1] for q in e[1] if q[0] == "pvar"]
            if len(names) != 2:
                raise Unsupported("comparator parameters")
            tail = body[2]
            if tail is None or tail[0] != "mcall" or tail[2] not in ("sort_cmp", "sort_cmp_rev") or len(tail[3]) != 1:
                raise Unsupported("comparator body")
            rev = "true" if tail[2] == "sort_cmp_rev" else "false"
            a, b = tail[1], tail[3][0]
            b = b[1] if b[0] == "ref" else b
            if not body[1]:
                if a == ("path", names[0]) and b == ("path", names[1]):
                    return f"(C12.leE {rev})"
                raise Unsupported("comparator operands")
            # `let (va, vb) = unsafe { (self.uget((*a) as usize), self.uget((*b) as usize)) }; va.sort_cmp(&vb)`
            if len(body[1]) == 1 and body[1][0][0] == "let" and body[1][0][1][0] == "ptuple":
                st = body[1][0]
                vs = [q[1] for q in st[1][1]]
                val = st[3]
                while val[0] in ("paren", "block"):
                    if val[0] == "block":
                        if val[1] or val[2] is None:
                            break
                        val = val[2]
                    else:
                        val = val[1]

                def is_uget(x, nm):
                    return (x[0] == "mcall" and x[1] == ("path", "self") and x[2] == "uget" and len(x[3]) == 1
                            and strip(x[3][0]) == ("path", nm))

                def strip(x):
                    while x[0] in ("paren", "cast", "deref"):
                        x = x[1]
                    return x
                if (val[0] == "tuple" and len(val[1]) == 2 and is_uget(val[1][0], names[0]) and is_uget(val[1][1], names[1])
                        and a == ("path", vs[0]) and b == ("path", vs[1])):
                    return f"(C12.leIdx {rev} xs)"
            raise Unsupported("comparator shape")
        raise Unsupported("comparator")

    def ex0(self, e, env, expect=None):
        k = e[0]
        if k == "call":
            name, args = e[1], e[2]
            if name in ("std::iter::repeat", "repeat") and len(args) == 1:
                v, tv = self.ex0(args[0], env)
                return ("REPEAT", v), ("inf", tv)
            if name in ("std::iter::repeat_with", "repeat_with") and len(args) == 1 and args[0] == ("path", "T::none"):
                return ("REPEAT", "none"), ("inf", "Elem")
            if re.fullmatch(r"(\w+::)*none", name) and not args:
                return "none", "Elem"
            if name == "Some" and len(args) == 1:
                a, ta = self.ex0(args[0], env)
                if ta == "Int":
                    return f"(some {a})", ("opt", "Int")
        if k == "neg" and e[1][0] == "num":
            return f"(-{e[1][1]} : Int)", "Int"
        if k == "cast" and e[2] == "i32":
            a, ta = self.ex0(e[1], env)
            if ta == "Nat":
                return f"(Int.ofNat {a})", "Int"
        if k == "path" and e[1] == "IsNone::not_none":
            return "Option.isSome", "Mask"
        if k == "mcall":
            name, args = e[2], e[3]
            if e[1] == ("mcall", ("path", "self"), "titer", []) and name == "count_valid" and not args:
                return "(xs.filter Option.isSome).length", "Nat"
            if name == "filter" and args == [("path", "IsNone::not_none")]:
                r, tr = self.ex0(e[1], env)
                if M.is_list(tr) and tr[1] == "Elem":
                    return f"({r}.filter Option.isSome)", tr
            if name == "chain" and len(args) == 1:
                r, tr = self.ex0(e[1], env)
                a, ta = self.ex0(args[0], env)
                if M.is_list(tr) and isinstance(ta, tuple) and ta[0] == "inf":
                    if tr[1] == "Nat" and ta[1] == "Int":
                        # an index vector (`Vec<i32>` of positions, kept as naturals) chained with `-1`s
                        r, tr = f"({r}.map Int.ofNat)", ("list", "Int")
                    if not (ta[1] == tr[1] or (ta[1] in ("Elem", "OptF") and tr[1] in ("Elem", "OptF"))):
                        raise Unsupported(f"chain of {tr} and repeat({ta[1]})")
                    return ("PAD", r, a[1]), ("inf", tr[1])
            if name == "take" and len(args) == 1:
                r, tr = self.ex0(e[1], env)
                if isinstance(tr, tuple) and tr[0] == "inf":
                    kx, tk = self.ex0(args[0], env)
                    if tk != "Nat" or r[0] != "PAD":
                        raise Unsupported("take of an infinite iterator")
                    return f"(C12.padTake {r[1]} {r[2]} {kx})", ("list", tr[1])
            if name == "filter_map" and len(args) == 1 and args[0][0] == "closure":
                r, tr = self.ex0(e[1], env)
                cl = args[0]
                if M.is_list(tr) and len(cl[1]) == 1:
                    env2 = dict(env)
                    ptxt = self.bind_pat(cl[1][0], tr[1], env2)
                    b, tb = self.effect(cl[2], env2, [], ("opt", "Int"))
                    if tb != ("opt", "Int"):
                        raise Unsupported(f"filter_map closure result {tb}")
                    body = "(\n" + ind(b) + ")" if "\n" in b else f"({b})"
                    return f"({r}.filterMap fun {ptxt} => {body})", ("list", "Int")
        r = super().ex0(e, env, expect)
        return r

    def effect(self, e, env, outs, expect=None):
        # `if v.not_none() { Some(i as i32) } else { None }` with an Int option result
        if e[0] == "if" and not outs and expect == ("opt", "Int") and e[3] is not None:
            names, rest = self.guard_split(e[1], env)
            if names and not rest:
                t, tt = super().effect(e[2], dict(env, **{n: "Rat" for n in names}), [], expect)
                f, ft = super().effect(e[3], dict(env), [], expect)
                if tt != expect or ft != expect:
                    raise Unsupported(f"guarded branches of types {tt} / {ft}")
                scrut = ", ".join(C.lname(n) for n in names)
                pats = ", ".join(f"some {C.lname(n)}" for n in names)
                wild = ", ".join("_" for _ in names)
                return f"match {scrut} with\n| {pats} =>\n{ind(t)}\n| {wild} =>\n{ind(f)}", expect
        return super().effect(e, env, outs, expect)


def norm(blk):
    """a tail `if` / `return` is treated as the last statement"""
    if blk[2] is not None and blk[2][0] in ("if", "return"):
        return ("block", list(blk[1]) + [("expr", blk[2])], None)
    return blk


def ends_with_return(blk):
    blk = norm(blk)
    if blk[2] is not None:
        return False
    return bool(blk[1]) and blk[1][-1][0] == "expr" and (blk[1][-1][1][0] == "return" or
                                                         (blk[1][-1][1][0] == "if" and blk[1][-1][1][3] is not None
                                                          and ends_with_return(blk[1][-1][1][2]) and ends_with_return(blk[1][-1][1][3])))


class Walker:
    def __init__(self, item, length_mode=False):
        self.em = PartEmit()
        self.em.item = item
        self.item = item
        self.len_mode = length_mode

    def lty(self):
        return "Nat" if self.len_mode else "List " + ("(Option Rat)" if self.item == "Elem" else "Int")

    def value(self, e, env):
        """the returned iterator expression: its items, or (length mode) the length it announces"""
        e = e[2][0] if (e[0] == "call" and e[1] == "Box::new" and len(e[2]) == 1) else e
        if self.len_mode:
            return self.announced(e, env)
        t, ty = self.em.ex0(e, env)
        if not M.is_list(ty):
            raise Unsupported(f"returned value of type {ty}")
        if self.item == "Int" and ty[1] == "Nat":
            t = f"({t}.map Int.ofNat)"
        return t

    def announced(self, e, env):
        k = e[0]
        if k == "mcall":
            name, args = e[2], e[3]
            if name == "to_trust" and len(args) == 1:
                n, tn = self.em.ex0(args[0], env)
                if tn != "Nat":
                    raise Unsupported("announced length")
                return n
            if name == "into_iter" and e[1][0] == "path" and M.is_list(env.get(e[1][1])):
                return f"{C.lname(e[1][1])}.length"
        raise Unsupported("returned iterator without an announced length")

    def mutation(self, st, env):
        """a statement that updates one scratch vector in place -> (var, new value text) | ('select', var, k, cmp)"""
        e = st[1]
        if e[0] == "mcall" and e[2] == "unwrap" and not e[3]:
            e = e[1]
        if e[0] == "mcall" and e[1][0] == "path" and M.is_list(env.get(e[1][1])):
            v = e[1][1]
            if e[2] == "sort_unstable_by" and len(e[3]) == 1:
                return ("set", v, f"S.sort {self.em.cmp_of(e[3][0], env)} {C.lname(v)}")
            if e[2] == "truncate" and len(e[3]) == 1:
                k, tk = self.em.ex0(e[3][0], env)
                if tk != "Nat":
                    raise Unsupported("truncate argument")
                return ("set", v, f"{C.lname(v)}.take {k}")
            if e[2] == "select_nth_unstable_by" and len(e[3]) == 2:
                k, tk = self.em.ex0(e[3][0], env)
                if tk != "Nat":
                    raise Unsupported("select argument")
                return ("select", v, k, self.em.cmp_of(e[3][1], env))
        raise Unsupported("statement")

    def pure_mutations(self, blk, env):
        """a block of in-place updates of ONE vector (no returns): (var, value text)"""
        stmts = list(blk[1])
        if blk[2] is not None:
            # `{ v.sort_unstable_by(..).unwrap() }`: the unit value of the last call
            stmts.append(("expr", blk[2]))
        var, cur = None, None
        for st in stmts:
            if st[0] != "expr":
                raise Unsupported("mutation block statement")
            m = self.mutation(st, env)
            if m[0] != "set" or (var is not None and m[1] != var):
                raise Unsupported("mutation block shape")
            var = m[1]
            cur = m[2] if cur is None else m[2].replace(C.lname(var), f"({cur})")
        if var is None:
            raise Unsupported("empty mutation block")
        return var, cur

    def block(self, stmts, tail, env):
        _, stmts, tail = norm(("block", stmts, tail))
        env = dict(env)
        lines = []
        for idx, st in enumerate(stmts):
            rest = lambda: self.block(stmts[idx + 1:], tail, env)
            if st[0] == "let" and st[1][0] == "pvar":
                name, e = st[1][1], st[3]
                if e is not None and e[0] == "mcall" and e[2] == "collect_trusted_vec1" and e[1] == ("mcall", ("path", "self"), "titer", []):
                    lines.append(f"let {C.lname(name)} := xs")
                    env[name] = ("list", "Elem")
                    continue
                if (e is not None and e[0] == "mcall" and e[2] == "unwrap" and e[1][0] == "mcall" and e[1][2] == "try_as_slice_mut"
                        and e[1][1][0] == "path" and M.is_list(env.get(e[1][1][1]))):
                    # `let slc = v.try_as_slice_mut().unwrap();`: the same storage under another name
                    lines.append(f"let {C.lname(name)} := {C.lname(e[1][1][1])}")
                    env[name] = env[e[1][1][1]]
                    continue
                if (e is not None and e[0] == "call" and e[1] == "Vec1Create::range" and len(e[2]) == 3
                        and e[2][0] == ("path", "None") and e[2][2] == ("path", "None")):
                    hi = e[2][1]
                    hi = hi[1] if hi[0] == "cast" else hi
                    h, th = self.em.ex0(hi, env)
                    if th != "Nat":
                        raise Unsupported("range bound")
                    lines.append(f"let {C.lname(name)} := List.range {h}")
                    env[name] = ("list", "Nat")
                    continue
                if e is not None and (e[0] == "closure" or (e[0] == "if" and e[3] is not None)):
                    try:
                        if e[0] == "closure":
                            c = self.em.cmp_of(e, env)
                        else:
                            cc, tc = self.em.ex0(e[1], env)
                            a = self.em.cmp_of(e[2][2], env)
                            b = self.em.cmp_of(e[3][2], env)
                            c = f"(if {cc} then {a} else {b})"
                        lines.append(f"let {C.lname(name)} := {c}")
                        env[name] = "Cmp"
                        continue
                    except Unsupported:
                        pass
                t, ty = self.em.ex0(e, env)
                lines.append(f"let {C.lname(name)} := {t}")
                env[name] = ty
                continue
            if st[0] == "expr" and st[1][0] == "return":
                return "\n".join(lines + ["some " + self.paren(self.value(st[1][1], env))])
            if st[0] == "expr" and st[1][0] == "if":
                e = st[1]
                c, tc = self.em.ex0(e[1], env)
                if tc != "Bool":
                    raise Unsupported("condition is not boolean")
                if idx == len(stmts) - 1 and tail is None and e[3] is not None and not (ends_with_return(e[2]) and ends_with_return(e[3])):
                    # the function's value: `if c { …; Box::new(a) } else { …; Box::new(b) }`
                    t = self.block(e[2][1], e[2][2], env)
                    f = self.block(e[3][1], e[3][2], env)
                    return "\n".join(lines + [f"if {c} then\n{ind(t)}\nelse\n{ind(f)}"])
                if ends_with_return(e[2]) and (e[3] is None or ends_with_return(e[3])):
                    t = self.block(e[2][1], e[2][2], env)
                    f = self.block(e[3][1], e[3][2], env) if e[3] is not None else rest()
                    return "\n".join(lines + [f"if {c} then\n{ind(t)}\nelse\n{ind(f)}"])
                # in-place updates of one vector in one or both branches
                v1, t1 = self.pure_mutations(e[2], env)
                if e[3] is not None:
                    v2, t2 = self.pure_mutations(e[3], env)
                    if v1 != v2:
                        raise Unsupported("branches update different vectors")
                else:
                    t2 = C.lname(v1)
                lines.append(f"let {C.lname(v1)} := if {c} then {t1} else {t2}")
                continue
            if st[0] == "expr":
                m = self.mutation(st, env)
                if m[0] == "set":
                    lines.append(f"let {C.lname(m[1])} := {m[2]}")
                    continue
                v = C.lname(m[1])
                r = rest()
                return "\n".join(lines + [f"match S.select {m[3]} {v} {m[2]} with\n| none => none\n| some (h__, m__, t__) =>\n"
                                          + ind(f"let {v} := h__ ++ m__ :: t__\n{r}")])
            raise Unsupported(f"statement kind {st[0]}")
        if tail is None:
            raise Unsupported("block without a value")
        if tail[0] == "return":
            tail = tail[1]
        return "\n".join(lines + ["some " + self.paren(self.value(tail, env))])

    def paren(self, t):
        return t if re.fullmatch(r"[\w.']+|\(.*\)", t, re.S) else f"({t})"


def translate(name, item):
    src = open(os.path.join(repo, REL), encoding="utf-8", errors="replace").read().split("#[cfg(test)]")[0]
    src = re.sub(r"//[^\n]*", "", src)
    sig, body_src = M.fn_src(src, "MapValidVec", name)
    sig_params = [p for p in re.findall(r"\b(\w+)\s*:(?!:)", sig.split("->")[0].split("(", 1)[1]) if p != "self"]
    if sig_params != ["kth", "sort", "rev"]:
        raise Unsupported(f"parameters {sig_params}")
    body_src = body_src.replace("unsafe", "")
    body_src = re.sub(r"\(\s*\*\s*(\w+)\s*\)", r"\1", body_src)      # `(*a)` -> `a` (comparator arguments are references)
    body_src = re.sub(r"\|\s*(\w+)\s*:\s*&\s*i32\s*,\s*(\w+)\s*:\s*&\s*i32\s*\|", r"|\1, \2|", body_src)
    blk = C.P(C.tokenize(body_src)).block()
    env = {"kth": "Nat", "sort": "Bool", "rev": "Bool"}
    run = Walker(item).block(blk[1], blk[2], env)
    ann = Walker(item, length_mode=True).block(blk[1], blk[2], env)
    ity = "Option Rat" if item == "Elem" else "Int"
    L = [f"namespace {name}",
         f"/-- `MapValidVec::{name}` ({REL}), in source order: the items the returned iterator yields; `none` = panic -/",
         f"def run (S : C12.Std) (xs : List (Option Rat)) (kth : Nat) (sort rev : Bool) : Option (List ({ity})) :=",
         ind(run),
         "/-- the length the returned `TrustedLen` iterator announces on the same path -/",
         f"def announced (S : C12.Std) (xs : List (Option Rat)) (kth : Nat) (sort rev : Bool) : Option Nat :=",
         ind(ann),
         "def parsed : Bool := true", f"end {name}"]
    return "\n".join(L)


def main():
    out = ["/- GENERATED by translator/parts.py from tea-map/src/vec_map.rs — do not edit. -/",
           "import Tv.GenPrelude", "import Tv.Model.C12", "set_option linter.unusedVariables false",
           "namespace Tv.GenPart", "open Tv Tv.Gen", ""]
    names = []
    for name, item in FNS:
        try:
            txt = translate(name, item)
        except Unsupported as ex:
            reason = str(ex).replace('"', "'")
            txt = (f"namespace {name}\n/- UNPARSED: {reason} -/\ndef parsed : Bool := false\n"
                   f"def reason : String := \"{reason}\"\nend {name}")
        except Exception as ex:
            reason = (type(ex).__name__ + ": " + str(ex)).replace('"', "'")
            txt = (f"namespace {name}\n/- UNPARSED: {reason} -/\ndef parsed : Bool := false\n"
                   f"def reason : String := \"{reason}\"\nend {name}")
        names.append(name)
        out.append(txt)
        out.append("")
    out.append("def functions : List String := [" + ", ".join(f'"{n}"' for n in names) + "]")
    out.append("\nend Tv.GenPart")
    new = "\n".join(out) + "\n"
    try:
        old = open(outp, encoding="utf-8").read()
    except FileNotFoundError:
        old = None
    if old != new:
        open(outp, "w", encoding="utf-8").write(new)
    print(f"parts.py: {len(names)} functions -> {outp}")


if __name__ == "__main__":
    main()
