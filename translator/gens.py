#!/usr/bin/env python3
"""Statement-level translator for the two generator constructors of tea-core/src/linspace.rs
(`linspace`, `range`):  Rust function body  ->  Lean 4 function  `Tv.GenLin.<fn>.run`, generic in
the element type `α` (the Rust `T: Number`), whose division, `ceil` and `as usize` come from the
model's `NumOps α` record (integers: truncating division, identity `ceil`, wrapping cast; floats on
exactly representable data: exact division and ceiling, saturating cast).

Uses the parser / emitter of closures.py.  `assert!(c, …)` yields `none` when `c` is false; the
result is the field tuple `(start, step, index, len)` of the `Linspace { … }` literal.
Anything outside the subset is emitted as `parsed := false` (fail closed).
"""
import re, sys, os, importlib.util

here = os.path.dirname(os.path.abspath(__file__))
spec = importlib.util.spec_from_file_location("closures", os.path.join(here, "closures.py"))
_argv = sys.argv
sys.argv = [_argv[0]]
C = importlib.util.module_from_spec(spec)
spec.loader.exec_module(C)
sys.argv = _argv
Unsupported = C.Unsupported

repo = sys.argv[1] if len(sys.argv) > 1 else "/repo"
outp = sys.argv[2] if len(sys.argv) > 2 else "GenLin.lean"
REL = "tea-core/src/linspace.rs"
FNS = [("linspace", {"a": "T", "b": "T", "n": "Nat"}), ("range", {"a": "T", "b": "T", "step": "T"})]


class LinEmit(C.Emit):
    def ex0(self, e, env, expect=None):
        k = e[0]
        if k == "call":
            if re.fullmatch(r"(\w+::)*zero", e[1]) and not e[2]:
                return "(0 : α)", "T"
            if re.fullmatch(r"(\w+::)*one", e[1]) and not e[2]:
                return "(1 : α)", "T"
        if k == "num" and expect == "Nat":
            return e[1], "Nat"
        if k == "bin":
            op = e[1]
            a, ta = self.ex0(e[2], env)
            b, tb = self.ex0(e[3], env)
            if ta == tb == "T":
                if op in ("+", "-", "*"):
                    return f"({a} {op} {b})", "T"
                if op == "/":
                    return f"(ops.div {a} {b})", "T"
                if op in ("<", ">"):
                    return f"decide ({a} {op} {b})", "Bool"
                if op in (">=", "<="):
                    # on a total order (integers; floats that are not NaN): `a >= b` is `!(a < b)`
                    return f"(!decide ({a} {'<' if op == '>=' else '>'} {b}))", "Bool"
                if op in ("==", "!="):
                    return f"decide ({a} {'=' if op == '==' else '≠'} {b})", "Bool"
                raise Unsupported(f"operator {op} on the element type")
        if k == "mcall":
            r, tr = self.ex0(e[1], env)
            if tr == "T" and e[2] == "ceil" and not e[3]:
                return f"(ops.ceil {r})", "T"
            if tr == "T" and e[2] == "cast" and not e[3]:
                return f"(ops.toUsize {r})", "Nat"
            if tr == "Nat" and e[2] == "cast" and not e[3]:
                return f"(({r} : Nat) : α)", "T"
        if k == "struct" and e[1] == "Linspace":
            f = dict(e[2])
            if set(f) != {"start", "step", "index", "len"}:
                raise Unsupported("Linspace fields")
            parts = []
            for name, want in (("start", "T"), ("step", "T"), ("index", "Nat"), ("len", "Nat")):
                t, ty = self.ex0(f[name], env, "Nat" if want == "Nat" else None)
                if ty != want:
                    raise Unsupported(f"field {name} of type {ty}")
                parts.append(t)
            return "(" + ", ".join(parts) + ")", "Lin"
        return super().ex0(e, env, expect)

    def stmts(self, ss, tail, env, outs, expect=None):
        # compound assignment on the element type
        for s in ss:
            if s[0] == "assign" and s[2][0] == "path" and env.get(s[2][1]) == "T" and s[1] in ("+=", "-="):
                pass
        return super().stmts(ss, tail, env, outs, expect)


def fn_src(src, name):
    m = re.search(r"\bpub fn " + name + r"\s*<", src)
    if not m:
        raise Unsupported("function not found")
    i = m.end()
    depth = 0
    while True:
        c = src[i]
        if c == "(":
            depth += 1
        elif c == ")":
            depth -= 1
        elif c == "{" and depth == 0:
            break
        i += 1
    d, j = 0, i
    while j < len(src):
        if src[j] == "{":
            d += 1
        elif src[j] == "}":
            d -= 1
            if d == 0:
                break
        j += 1
    return src[m.start(): i], src[i: j + 1]


def translate(name, params):
    src = open(os.path.join(repo, REL), encoding="utf-8", errors="replace").read()
    src = re.sub(r"//[^\n]*", "", src)
    src = re.sub(r'"(?:[^"\\]|\\.)*"', "0", src)
    src = re.sub(r"\bassert!\s*\(", "assert__(", src)
    sig, body_src = fn_src(src, name)
    sig_params = re.findall(r"\b(\w+)\s*:(?!:)", sig.split("->")[0].split("(", 1)[1])
    if sig_params != list(params):
        raise Unsupported(f"parameters {sig_params}")
    blk = C.P(C.tokenize(body_src)).block()
    em = LinEmit()
    env = dict(params)
    lines = []
    stmts = list(blk[1])
    # leading `let zero = …;` / `assert!(…)`, then the rest as one block value
    rest_start = 0
    for idx, st in enumerate(stmts):
        if st[0] == "expr" and st[1][0] == "call" and st[1][1] == "assert__":
            pre_txt, pre_ty = em.stmts(stmts[rest_start:idx], None, env, [], None)
            lines += pre_txt.split("\n")[:-1]
            c, tc = em.ex0(st[1][2][0], env)
            if tc != "Bool":
                raise Unsupported("assert condition")
            lines.append(f"if !({c}) then none else")
            rest_start = idx + 1
    txt, ty = em.stmts(stmts[rest_start:], blk[2], env, [], None)
    if ty != "Lin":
        raise Unsupported(f"result type {ty}")
    body_lines = txt.split("\n")
    lines += body_lines[:-1] + ["some " + body_lines[-1]]
    L = [f"namespace {name}"]
    ps = "".join(f" ({C.lname(p)} : {'α' if t == 'T' else 'Nat'})" for p, t in params.items())
    L.append(f"/-- `{name}` ({REL}), in source order: the fields `(start, step, index, len)` of the returned `Linspace`;")
    L.append("`none` = an `assert!` fails -/")
    L.append(f"def run (ops : C19.NumOps α){ps} : Option (α × α × Nat × Nat) :=")
    L.append(C.indent("\n".join(lines), 2))
    L.append("def parsed : Bool := true")
    L.append(f"end {name}")
    return "\n".join(L)


def main():
    out = ["/- GENERATED by translator/gens.py from tea-core/src/linspace.rs — do not edit. -/",
           "import Tv.Model.C19Gen", "set_option linter.unusedVariables false", "namespace Tv.GenLin",
           "open Tv", "",
           "variable {α : Type} [Add α] [Sub α] [Mul α] [NatCast α] [OfNat α 0] [OfNat α 1]",
           "  [LT α] [DecidableLT α] [DecidableEq α]", ""]
    names = []
    for name, params in FNS:
        try:
            txt = translate(name, params)
        except Unsupported as ex:
            reason = str(ex).replace('"', "'")
            txt = (f"namespace {name}\n/- UNPARSED: {reason} -/\ndef parsed : Bool := false\n"
                   f"def reason : String := \"{reason}\"\nend {name}")
        except Exception as ex:
            reason = (type(ex).__name__ + ": " + str(ex)).replace('"', "'")
            txt = (f"namespace {name}\n/- UNPARSED: {reason} -/\ndef parsed : Bool := false\n"
                   f"def reason : String := \"{reason}\"\nend {name}")
        names.append(name)
        out.append(txt)
        out.append("")
    out.append("def functions : List String := [" + ", ".join(f'"{n}"' for n in names) + "]")
    out.append("\nend Tv.GenLin")
    new = "\n".join(out) + "\n"
    try:
        old = open(outp, encoding="utf-8").read()
    except FileNotFoundError:
        old = None
    if old != new:
        open(outp, "w", encoding="utf-8").write(new)
    print(f"gens.py: {len(names)} functions -> {outp}")


if __name__ == "__main__":
    main()
