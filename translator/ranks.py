#!/usr/bin/env python3
"""Statement-level translator for `vrank` (tea-map/src/vec_map.rs, trait `MapValidVec`):
Rust function body  ->  Lean 4 function `Tv.GenRank.vrank.run`.

`vrank` is imperative: an argsort, then a run-length loop with `break` that writes average ranks
into an uninitialised output buffer through `uset`, two finishing loops, two copies of all that
(`pct` or not).  It is translated on top of the continuation-passing emitter of quant.py:

* straight-line code, early `return`s and statement `if`s are in continuation-passing style; a
  statement `if` that assigns variables binds the rest of its block as `k__N` over the tuple of the
  variables it assigns (single-assignment form: every assignment is a shadowing `let`);
* `for i in a..b { … }` is `Gen.forBreak (List.range' a (b - a)) body state` over the tuple of the
  variables the body assigns (declared before the loop); `break` — last statement of a branch of the
  `if` chain that ends the body — stops the fold with the state reached;
* the output buffer is `List (Option (Option Rat))`: `O::uninit(len)` is `len` unwritten slots
  (`none`), `out.uset(i, v)` is `out.set i (some v)`, `assume_init()` hands the list out as it is (a
  slot never written stays visible as `none`); `O::full(len, v)`, `O::empty()` are lists;
* `idx_sorted.sort_unstable_by(|a, b| { let (va, vb) = (self.uget(*a), self.uget(*b)); va.sort_cmp(&vb) })`
  is `S.sort (C12.leIdx false xs) idx_sorted` (abstract contract `S : C12.Std`), `sort_cmp_rev` ↦ `true`;
* `self.uget(i)` is `xs.getD i none`, `idx_sorted.uget(i)` is `idx_sorted.getD i 0` (an out-of-range
  unchecked access is not modelled here — that is property C10);
* a `usize` subtraction in straight-line code (`len - 1`, `len - repeat_num`) is guarded (`none` =
  panic); inside loop bodies (`i - j`) it is read as truncating and counted in `unguarded`.

The result is `Option (List (Option (Option Rat)))`: `none` = panic, an element `some none` = null rank.
Anything outside the subset is emitted as `parsed := false` (fail closed).
"""
import re, sys, os, importlib.util

here = os.path.dirname(os.path.abspath(__file__))
_argv = sys.argv
sys.argv = [_argv[0], "/nonexistent", "/dev/null"]
spec = importlib.util.spec_from_file_location("quant", os.path.join(here, "quant.py"))
Q = importlib.util.module_from_spec(spec)
spec.loader.exec_module(Q)
sys.argv = _argv
M = Q.M
C = Q.C
Unsupported = C.Unsupported
lname = C.lname
indent = C.indent

LEAN_TY = {"Nat": "Nat", "Bool": "Bool", "Elem": "Option Rat", "F": "Option Rat", "ListNat": "List Nat",
           "OutL": "List (Option (Option Rat))", "Rat": "Rat", "Unit": "Unit", "Log": "List (Nat × Nat)"}


_q_ty_lean = Q.ty_lean


def ty_lean(t):
    if isinstance(t, tuple) and t[0] == "tuple":
        return " × ".join(ty_lean(x) for x in t[1])
    if isinstance(t, str) and t in LEAN_TY:
        return LEAN_TY[t]
    return _q_ty_lean(t)


Q.ty_lean = ty_lean     # the continuation lambdas of the base class print their parameter types with it


def comparator(cl):
    """`|a, b| { let (va, vb) = (self.uget(a), self.uget(b)); va.sort_cmp(&vb) }` -> false / true (rev)"""
    if len(cl[1]) != 2 or any(p[0] != "pvar" for p in cl[1]) or cl[2][0] != "block":
        return None
    a, b = cl[1][0][1], cl[1][1][1]
    ss, tail = cl[2][1], cl[2][2]
    if len(ss) != 1 or ss[0][0] != "let" or ss[0][1][0] != "ptuple" or len(ss[0][1][1]) != 2:
        return None
    va, vb = ss[0][1][1][0][1], ss[0][1][1][1][1]
    rhs = ss[0][3]
    while rhs[0] == "block" and not rhs[1]:
        rhs = rhs[2]
    want = ("tuple", [("mcall", ("path", "self"), "uget", [("path", a)]), ("mcall", ("path", "self"), "uget", [("path", b)])])
    if rhs != want:
        return None
    for name, rev in (("sort_cmp", "false"), ("sort_cmp_rev", "true")):
        if tail in (("mcall", ("path", va), name, [("ref", ("path", vb))]), ("mcall", ("path", va), name, [("path", vb)])):
            return rev
    return None


TRACE = [False]


def has_access(node):
    if isinstance(node, tuple):
        if len(node) == 4 and node[0] == "mcall" and node[2] in ("uget", "uset"):
            return True
        return any(has_access(x) for x in node)
    if isinstance(node, list):
        return any(has_access(x) for x in node)
    return False


def assigned(node, acc):
    if TRACE[0] and "log__" not in acc and has_access(node):
        acc.append("log__")
    return assigned0(node, acc)


def assigned0(node, acc):
    """variables assigned (plain, compound, tuple), sorted in place or written through `uset` inside
    `node`, in first-occurrence order; closures are not entered"""
    if isinstance(node, tuple):
        if node and node[0] == "closure":
            return
        if node and node[0] == "assign":
            tgt = node[2]
            for t in (tgt[1] if tgt[0] == "tuple" else [tgt]):
                if t[0] == "path" and t[1] not in acc:
                    acc.append(t[1])
        if len(node) == 4 and node[0] == "mcall" and node[2] in ("uset", "sort_unstable_by") and node[1][0] == "path":
            if node[1][1] not in acc:
                acc.append(node[1][1])
        for x in node:
            assigned0(x, acc)
    elif isinstance(node, list):
        for x in node:
            assigned0(x, acc)


class RankCps(Q.Cps):
    PANIC = "none"

    def __init__(self, trace=False):
        super().__init__()
        self.unguarded = 0
        self.loops = 0
        self.sorts = 0
        self.in_loop = 0
        self.trace = trace          # instrumented variant: log every unchecked access as (index, length)
        self.accesses = 0
        if trace:
            self.PANIC = "log__"

    def logw(self, i, n):
        """wrapper that records one unchecked access before the statement it occurs in"""
        self.accesses += 1

        def w(body, i=i, n=n):
            return f"let log__ := log__ ++ [({i}, {n})]\n{body}"
        w.is_let = True
        return w

    # ---- expressions
    def ex(self, e, env):
        k = e[0]
        if k == "block" and not e[1] and e[2] is not None:       # `unsafe { e }`
            return self.ex(e[2], env)
        if k == "path" and e[1] in ("true", "false") and e[1] not in env:
            return e[1], "Bool", []
        if k == "call" and e[1] == "OT::none" and not e[2]:
            return "(none : Option Rat)", "F", []
        if k == "call" and e[1] == "O::uninit" and len(e[2]) == 1:
            n, tn, w = self.ex(e[2][0], env)
            if tn != "Nat":
                raise Unsupported("uninit length")
            return f"(List.replicate {n} (none : Option (Option Rat)))", "OutL", w
        if k == "cast" and e[2] == "f64":
            t, ty, w = self.ex(e[1], env)
            if ty != "Nat":
                raise Unsupported("as f64 of a non-integer")
            return f"(({t} : Nat) : Rat)", "Rat", w
        if k == "if" and e[3] is not None and e[2][0] == "block" and not e[2][1] and e[3][0] == "block" and not e[3][1]:
            c, tc, wc = self.ex(e[1], env)
            a, ta, wa = self.ex(e[2][2], env)
            b, tb, wb = self.ex(e[3][2], env)
            if tc != "Bool" or wa or wb:
                raise Unsupported("conditional expression")
            if ta == "Rat" and tb == "F":
                a, ta = f"(some {a})", "F"
            if tb == "Rat" and ta == "F":
                b, tb = f"(some {b})", "F"
            if ta != tb:
                raise Unsupported("branches of a conditional expression")
            return f"(if {c} then {a} else {b})", ta, wc
        if k == "bin" and e[1] == "-":
            a, ta, wa = self.ex(e[2], env)
            b, tb, wb = self.ex(e[3], env)
            if ta == tb == "Nat" and self.in_loop:
                self.unguarded += 1
                if self.trace:
                    return f"(wsub {a} {b})", "Nat", wa + wb      # the release-build (wrapping) reading
                return f"({a} - {b})", "Nat", wa + wb
        if k == "bin" and e[1] == "==":
            a, ta, wa = self.ex(e[2], env)
            b, tb, wb = self.ex(e[3], env)
            if ta == tb == "Elem":
                return f"decide ({a} = {b})", "Bool", wa + wb
        if k == "bin" and e[1] == ".." :
            raise Unsupported("range outside a for loop")
        if k == "mcall":
            recv, name, args = e[1], e[2], e[3]
            if recv == ("path", "self") and name == "len" and not args:
                return "xs.length", "Nat", []
            if recv == ("path", "self") and name == "uget" and len(args) == 1:
                i, ti, w = self.ex(args[0], env)
                if ti != "Nat":
                    raise Unsupported("index")
                if self.trace:
                    w = w + [self.logw(i, "xs.length")]
                return f"(xs.getD {i} none)", "Elem", w
            if (recv[0] == "paren" and recv[1][0] == "bin" and recv[1][1] == ".." and name == "collect_trusted_to_vec"
                    and recv[1][2] == ("num", "0")):
                n, tn, w = self.ex(recv[1][3], env)
                if tn != "Nat":
                    raise Unsupported("range bound")
                return f"(List.range {n})", "ListNat", w
            if recv == ("path", "f64::NAN") and name == "cast" and not args:
                return "(none : Option Rat)", "F", []
            if name not in ("uget", "is_none", "cast", "assume_init") or recv == ("path", "self"):
                return super().ex(e, env)
            r, tr, w = self.ex(recv, env)
            if tr == "ListNat" and name == "uget" and len(args) == 1:
                i, ti, wi = self.ex(args[0], env)
                if ti != "Nat":
                    raise Unsupported("index")
                if self.trace:
                    wi = wi + [self.logw(i, f"{r}.length")]
                return f"({r}.getD {i} 0)", "Nat", w + wi
            if tr == "Elem" and name == "is_none" and not args:
                return f"{r}.isNone", "Bool", w
            if tr == "Rat" and name == "cast" and not args:
                return f"(some {r})", "F", w
            if tr == "OutL" and name == "assume_init" and not args:
                return r, "OutL", w
        return super().ex(e, env)

    def pure(self, e, env):
        t, ty, w = self.ex(e, env)
        if w:
            raise Unsupported("guarded expression inside a loop body")
        return t, ty

    @staticmethod
    def only_lets(ws):
        return all(getattr(w, "is_let", False) for w in ws)

    # ---- results
    def result(self, e, env):
        if self.trace:
            ws = []
            if e[0] == "call":
                for a in e[2]:
                    ws += self.ex(a, env)[2]
            else:
                ws = self.ex(e, env)[2]
            return self.wrap(ws, "log__")
        if e[0] == "call" and e[1] == "O::empty" and not e[2]:
            return "some []"
        if e[0] == "call" and e[1] == "O::full" and len(e[2]) == 2:
            n, tn, wn = self.ex(e[2][0], env)
            v, tv, wv = self.ex(e[2][1], env)
            if tn != "Nat" or tv != "F":
                raise Unsupported("O::full arguments")
            return self.wrap(wn + wv, f"some (List.replicate {n} (some {v}))")
        t, ty, w = self.ex(e, env)
        if ty != "OutL":
            raise Unsupported(f"returned value of type {ty}")
        return self.wrap(w, f"some {t}")

    # ---- assignments and effects shared by both modes: -> (lines, env) or None
    def effect(self, st, env):
        if st[0] == "let" and st[3] is not None and not self.is_branching(st[3]):
            t, ty, w = self.ex(st[3], env)
            ptxt, env2 = self.bind_pat(st[1], ty, env)
            return [f"let {ptxt} := {t}"], env2, w
        if st[0] == "let" and st[3] is None and st[1][0] == "pvar":
            env2 = dict(env)
            env2[st[1][1]] = "Uninit"
            return [], env2, []
        if st[0] == "assign":
            tgt, rhs = st[2], st[3]
            if tgt[0] == "tuple" and rhs[0] == "tuple" and len(tgt[1]) == len(rhs[1]) and all(x[0] == "path" for x in tgt[1]):
                parts = [self.ex(x, env) for x in rhs[1]]
                env2 = dict(env)
                for x, p in zip(tgt[1], parts):
                    if x[1] not in env or env[x[1]] not in ("Uninit", p[1]):
                        raise Unsupported("tuple assignment")
                    env2[x[1]] = p[1]
                names = ", ".join(lname(x[1]) for x in tgt[1])
                vals = ", ".join(p[0] for p in parts)
                return [f"let ({names}) := ({vals})"], env2, [w for p in parts for w in p[2]]
            if tgt[0] != "path" or tgt[1] not in env:
                raise Unsupported("assignment target")
            x = tgt[1]
            full = rhs if st[1] == "=" else ("bin", st[1][0], tgt, rhs)
            t, ty, w = self.ex(full, env)
            if env[x] not in ("Uninit", ty):
                raise Unsupported(f"assignment changes the type of {x}")
            env2 = dict(env)
            env2[x] = ty
            return [f"let {lname(x)} := {t}"], env2, w
        if st[0] == "expr" and st[1][0] == "mcall" and st[1][2] == "uset" and st[1][1][0] == "path" and env.get(st[1][1][1]) == "OutL":
            o = st[1][1][1]
            i, ti, wi = self.ex(st[1][3][0], env)
            v, tv, wv = self.ex(st[1][3][1], env)
            if ti != "Nat" or tv != "F":
                raise Unsupported("uset arguments")
            ws = wi + wv
            if self.trace:
                ws = ws + [self.logw(i, f"{lname(o)}.length")]
            return [f"let {lname(o)} := {lname(o)}.set {i} (some {v})"], env, ws
        if (st[0] == "expr" and st[1][0] == "mcall" and st[1][2] == "unwrap" and st[1][1][0] == "mcall"
                and st[1][1][2] == "sort_unstable_by" and st[1][1][1][0] == "path" and env.get(st[1][1][1][1]) == "ListNat"
                and len(st[1][1][3]) == 1 and st[1][1][3][0][0] == "closure"):
            rev = comparator(st[1][1][3][0])
            if rev is None:
                raise Unsupported("comparator closure")
            v = st[1][1][1][1]
            self.sorts += 1
            return [f"let {lname(v)} := S.sort (C12.leIdx {rev} xs) {lname(v)}"], env, []
        if st[0] == "expr" and st[1][0] == "for":
            return self.for_loop(st[1], env)
        return None

    # ---- loops (pure, direct style)
    def for_loop(self, f, env):
        pat, rng, body = f[1], f[2], f[3]
        if pat[0] != "pvar" or rng[0] != "bin" or rng[1] != "..":
            raise Unsupported("for loop header")
        was = self.in_loop
        self.in_loop = 0 if not was else was       # the header is evaluated outside the body
        a, ta, wa = self.ex(rng[2], env)
        b, tb, wb = self.ex(rng[3], env)
        if ta != "Nat" or tb != "Nat":
            raise Unsupported("range bounds")
        acc = []
        assigned(body, acc)
        state = [x for x in env if x in acc and env[x] != "Uninit"]
        uninit = [x for x in acc if env.get(x) == "Uninit"]
        for x in acc:
            if x not in env:
                raise Unsupported(f"loop assigns the undeclared {x}")
        if not state:
            raise Unsupported("loop without state")
        st_ty = {x: env[x] for x in state}
        ptxt = C.tuple_txt([lname(x) for x in state])
        self.in_loop += 1
        env_b = dict(env)
        env_b[pat[1]] = "Nat"
        btxt = self.body(body[1], body[2], env_b, state, st_ty)
        self.in_loop -= 1
        self.in_loop = was
        self.loops += 1
        ity = " × ".join(LEAN_TY[st_ty[x]] if " " not in LEAN_TY[st_ty[x]] else "(" + LEAN_TY[st_ty[x]] + ")" for x in state)
        line = (f"let {ptxt} := forBreak (List.range' {a} ({b} - {a}))\n"
                f"    (fun (({ptxt}) : {ity}) {lname(pat[1])} =>\n{indent(btxt, 6)})\n    {ptxt}")
        env2 = dict(env)
        return [line], env2, wa + wb

    def uset_targets(self, node, acc):
        if isinstance(node, tuple):
            if len(node) == 4 and node[0] == "mcall" and node[2] == "uset" and node[1][0] == "path":
                if node[1][1] not in acc:
                    acc.append(node[1][1])
            for x in node:
                self.uset_targets(x, acc)
        elif isinstance(node, list):
            for x in node:
                self.uset_targets(x, acc)

    def body(self, stmts, tail, env, state, st_ty):
        ptxt = C.tuple_txt([lname(x) for x in state])
        stmts = list(stmts)
        if tail is not None:
            stmts.append(("expr", tail))
        if not stmts:
            for x in state:
                if env[x] != st_ty[x]:
                    raise Unsupported(f"loop changes the type of {x}")
            return f"({ptxt}, false)"
        st, rest = stmts[0], stmts[1:]
        if st == ("expr", ("path", "break")):
            if rest:
                raise Unsupported("statements after break")
            return f"({ptxt}, true)"
        if st[0] == "expr" and st[1][0] == "block":
            return self.body(st[1][1] + rest, st[1][2] if not rest else None, env, state, st_ty) if not rest else \
                self.body(st[1][1] + ([("expr", st[1][2])] if st[1][2] is not None else []) + rest, None, env, state, st_ty)
        if st[0] == "expr" and st[1][0] == "if":
            if rest:
                raise Unsupported("statements after an if inside a loop body")
            return self.body_if(st[1], env, state, st_ty)
        r = self.effect(st, env)
        if r is None:
            raise Unsupported(f"statement {st[0]} inside a loop body")
        lines, env2, w = r
        if not self.only_lets(w):
            raise Unsupported("guarded expression inside a loop body")
        return self.wrap(w, "\n".join(lines + [self.body(rest, None, env2, state, st_ty)]))

    def body_if(self, e, env, state, st_ty):
        c, tc, wc = self.ex(e[1], env)
        if tc != "Bool" or not self.only_lets(wc):
            raise Unsupported("condition")
        tt = self.body(e[2][1], e[2][2], env, state, st_ty)
        if e[3] is None:
            ee = self.body([], None, env, state, st_ty)
        elif e[3][0] == "if":
            ee = self.body_if(e[3], env, state, st_ty)
        else:
            ee = self.body(e[3][1], e[3][2], env, state, st_ty)
        return self.wrap(wc, f"if {c} then\n{indent(tt)}\nelse\n{indent(ee)}")

    def with_k(self, make_branches, pat, env, rest, tail, k):
        """instrumented variant: the log is passed to the continuation explicitly (a `let log__` wrapped
        around the branching statement is not visible inside a `k__N` defined before it)"""
        if not self.trace:
            return super().with_k(make_branches, pat, env, rest, tail, k)
        self.nk += 1
        name = f"k__{self.nk}"
        seen = []

        def kk(v, ty, env_b):
            seen.append(ty)
            return f"{name} (log__, {v})"
        btxt = make_branches(kk)
        if not seen:
            return btxt
        if any(t != seen[0] for t in seen):
            raise Unsupported(f"branches of different types {seen}")
        ty = seen[0]
        ptxt, env2 = self.bind_pat(pat, ty, env)
        rtxt = self.seq(rest, tail, env2, k)
        return f"let {name} := fun ((log__, {ptxt}) : (List (Nat × Nat)) × ({ty_lean(ty)})) =>\n{indent(rtxt)}\n{btxt}"

    # ---- top level: continuation-passing, with assignments
    def seq(self, stmts, tail, env, k):
        if stmts:
            st, rest = stmts[0], stmts[1:]
            if st[0] == "expr" and st[1][0] == "block" and not self.all_return(st[1]):
                # `unsafe { … }` statement block: spliced
                inner = st[1][1] + ([("expr", st[1][2])] if st[1][2] is not None else [])
                return self.seq(inner + rest, tail, env, k)
            if st[0] == "expr" and st[1][0] == "if" and not self.returns_somewhere(st[1]):
                return self.assign_if(st[1], rest, tail, env, k)
            r = self.effect(st, env)
            if r is not None:
                lines, env2, w = r
                return self.wrap(w, "\n".join(lines + [self.seq(rest, tail, env2, k)]))
        elif tail is not None and tail[0] == "block":
            return self.seq(tail[1], tail[2], env, k)
        elif tail is not None and tail[0] == "if" and not self.returns_somewhere(tail):
            return self.assign_if(tail, [], None, env, k)
        return super().seq(stmts, tail, env, k)

    def returns_somewhere(self, node):
        if isinstance(node, tuple):
            if node and node[0] == "return":
                return True
            return any(self.returns_somewhere(x) for x in node)
        if isinstance(node, list):
            return any(self.returns_somewhere(x) for x in node)
        return False

    def all_return(self, blk):
        return False

    def assign_if(self, e, rest, tail, env, k):
        """statement `if` without `return`s: the rest of the block continues with the assigned variables"""
        acc = []
        assigned(e, acc)
        vars_ = [x for x in env if x in acc and env[x] != "Uninit"]
        if not vars_:
            raise Unsupported("if statement without effect")
        self.nk += 1
        name = f"k__{self.nk}"
        tys = {}

        def end(env_b):
            for x in vars_:
                tys.setdefault(x, env_b[x])
                if tys[x] != env_b[x]:
                    raise Unsupported(f"branches give {x} different types")
            return f"{name} " + C.tuple_txt([lname(x) for x in vars_]) if len(vars_) == 1 else \
                f"{name} (" + ", ".join(lname(x) for x in vars_) + ")"

        def branch(b, env_b):
            if b is None:
                return end(env_b)
            if b[0] == "if":
                c, tc, wc = self.ex(b[1], env_b)
                if tc != "Bool":
                    raise Unsupported("condition")
                return self.wrap(wc, f"if {c} then\n{indent(branch(b[2], env_b))}\nelse\n{indent(branch(b[3], env_b))}")
            ss = list(b[1]) + ([("expr", b[2])] if b[2] is not None else [])
            return self.stmts_then(ss, env_b, end)
        btxt = branch(e, env)
        env2 = dict(env)
        for x in vars_:
            env2[x] = tys[x]
        ptxt = ", ".join(lname(x) for x in vars_)
        ity = " × ".join(LEAN_TY[tys[x]] if " " not in LEAN_TY[tys[x]] else "(" + LEAN_TY[tys[x]] + ")" for x in vars_)
        rtxt = self.seq(rest, tail, env2, k)
        return f"let {name} := fun (({ptxt}) : {ity}) =>\n{indent(rtxt)}\n{btxt}"

    def stmts_then(self, ss, env, end):
        if not ss:
            return end(env)
        st, rest = ss[0], ss[1:]
        if st[0] == "expr" and st[1][0] == "block":
            inner = st[1][1] + ([("expr", st[1][2])] if st[1][2] is not None else [])
            return self.stmts_then(inner + rest, env, end)
        if st[0] == "expr" and st[1][0] == "if":
            if rest:
                raise Unsupported("statements after a nested if")
            c, tc, wc = self.ex(st[1][1], env)

            def br(b):
                if b is None:
                    return end(env)
                if b[0] == "if":
                    return self.stmts_then([("expr", b)], env, end)
                return self.stmts_then(list(b[1]) + ([("expr", b[2])] if b[2] is not None else []), env, end)
            return self.wrap(wc, f"if {c} then\n{indent(br(st[1][2]))}\nelse\n{indent(br(st[1][3]))}")
        r = self.effect(st, env)
        if r is None:
            raise Unsupported(f"statement {st[0]} in a branch")
        lines, env2, w = r
        return self.wrap(w, "\n".join(lines + [self.stmts_then(rest, env2, end)]))


def translate(sig, body_src):
    body_src, nd = re.subn(r"self\.uget\(\s*\*\s*(\w+)\s*\)", r"self.uget(\1)", body_src)
    blk = C.P(C.tokenize(body_src)).block()
    if not re.search(r"pct\s*:\s*bool", sig) or not re.search(r"rev\s*:\s*bool", sig) or not re.search(r"->\s*O\b", sig):
        raise Unsupported("signature of vrank")
    em = RankCps()

    def final(v, ty, env):
        if ty == "OutL":
            return f"some {v}"
        raise Unsupported(f"function value of type {ty}")
    txt = em.seq(blk[1], blk[2], {"pct": "Bool", "rev": "Bool"}, final)
    # the instrumented variant: the same statements, every unchecked access logged as (index, length)
    TRACE[0] = True
    try:
        tr = RankCps(trace=True)
        ttxt = tr.seq(blk[1], blk[2], {"log__": "Log", "pct": "Bool", "rev": "Bool"}, lambda v, ty, env: "log__")
    finally:
        TRACE[0] = False
    L = ["namespace vrank",
         "/-- `vrank` of tea-map/src/vec_map.rs, in source order; `none` = panic, a slot `none` = never written,",
         "`some none` = null rank -/",
         "def run (S : C12.Std) (xs : List (Option Rat)) (pct : Bool) (rev : Bool) : Option (List (Option (Option Rat))) :=",
         indent(txt, 2),
         f"def loops : Nat := {em.loops}",
         f"def sorts : Nat := {em.sorts}",
         f"/-- `usize` subtractions inside loop bodies, read as truncating -/\ndef unguarded : Nat := {em.unguarded}",
         "/-- the same statements with every unchecked access (`self.uget`, `idx_sorted.uget`, `out.uset`) logged as",
         "`(index, length of the container)` in execution order; `usize` subtraction inside loops wraps (`wsub`) -/",
         "def trace (S : C12.Std) (xs : List (Option Rat)) (pct : Bool) (rev : Bool) : List (Nat × Nat) :=",
         "  let log__ : List (Nat × Nat) := []",
         indent(ttxt, 2),
         f"def accessSites : Nat := {tr.accesses}",
         "def parsed : Bool := true",
         "end vrank"]
    return "\n".join(L)


def main():
    repo = sys.argv[1] if len(sys.argv) > 1 else "/repo"
    outp = sys.argv[2] if len(sys.argv) > 2 else "GenRank.lean"
    out = ["/- GENERATED by translator/ranks.py from tea-map/src/vec_map.rs — do not edit. -/",
           "import Tv.GenPrelude", "import Tv.GenAgg", "import Tv.Model.C12",
           "set_option linter.unusedVariables false", "namespace Tv.GenRank", "open Tv.Gen", ""]
    try:
        src = open(os.path.join(repo, "tea-map/src/vec_map.rs"), encoding="utf-8", errors="replace").read()
        src = re.sub(r"//[^\n]*", "", src.split("#[cfg(test)]")[0])
        sig, body = M.fn_src(src, "MapValidVec", "vrank")
        out.append(translate(sig, body))
    except Exception as ex:
        reason = (("" if isinstance(ex, Unsupported) else type(ex).__name__ + ": ") + str(ex)).replace('"', "'")
        out.append(f"namespace vrank\n/- UNPARSED: {reason} -/\ndef parsed : Bool := false\n"
                   f"def reason : String := \"{reason}\"\nend vrank")
    out.append("\nend Tv.GenRank")
    new = "\n".join(out) + "\n"
    try:
        old = open(outp, encoding="utf-8").read()
    except FileNotFoundError:
        old = None
    if old != new:
        open(outp, "w", encoding="utf-8").write(new)
    print(f"ranks.py: vrank -> {outp}")


if __name__ == "__main__":
    main()
