#!/usr/bin/env python3
"""Statement-level translator: Rust rolling closures  ->  Lean 4 step functions.

For every `ts_*` entry point of tea-rolling/src/{features,binary,reg,norm}.rs whose body is

    let min_periods = ...;  let mut <state> = <init>; ...  [let <const> = ...;]
    self.rolling_apply(window, |v_rm, v| { <body> }, out)          (or rolling2_apply)

the whole function body is parsed (a small recursive-descent parser for the Rust subset these
closures use) and re-emitted as

    namespace <fn>
      structure St                       -- the captured `let mut` variables
      def init : St
      def minPeriods (window) (min_periods : Option Nat) : Nat
      def step (sqrt) (window min_periods) (s : St) (rm) (v) : St × <result>
    end <fn>

`step` is the closure body in source order: assignments become shadowing `let`s, an `if`/`if let`
statement returns the tuple of the variables it assigns, `x.not_none()` tests become `match`es,
`f64::NAN` becomes `none` (results are `Option Rat`), `.sqrt()` is the parameter `sqrt`,
`usize` arithmetic is `Nat`, `f64` arithmetic is exact `Rat`.  Nothing is normalised: the
theorems of lean/Tv/Thm/Gen*.lean relate the regenerated `step` to the hand-written model.

Anything outside the subset raises; the closure is then emitted as `def parsed : Bool := false`
with the reason, and the theorem `<fn>.parsed = true` fails (fail closed).
"""
import re, sys, os

repo = sys.argv[1] if len(sys.argv) > 1 else "/repo"
outp = sys.argv[2] if len(sys.argv) > 2 else "GenClosures.lean"

FILES = ["tea-rolling/src/features.rs", "tea-rolling/src/binary.rs", "tea-rolling/src/reg.rs",
         "tea-rolling/src/norm.rs", "tea-rolling/src/cmp.rs"]
DRIVERS = {"rolling_apply": 1, "rolling2_apply": 2}

LEAN_KW = {"end", "at", "from", "open", "in", "do", "then", "else", "if", "fun", "let", "have", "show",
           "with", "match", "def", "theorem", "by", "where", "structure", "instance", "class", "Type",
           "Prop", "Sort", "namespace", "section", "variable", "universe", "import", "mutual", "prefix",
           "infix", "notation", "macro", "syntax", "deriving", "extends", "for", "return", "calc", "using"}


class Unsupported(Exception):
    pass


# ------------------------------------------------------------------------------------------
# tokenizer
# ------------------------------------------------------------------------------------------
TOK = re.compile(r"""
    (?P<ws>\s+|//[^\n]*|/\*.*?\*/)
  | (?P<num>\d[\d_]*\.(?!\.)\d*(?:[eE][+-]?\d+)?(?:f64|f32)?|\d[\d_]*(?:[eE][+-]?\d+)?(?:usize|i32|i64|u64|f64|f32)?)
  | (?P<id>[A-Za-z_][A-Za-z0-9_]*)
  | (?P<op>\.\.=|\.\.|::|->|=>|<<=|>>=|\+=|-=|\*=|/=|%=|==|!=|<=|>=|&&|\|\||<<|>>|[-+*/%<>=!&|^.,;:()\[\]{}#?'])
""", re.X | re.S)


def tokenize(src):
    toks, i = [], 0
    while i < len(src):
        m = TOK.match(src, i)
        if not m:
            raise Unsupported(f"cannot tokenize at {src[i:i+20]!r}")
        i = m.end()
        if m.lastgroup == "ws":
            continue
        toks.append((m.lastgroup, m.group()))
    # `1.` followed by an identifier is a method call on an integer (`1.max(x)`): never used here
    return toks


# ------------------------------------------------------------------------------------------
# parser (expressions, statements, closures)
# ------------------------------------------------------------------------------------------
BINPREC = {"..=": 0.5, "..": 0.5, "||": 1, "&&": 2, "==": 3, "!=": 3, "<": 3, ">": 3, "<=": 3, ">=": 3, "|": 4, "^": 5, "&": 6,
           "<<": 7, ">>": 7, "+": 8, "-": 8, "*": 9, "/": 9, "%": 9}
ASSIGN = {"=", "+=", "-=", "*=", "/="}


class P:
    def __init__(self, toks):
        self.t, self.i = toks, 0
        self.ns = 0          # > 0 while parsing a condition / scrutinee (no struct literals there)

    def peek(self, k=0):
        return self.t[self.i + k] if self.i + k < len(self.t) else ("eof", "")

    def next(self):
        tok = self.peek()
        self.i += 1
        return tok

    def at(self, v):
        return self.peek()[1] == v

    def eat(self, v):
        if self.peek()[1] != v:
            raise Unsupported(f"expected {v!r}, found {self.peek()[1]!r}")
        return self.next()

    # ---- patterns
    def pat(self):
        k, v = self.peek()
        if v == "(":
            self.next()
            ps = []
            while not self.at(")"):
                ps.append(self.pat())
                if self.at(","):
                    self.next()
            self.eat(")")
            return ("ptuple", ps)
        if v == "mut":
            self.next()
            return self.pat()
        if v == "Some":
            self.next()
            self.eat("(")
            p = self.pat()
            self.eat(")")
            return ("psome", p)
        if v == "_":
            self.next()
            return ("pwild",)
        if k == "id":
            self.next()
            if self.at("::"):
                path = v
                while self.at("::"):
                    self.next()
                    path += "::" + self.next()[1]
                return ("ppath", path)
            return ("pvar", v)
        raise Unsupported(f"pattern {v!r}")

    # ---- blocks and statements
    def block(self):
        self.eat("{")
        stmts, tail = [], None
        while not self.at("}"):
            if self.at(";"):
                self.next()
                continue
            if self.at("use"):          # `use std::cmp::Ordering;`
                while not self.at(";"):
                    self.next()
                self.next()
                continue
            if self.at("let"):
                self.next()
                mut = False
                if self.at("mut"):
                    self.next()
                    mut = True
                p = self.pat()
                ann = ""
                if self.at(":"):          # type annotation: kept as text
                    self.next()
                    depth = 0
                    while not (depth == 0 and (self.at("=") or self.at(";"))):
                        t = self.next()[1]
                        if t == "<":
                            depth += 1
                        elif t == ">":
                            depth -= 1
                        elif t == ">>":
                            depth -= 2
                        ann += t
                if self.at(";"):          # `let x: T;` — initialised later
                    self.next()
                    stmts.append(("let", p, True, None, ann))
                    continue
                self.eat("=")
                e = self.expr()
                self.eat(";")
                stmts.append(("let", p, mut, e, ann))
                continue
            if self.at("while"):
                self.next()
                c = self.expr_nostruct()
                body = self.block()
                stmts.append(("expr", ("while", c, body)))
                continue
            if self.at("for"):
                self.next()
                p = self.pat()
                self.eat("in")
                it = self.expr()
                body = self.block()
                stmts.append(("expr", ("for", p, it, body)))
                continue
            e = self.expr()
            if self.peek()[1] in ASSIGN:
                op = self.next()[1]
                rhs = self.expr()
                if self.at(";"):
                    self.next()
                elif not self.at("}"):
                    raise Unsupported("assignment not followed by ; or }")
                stmts.append(("assign", op, e, rhs))
                continue
            if self.at(";"):
                self.next()
                stmts.append(("expr", e))
            elif self.at("}"):
                tail = e
            elif e[0] in ("if", "iflet", "block", "match", "matchg"):
                stmts.append(("expr", e))
            else:
                raise Unsupported(f"statement boundary at {self.peek()[1]!r}")
        self.eat("}")
        return ("block", stmts, tail)

    # ---- expressions
    def expr(self, minprec=0):
        lhs = self.unary()
        while True:
            k, v = self.peek()
            if v == "as":
                self.next()
                ty = self.next()[1]
                lhs = ("cast", lhs, ty)
                continue
            if v in BINPREC and BINPREC[v] > minprec:
                self.next()
                rhs = self.expr(BINPREC[v])
                lhs = ("bin", v, lhs, rhs)
                continue
            return lhs

    def unary(self):
        if self.at("-"):
            self.next()
            return ("neg", self.unary())
        if self.at("!"):
            self.next()
            return ("not", self.unary())
        if self.at("&"):
            self.next()
            if self.at("mut"):
                self.next()
            return ("ref", self.unary())
        return self.postfix()

    def args(self):
        self.eat("(")
        a = []
        while not self.at(")"):
            a.append(self.expr())
            if self.at(","):
                self.next()
        self.eat(")")
        return a

    def postfix(self):
        e = self.primary()
        while True:
            if self.at(".") and self.peek(1)[0] == "num" and self.peek(1)[1] in ("0", "1", "2"):
                self.next()
                e = ("field", e, self.next()[1])
                continue
            if self.at(".") and self.peek(1)[0] == "id":
                self.next()
                name = self.next()[1]
                if self.at("::") and self.peek(1)[1] == "<":      # turbofish: skipped
                    self.next()
                    self.skip_generics()
                if self.at("("):
                    e = ("mcall", e, name, self.args())
                else:
                    e = ("field", e, name)
                continue
            if self.at("(") and e[0] == "path":
                e = ("call", e[1], self.args())
                continue
            if self.at("?"):
                self.next()
                e = ("try", e)
                continue
            return e

    def skip_generics(self):
        self.eat("<")
        depth = 1
        while depth > 0:
            t = self.next()[1]
            if t == "<":
                depth += 1
            elif t == ">":
                depth -= 1
            elif t == ">>":
                depth -= 2
            elif t == "":
                raise Unsupported("unterminated generics")

    def primary(self):
        k, v = self.peek()
        if v == "return":
            self.next()
            if self.at(";") or self.at("}"):
                return ("return", None)
            return ("return", self.expr())
        if k == "num":
            self.next()
            return ("num", v)
        if v == "(":
            self.next()
            if self.at(")"):
                self.next()
                return ("tuple", [])
            e = self.expr()
            if self.at(","):
                es = [e]
                while self.at(","):
                    self.next()
                    if self.at(")"):
                        break
                    es.append(self.expr())
                self.eat(")")
                return ("tuple", es)
            self.eat(")")
            return ("paren", e)
        if v == "{":
            return self.block()
        if v == "unsafe":
            self.next()
            return self.block()
        if v == "if":
            self.next()
            if self.at("let"):
                self.next()
                p = self.pat()
                self.eat("=")
                scrut = self.expr_nostruct()
                th = self.block()
                el = None
                if self.at("else"):
                    self.next()
                    el = self.primary() if self.at("if") else self.block()
                return ("iflet", p, scrut, th, el)
            c = self.expr_nostruct()
            th = self.block()
            el = None
            if self.at("else"):
                self.next()
                el = self.primary() if self.at("if") else self.block()
            return ("if", c, th, el)
        if v == "match":
            self.next()
            scrut = self.expr_nostruct()
            self.eat("{")
            arms, garms, guarded = [], [], False
            while not self.at("}"):
                pats = [self.match_pat()]
                while self.at("|"):
                    self.next()
                    pats.append(self.match_pat())
                guard = None
                if self.at("if"):
                    self.next()
                    guard = self.expr()
                    guarded = True
                if any(isinstance(q, tuple) and q[0] == "tuplepat" for q in pats):
                    guarded = True
                self.eat("=>")
                body = self.block() if self.at("{") else ("block", [], self.expr())
                if self.at(","):
                    self.next()
                arms.append((pats, body))
                garms.append((pats, guard, body))
            self.eat("}")
            if guarded:
                return ("matchg", scrut, garms)
            return ("match", scrut, arms)
        if v in ("move", "|", "||"):
            if v == "move":
                self.next()
            params = []
            if self.at("||"):
                self.next()
            else:
                self.eat("|")
                while not self.at("|"):
                    params.append(self.pat())
                    if self.at(":"):          # `|v: T|`: annotation skipped
                        while not (self.at(",") or self.at("|")):
                            self.next()
                    if self.at(","):
                        self.next()
                self.eat("|")
            body = self.block() if self.at("{") else ("block", [], self.expr())
            return ("closure", params, body)
        if k == "id":
            self.next()
            path = v
            while self.at("::"):
                self.next()
                if self.at("<"):
                    self.skip_generics()
                    continue
                path += "::" + self.next()[1]
            if self.at("{") and self.ns == 0 and path[:1].isupper() and "::" not in path:
                # struct literal `Name { field: expr, field, … }`
                self.next()
                fields = []
                while not self.at("}"):
                    fk, fv = self.next()
                    if fk != "id":
                        raise Unsupported("struct literal field")
                    if self.at(":"):
                        self.next()
                        saved, self.ns = self.ns, 0
                        fe = self.expr()
                        self.ns = saved
                    else:
                        fe = ("path", fv)
                    fields.append((fv, fe))
                    if self.at(","):
                        self.next()
                self.eat("}")
                return ("struct", path, fields)
            return ("path", path)
        raise Unsupported(f"expression at {v!r}")

    def expr_nostruct(self):
        self.ns += 1
        try:
            return self.expr()
        finally:
            self.ns -= 1

    def match_pat(self):
        k, v = self.peek()
        if v == "_":
            self.next()
            return "_"
        if v == "(":
            self.next()
            items = []
            while not self.at(")"):
                t = self.next()
                if t[1] not in ("true", "false", "_"):
                    raise Unsupported("tuple pattern element")
                items.append(t[1])
                if self.at(","):
                    self.next()
            self.eat(")")
            return ("tuplepat", items)
        if k == "id":
            self.next()
            path = v
            while self.at("::"):
                self.next()
                path += "::" + self.next()[1]
            if self.at("("):
                if path != "Some":
                    raise Unsupported("match pattern with arguments")
                self.next()
                inner = self.next()
                if inner[0] != "id":
                    raise Unsupported("match pattern binder")
                self.eat(")")
                return ("Some", inner[1])
            return path
        raise Unsupported(f"match pattern {v!r}")


# ------------------------------------------------------------------------------------------
# Lean emission
# ------------------------------------------------------------------------------------------
# types: "Nat", "Rat", "Bool", "OptF" (a float that may be the literal NaN), "Elem" (nullable element,
# `Option Rat`), "OptNat", ("tuple", [types]), ("opt", type)

def lname(n):
    return n + "'" if n in LEAN_KW else n


def ty_lean(t):
    if t in ("OptF", "Elem", "SentLo", "SentHi"):
        return "Option Rat"
    if t == "OptNat":
        return "Option Nat"
    if isinstance(t, tuple) and t[0] == "tuple":
        return "(" + " × ".join(ty_lean(x) for x in t[1]) + ")"
    if isinstance(t, tuple) and t[0] == "enum":
        return t[1]
    if t == "BoolList":
        return "List (Option Bool)"
    if t == "OptBool":
        return "Option Bool"
    if isinstance(t, tuple) and t[0] == "opt":
        inner = ty_lean(t[1])
        return "Option " + (f"({inner})" if " " in inner else inner)
    return t


def tuple_txt(xs):
    return xs[0] if len(xs) == 1 else "(" + ", ".join(xs) + ")"


def assigned(node, acc):
    """names assigned (compound or plain) anywhere inside `node`, in first-assignment order"""
    if isinstance(node, tuple):
        if node and node[0] == "assign":
            tgt = node[2]
            if tgt[0] == "path":
                if tgt[1] not in acc:
                    acc.append(tgt[1])
            elif tgt[0] == "tuple":
                raise Unsupported("tuple assignment")
            else:
                raise Unsupported("assignment target")
            assigned(node[3], acc)
            return acc
        if node and node[0] == "closure":
            raise Unsupported("nested closure")
        for x in node[1:]:
            assigned(x, acc)
    elif isinstance(node, list):
        for x in node:
            assigned(x, acc)
    return acc


def assigned_outer(node, bound=frozenset()):
    """names assigned inside `node` that are not declared (by `let` / pattern) inside it,
    in first-assignment order; honours block scoping"""
    acc = []

    def add(n, bound):
        if n not in bound and n not in acc:
            acc.append(n)

    def walk(x, bound):
        k = x[0] if isinstance(x, tuple) and x else None
        if k == "block":
            b = set(bound)
            for st in x[1]:
                if st[0] == "let":
                    if st[3] is not None:
                        walk(st[3], b)
                    for n in pat_names(st[1], []):
                        b.add(n)
                elif st[0] == "assign":
                    walk(st[3], b)
                    if st[2][0] == "path":
                        add(st[2][1], b)
                    elif st[2][0] == "tuple" and all(t[0] == "path" for t in st[2][1]):
                        for t in st[2][1]:
                            add(t[1], b)
                    else:
                        raise Unsupported("assignment target")
                else:
                    walk(st[1], b)
            if x[2] is not None:
                walk(x[2], b)
        elif k == "iflet":
            walk(x[2], bound)
            b = set(bound) | set(pat_names(x[1], []))
            walk(x[3], b)
            if x[4] is not None:
                walk(x[4], bound)
        elif k == "if":
            walk(x[1], bound)
            walk(x[2], bound)
            if x[3] is not None:
                walk(x[3], bound)
        elif k == "closure":
            walk(x[2], set(bound) | set(n for q in x[1] for n in pat_names(q, [])))
        elif k == "for":
            walk(x[2], bound)
            walk(x[3], set(bound) | set(pat_names(x[1], [])))
        elif k == "match":
            walk(x[1], bound)
            for _pats, body in x[2]:
                walk(body, bound)
        elif k == "matchg":
            walk(x[1], bound)
            for _pats, guard, body in x[2]:
                if guard is not None:
                    walk(guard, bound)
                walk(body, bound)
        elif k in ("bin",):
            walk(x[2], bound); walk(x[3], bound)
        elif k in ("paren", "neg", "not", "cast", "field", "ref"):
            walk(x[1], bound)
        elif k == "return":
            if x[1] is not None:
                walk(x[1], bound)
        elif k == "mcall":
            walk(x[1], bound)
            for a in x[3]:
                walk(a, bound)
        elif k == "call":
            for a in x[2]:
                walk(a, bound)
        elif k == "tuple":
            for a in x[1]:
                walk(a, bound)
    walk(node, bound)
    return acc


def is_unit(e):
    """an `if` / block evaluated only for its effects"""
    if e[0] == "for":
        return True
    if e[0] == "match":
        return all(is_unit(b) for _p, b in e[2])
    if e[0] == "matchg":
        return all(is_unit(b) or (b[0] == "block" and not b[1] and b[2] == ("tuple", [])) for _p, _g, b in e[2])
    if e[0] == "if":
        return e[3] is None or is_unit(e[2])
    if e[0] == "iflet":
        return e[4] is None or is_unit(e[3])
    if e[0] == "block":
        return e[2] is None or (e[2][0] in ("if", "iflet", "block", "match", "matchg", "for") and is_unit(e[2]))
    return False


def declared(stmts):
    d = []
    for s in stmts:
        if s[0] == "let":
            pat_names(s[1], d)
    return d


def pat_names(p, acc):
    if p[0] == "pvar":
        acc.append(p[1])
    elif p[0] == "ptuple":
        for q in p[1]:
            pat_names(q, acc)
    elif p[0] == "psome":
        pat_names(p[1], acc)
    return acc


def nan_assigned(node, acc=None):
    """names that are assigned the literal `f64::NAN` somewhere: such a float is typed `Option Rat`"""
    acc = set() if acc is None else acc
    if isinstance(node, tuple):
        if node and node[0] == "assign" and node[1] == "=" and node[2][0] == "path" and node[3] == ("path", "f64::NAN"):
            acc.add(node[2][1])
        for x in node[1:]:
            nan_assigned(x, acc)
    elif isinstance(node, list):
        for x in node:
            nan_assigned(x, acc)
    return acc


class Emit:
    def __init__(self):
        self.ind = 0
        self.nan_vars = set()

    # ---- pure expressions -> (text, type)
    def ex(self, e, env, expect=None):
        t, ty = self.ex0(e, env, expect)
        if expect in ("OptF", "Elem") and ty == "Rat":
            return f"some ({t})", expect
        if expect in ("OptF", "Elem") and ty in ("OptF", "Elem"):
            return t, expect
        if ty == "NoneLit" and expect in ("OptF", "Elem", "OptNat"):
            return t, expect
        if ty == "NoneLit" and isinstance(expect, tuple) and expect[0] == "opt":
            return t, expect
        if expect in ("SentLo", "SentHi") and ty == "Rat":
            return f"some ({t})", expect        # a real value stored in a sentinel-initialised cache
        if expect == "OptF" and ty == "Nat":
            raise Unsupported("integer where a float is expected")
        if isinstance(expect, tuple) and expect[0] == "tuple" and ty != expect:
            raise Unsupported(f"tuple type mismatch {ty} vs {expect}")
        return t, ty

    def ex0(self, e, env, expect=None):
        k = e[0]
        if k == "num":
            v = e[1].replace("_", "")
            for suf in ("usize", "i32", "i64", "u64"):
                if v.endswith(suf):
                    return v[: -len(suf)], "Nat"
            isf = "." in v or "e" in v.lower() or v.endswith("f64") or v.endswith("f32")
            v = re.sub(r"f64$|f32$", "", v)
            if isf:
                from fractions import Fraction
                fr = Fraction(v + "0" if v.endswith(".") else v)
                if fr.denominator == 1:
                    return f"({fr.numerator} : Rat)", "Rat"
                return f"(({fr.numerator} : Rat) / {fr.denominator})", "Rat"
            return v, "Nat"
        if k == "path":
            n = e[1]
            if n == "f64::NAN":
                return "none", "OptF"
            if n == "None":
                return "none", (expect if expect in ("OptF", "Elem", "OptNat") else "NoneLit")
            if n == "EPS":
                return "EPS", "Rat"
            if n in ("true", "false") and n not in env:
                return n, "Bool"
            if n in env:
                return lname(n), env[n]
            raise Unsupported(f"unknown name {n}")
        if k == "paren":
            t, ty = self.ex0(e[1], env, expect)
            return f"({t})", ty
        if k == "ref":
            return self.ex0(e[1], env, expect)
        if k == "not":
            t, ty = self.ex0(e[1], env)
            if ty != "Bool":
                raise Unsupported("! on a non-boolean")
            return f"(!{t})", "Bool"
        if k == "neg":
            t, ty = self.ex0(e[1], env)
            if ty != "Rat":
                raise Unsupported("negation of a non-float")
            return f"(-{t})", "Rat"
        if k == "cast":
            t, ty = self.ex0(e[1], env)
            if e[2] in ("f64", "f32"):
                if ty == "Nat":
                    return f"(({t} : Nat) : Rat)", "Rat"
                if ty == "Rat":
                    return t, "Rat"
            if e[2] in ("i32", "usize", "i64", "u64", "u32") and ty == "Nat":
                return t, "Nat"
            raise Unsupported(f"cast {ty} as {e[2]}")
        if k == "tuple":
            want = expect[1] if isinstance(expect, tuple) and expect[0] == "tuple" else [None] * len(e[1])
            parts = [self.ex(x, env, w) for x, w in zip(e[1], want)]
            return "(" + ", ".join(p[0] for p in parts) + ")", ("tuple", tuple(p[1] for p in parts))
        if k == "bin":
            op = e[1]
            a, ta = self.ex0(e[2], env)
            b, tb = self.ex0(e[3], env)
            if op in ("+", "-", "*", "/"):
                if ta == tb and ta in ("Nat", "Rat"):
                    return f"({a} {op} {b})", ta
                if op == "-" and {ta, tb} <= {"Rat", "SentLo", "SentHi"}:
                    # arithmetic on a sentinel (`T::MIN` / `T::MAX`) has no exact reading: `none`
                    la = a if ta != "Rat" else f"(some {a})"
                    lb = b if tb != "Rat" else f"(some {b})"
                    return f"(lift2 (· - ·) {la} {lb})", "OptF"
                if {ta, tb} <= {"Rat", "OptF"}:      # NaN-propagating float arithmetic
                    la = a if ta == "OptF" else f"(some {a})"
                    lb = b if tb == "OptF" else f"(some {b})"
                    return f"(lift2 (· {op} ·) {la} {lb})", "OptF"
                raise Unsupported(f"arithmetic {ta} {op} {tb}")
            if op in (">>", "<<"):
                if ta == "Nat" and tb == "Nat":
                    return (f"({a} / 2 ^ {b})" if op == ">>" else f"({a} * 2 ^ {b})"), "Nat"
                raise Unsupported("shift of a non-integer")
            if op == "<" and ta == "OptNat" and tb == "OptNat":
                return f"(optLt {a} {b})", "Bool"
            if op == ">=" and ta == "Rat" and tb == "SentLo":
                return f"(geS {a} {b})", "Bool"
            if op == "<=" and ta == "Rat" and tb == "SentHi":
                return f"(leS {a} {b})", "Bool"
            if op == "!=" and {ta, tb} == {"SentLo", "SentHi"}:
                return f"(sentNe {a} {b})", "Bool"
            if op in ("<", ">", "<=", ">=", "==", "!="):
                if ta == tb and ta in ("Nat", "Rat"):
                    lop = {"<": "<", ">": ">", "<=": "≤", ">=": "≥", "==": "=", "!=": "≠"}[op]
                    return f"decide ({a} {lop} {b})", "Bool"
                raise Unsupported(f"comparison {ta} {op} {tb}")
            if op in ("&", "&&", "|", "||"):
                if ta == "Bool" and tb == "Bool":
                    return f"({a} {'&&' if op[0] == '&' else '||'} {b})", "Bool"
                raise Unsupported("boolean operator on non-booleans")
            raise Unsupported(f"operator {op}")
        if (k == "mcall" and e[2] == "vfold_n" and len(e[3]) == 2 and e[3][1][0] == "closure" and e[1][0] == "mcall"
                and e[1][2] == "filter_map" and len(e[1][3]) == 1 and e[1][3][0][0] == "closure"
                and e[1][1][0] == "mcall" and e[1][1][2] == "zip" and len(e[1][1][3]) == 1
                and e[1][1][1] == ("mcall", ("path", "self"), "into_iter", [])
                and e[1][1][3][0][0] == "path" and env.get(e[1][1][3][0][1]) == "BoolList"):
            # the masked fold of tea-agg: zip with the flags, keep by `filter_map`, then `vfold_n`
            mask = lname(e[1][1][3][0][1])
            fm, fo = e[1][3][0], e[3][1]
            if len(fm[1]) != 1 or fm[1][0][0] != "ptuple" or len(fm[1][0][1]) != 2 or any(q[0] != "pvar" for q in fm[1][0][1]):
                raise Unsupported("filter_map closure of the masked fold")
            vn, fn_ = fm[1][0][1][0][1], fm[1][0][1][1][1]
            env2 = dict(env)
            env2[vn] = "Elem"
            env2[fn_] = "OptBool"
            if assigned_outer(fm[2]):
                raise Unsupported("filter_map closure assigns")
            b, tb = self.effect(fm[2], env2, [], ("opt", "Elem"))
            if tb != ("opt", "Elem"):
                raise Unsupported(f"filter_map closure result {tb}")
            itxt, ity = self.ex0(e[3][0], env)
            if ity != "Rat" or len(fo[1]) != 2 or any(q[0] != "pvar" for q in fo[1]):
                raise Unsupported("vfold_n of the masked fold")
            env3 = dict(env)
            env3[fo[1][0][1]] = "Rat"
            env3[fo[1][1][1]] = "Rat"
            fb, ftb = self.effect(fo[2], env3, [], None)
            if ftb != "Rat":
                raise Unsupported("vfold_n closure result")
            body = "(\n" + indent(b) + ")" if "\n" in b else f"({b})"
            return (f"(vfoldN (fun {lname(fo[1][0][1])} {lname(fo[1][1][1])} => ({fb})) {itxt} "
                    f"((xs.zip {mask}).filterMap fun ({lname(vn)}, {lname(fn_)}) => {body}))"), ("tuple", ("Nat", "Rat"))
        if k == "mcall" and self.loop_kind(e) is not None:
            t, ty = self.loop(e, env, [], expect)
            return ("(" + t + ")" if "\n" not in t else "(\n" + indent(t) + ")"), ty
        if (k == "mcall" and e[2] in ("vmean", "vstd", "vskew") and e[1][0] == "mcall" and e[1][2] == "map"
                and len(e[1][3]) == 1 and e[1][3][0][0] == "closure" and e[1][1][0] == "paren"
                and e[1][1][1][0] == "bin" and e[1][1][1][1] in ("..=", "..")):
            # `(a..=b).map(|j| …).vmean()`: the aggregation of agg.rs (regenerated in GenAgg.lean) over the
            # mapped index range
            rng, cl = e[1][1][1], e[1][3][0]
            a, ta = self.ex0(rng[2], env)
            b, tb = self.ex0(rng[3], env)
            if ta != "Nat" or tb != "Nat" or len(cl[1]) != 1 or cl[1][0][0] != "pvar":
                raise Unsupported("mapped range shape")
            n_txt = f"({b} + 1 - {a})" if rng[1] == "..=" else f"({b} - {a})"
            env2 = dict(env)
            env2[cl[1][0][1]] = "Nat"
            if [o for o in assigned_outer(cl[2]) if o in env]:
                raise Unsupported("mapped range closure assigns")
            btxt, bty = self.effect(cl[2], env2, [], "OptF")
            if bty == "Rat":
                btxt, bty = f"some ({btxt})", "OptF"
            if bty != "OptF":
                raise Unsupported(f"mapped range element {bty}")
            args = []
            for x in e[3]:
                at, aty = self.ex0(x, env)
                if aty != "Nat":
                    raise Unsupported("aggregation argument")
                args.append(at)
            body = "(\n" + indent(btxt) + ")"
            return (f"(GenAgg.{e[2]}.run sqrt ((List.range' {a} {n_txt}).map fun {lname(cl[1][0][1])} => {body})"
                    + "".join(" " + x for x in args) + ")"), "OptF"
        if (k == "field" and e[2] == "0" and e[1][0] == "mcall" and e[1][1] == ("path", "self") and e[1][2] == "vfold_n"
                and len(e[1][3]) == 2 and e[1][3][0] == ("tuple", []) and e[1][3][1][0] == "closure"):
            # `self.vfold_n((), |(), _| {}).0`: the count of valid elements
            cl = e[1][3][1]
            if len(cl[1]) != 2 or cl[2] != ("block", [], None):
                raise Unsupported("unit vfold_n closure")
            return "(vfoldN (fun (_ : Unit) (_ : Rat) => ()) () xs).1", "Nat"
        if k == "mcall" and e[2] in ("find", "fold") and e[3] and e[3][-1][0] == "closure":
            into = ("mcall", ("path", "self"), "into_iter", [])
            src = "xs" if e[1] == into else ("xs.reverse" if e[1] == ("mcall", into, "rev", []) else None)
            if src is None:
                raise Unsupported(f".{e[2]}() receiver")
            cl = e[3][-1]
            elem = "Rat" if getattr(self, "plain", False) else "Elem"
            if e[2] == "find":
                # `.find(|v| p(v))`: the first element satisfying `p`, `None` if there is none
                if len(e[3]) != 1 or len(cl[1]) != 1 or cl[1][0][0] != "pvar" or elem != "Elem":
                    raise Unsupported(".find() shape")
                env2 = dict(env)
                env2[cl[1][0][1]] = "Elem"
                if assigned_outer(cl[2]):
                    raise Unsupported(".find() closure assigns")
                b, tb = self.effect(cl[2], env2, [], None)
                if tb != "Bool":
                    raise Unsupported(".find() predicate")
                return f"({src}.find? fun {lname(cl[1][0][1])} => {b})", ("opt", "Elem")
            if len(e[3]) != 2 or len(cl[1]) != 2 or any(q[0] != "pvar" for q in cl[1]) or src != "xs":
                raise Unsupported(".fold() shape")
            itxt, ity = self.ex(e[3][0], env, "Elem" if e[3][0] == ("path", "None") else None)
            if ity not in ("Nat", "Rat", "Elem"):
                raise Unsupported(".fold() accumulator")
            env2 = dict(env)
            env2[cl[1][0][1]] = ity
            env2[cl[1][1][1]] = elem
            if [o for o in assigned_outer(cl[2]) if o in env]:
                raise Unsupported(".fold() closure assigns (as a value)")
            b, tb = self.effect(cl[2], env2, [], ity if ity == "Elem" else None)
            if tb != ity:
                raise Unsupported(".fold() closure result")
            body = "(" + b + ")" if "\n" not in b else "(\n" + indent(b) + ")"
            return f"(List.foldl (fun {lname(cl[1][0][1])} {lname(cl[1][1][1])} => {body}) {itxt} xs)", ity
        if k == "mcall" and e[2] == "next" and not e[3] and e[1] == ("mcall", ("path", "self"), "into_iter", []):
            # `self.into_iter().next()`: the first item
            if not getattr(self, "plain", False):
                raise Unsupported(".next() on a nullable series")
            return "xs.head?", "Elem"
        if (k == "mcall" and e[1] == ("mcall", ("mcall", ("path", "self"), "into_iter", []), "rev", [])
                and e[2] in getattr(self, "siblings", {}) and not e[3]):
            lean_name, ret_ty, nparams = self.siblings[e[2]]
            if nparams != 0:
                raise Unsupported("sibling call on the reversed series")
            return f"({lean_name} sqrt xs.reverse)", ret_ty
        if k == "field":
            t, ty = self.ex0(e[1], env)
            if not (isinstance(ty, tuple) and ty[0] == "tuple"):
                raise Unsupported("field of a non-tuple")
            i = int(e[2])
            n = len(ty[1])
            if i >= n:
                raise Unsupported("tuple field out of range")
            proj = ".2" * i + (".1" if i < n - 1 else "")
            return f"{t}{proj}", ty[1][i]
        if k == "mcall" and e[1] == ("path", "self") and e[2] in getattr(self, "siblings", {}):
            lean_name, ret_ty, nparams = self.siblings[e[2]]
            if len(e[3]) != nparams:
                raise Unsupported("sibling call arity")
            args = []
            for a in e[3]:
                at, aty = self.ex0(a, env)
                if aty not in ("Nat", "BoolList"):
                    raise Unsupported("sibling call argument")
                args.append(at)
            return f"({lean_name} sqrt xs" + "".join(" " + a for a in args) + ")", ret_ty
        if k == "mcall" and e[1][0] == "path" and e[1][1] in ("self", "other") and e[1][1] not in env:
            name, args = e[2], e[3]
            series = "xs" if e[1][1] == "self" else "ys"
            if name in ("len", "is_empty") and not getattr(self, "allow_len", False):
                raise Unsupported(f"self.{name}() in an entry point that is not given the series length")
            if name == "len" and not args:
                return "len", "Nat"
            if name == "is_empty" and not args:
                return "decide (len = 0)", "Bool"
            if name == "uget" and len(args) == 1:
                a, ta = self.ex0(args[0], env)
                if ta != "Nat":
                    raise Unsupported("uget index")
                return f"(uget {series} {a})", "Elem"
            raise Unsupported(f"self.{name}()")
        if k == "mcall":
            name, args = e[2], e[3]
            r, tr = self.ex0(e[1], env)
            if name == "to_opt" and not args and tr in ("Elem", "Rat"):
                return r, tr
            if name in ("is_some", "is_none") and not args and tr in ("Elem", "OptNat", "OptF"):
                return f"{r}.{'isSome' if name == 'is_some' else 'isNone'}", "Bool"
            if name == "unwrap" and not args and tr == "OptNat":
                return f"({r}.getD 0)", "Nat"       # a panic on `None` is not part of the generated semantics
            if name == "unwrap_or" and len(args) == 1 and tr in ("OptF", "Elem"):
                a, ta = self.ex0(args[0], env)
                if ta == "OptF" and a == "none":
                    return r, "OptF"               # x.unwrap_or(NAN): NaN is `none`
                raise Unsupported("unwrap_or on a float option")
            if name == "and" and len(args) == 1 and tr in ("Elem", "OptNat", "OptF"):
                a, ta = self.ex0(args[0], env)
                if ta in ("Elem", "OptNat", "OptF"):
                    return f"({r}.bind fun _ => {a})", ta
                raise Unsupported(".and() operand")
            if name == "map" and len(args) == 1 and args[0][0] == "closure" and tr in ("Elem", "OptNat", "OptF"):
                cl = args[0]
                if len(cl[1]) != 1 or cl[1][0][0] not in ("pvar", "pwild"):
                    raise Unsupported(".map closure parameter")
                pn = cl[1][0][1] if cl[1][0][0] == "pvar" else "_"
                env2 = dict(env)
                if pn != "_":
                    env2[pn] = "Nat" if tr == "OptNat" else "Rat"
                if assigned_outer(cl[2]):
                    raise Unsupported(".map closure assigns")
                b, tb = self.effect(cl[2], env2, [], None)
                if tb == "Rat":
                    return f"({r}.map fun {lname(pn)} => {b})", "OptF"
                if tb == "Nat":
                    return f"({r}.map fun {lname(pn)} => {b})", "OptNat"
                raise Unsupported(f".map closure result {tb}")
            if name in ("sort_cmp", "sort_cmp_rev") and len(args) == 1 and tr in ("Elem", "Rat"):
                a, ta = self.ex(args[0], env, "Elem")
                rr = r if tr == "Elem" else f"(some {r})"
                return f"({'sortCmp' if name == 'sort_cmp' else 'sortCmpRev'} {rr} {a})", "Ord"
            if name == "cast" and not args and tr == "NoneLit":
                return "none", "OptF"
            if name in ("unwrap", "cast", "bool_") and not args and tr == "Bool":
                return r, "Bool"
            if name in ("f64",) and not args:
                if tr == "Nat":
                    return f"(({r} : Nat) : Rat)", "Rat"
                if tr in ("Rat", "OptF"):
                    return r, tr
                raise Unsupported(f".f64() on {tr}")
            if name == "cast" and not args:
                return r, tr
            if name == "unwrap" and not args:
                if tr == "Rat":      # element already matched non-null
                    return r, tr
                raise Unsupported(f".unwrap() on {tr} outside a not_none() guard")
            if name == "not_none" and not args:
                if tr == "Elem":
                    return f"{r}.isSome", "Bool"
                if tr == "Rat":
                    return "true", "Bool"
                raise Unsupported(f".not_none() on {tr}")
            if name == "sqrt" and not args and tr == "OptF":
                return f"({r}.map sqrt)", "OptF"
            if name in ("into_cast",) and not args:
                return r, tr
            if name in ("max_with", "min_with") and len(args) == 1:
                a, ta = self.ex0(args[0], env)
                if ta == tr == "Nat":
                    return f"({'maxWithNat' if name == 'max_with' else 'minWithNat'} {r} {a})", "Nat"
                if ta == tr == "Rat":
                    return f"({'maxWith' if name == 'max_with' else 'minWith'} {r} {a})", "Rat"
                raise Unsupported(f"{name} operand types")
            if name == "sqrt" and not args and tr == "Rat":
                return f"sqrt {r}" if e[1][0] in ("paren", "path") else f"sqrt ({r})", "Rat"
            if name == "powi" and len(args) == 1 and tr == "Rat":
                a, ta = self.ex0(args[0], env)
                if ta != "Nat":
                    raise Unsupported("powi exponent")
                return f"({r} ^ {a})", "Rat"
            if name == "pow" and len(args) == 1 and tr == "Nat":
                a, ta = self.ex0(args[0], env)
                if ta != "Nat":
                    raise Unsupported("pow exponent")
                return f"({r} ^ {a})", "Nat"
            if name == "mul_add" and len(args) == 2:
                a, ta = self.ex0(args[0], env)
                b, tb = self.ex0(args[1], env)
                if ta == tb == tr and tr in ("Nat", "Rat"):
                    return f"({r} * {a} + {b})", tr
                raise Unsupported("mul_add operand types")
            if name in ("min", "max") and len(args) == 1:
                a, ta = self.ex0(args[0], env)
                if ta == tr and tr in ("Nat", "Rat"):
                    return f"({name} {r} {a})", tr
                raise Unsupported("min/max operand types")
            if name == "unwrap_or" and len(args) == 1 and tr == "OptNat":
                a, ta = self.ex0(args[0], env)
                if ta != "Nat":
                    raise Unsupported("unwrap_or operand")
                return f"({r}.getD {a})", "Nat"
            raise Unsupported(f"method .{name}() on {tr}")
        if k == "call":
            if (e[1] in ("Iterator::any", "Iterator::all") and len(e[2]) == 2 and e[2][1][0] == "closure"
                    and e[2][0] in (("ref", ("mcall", ("path", "self"), "into_iter", [])),
                                    ("mcall", ("path", "self"), "into_iter", []))
                    and getattr(self, "plain", False) and len(e[2][1][1]) == 1 and e[2][1][1][0][0] == "pvar"):
                # `Iterator::any(&mut self.into_iter(), |x| …)` over the plain items
                cl = e[2][1]
                env_b = dict(env)
                env_b[cl[1][0][1]] = getattr(self, "elem_inner", "Rat")
                btxt, bty = self.effect(cl[2], env_b, [], None)
                if bty != "Bool":
                    raise Unsupported("Iterator::any/all predicate")
                return f"(xs.{e[1].split('::')[1]} (fun {lname(cl[1][0][1])} => {btxt}))", "Bool"
            if re.fullmatch(r"(\w+::)*zero", e[1]) and not e[2]:
                return "(0 : Rat)", "Rat"
            if re.fullmatch(r"(\w+::)*none", e[1]) and not e[2]:
                return "none", "OptF"
            if re.fullmatch(r"(\w+::)*min_", e[1]) and not e[2]:
                return "(none : Option Rat)", "SentLo"      # `T::MIN`: below every value
            if re.fullmatch(r"(\w+::)*max_", e[1]) and not e[2]:
                return "(none : Option Rat)", "SentHi"      # `T::MAX`: above every value
            if e[1] == "Some" and len(e[2]) == 1:
                a, ta = self.ex0(e[2][0], env)
                if ta == "Elem" and expect == ("opt", "Elem"):
                    return f"(some {a})", ("opt", "Elem")
                if ta == "Nat":
                    return f"(some {a})", "OptNat"
                if ta == "Rat":
                    return f"(some {a})", "Elem"
                raise Unsupported(f"Some({ta})")
            if e[1] in ("min", "max") and len(e[2]) == 2:
                a, ta = self.ex0(e[2][0], env)
                b, tb = self.ex0(e[2][1], env)
                if ta == tb == "Nat":
                    return f"({e[1]} {a} {b})", "Nat"
                raise Unsupported("min/max of non-integers")
            raise Unsupported(f"call {e[1]}")
        if k in ("if", "iflet", "block"):
            # an expression that may assign: only allowed when it assigns nothing
            if [o for o in assigned_outer(e) if o in env]:
                raise Unsupported("assignment inside a value expression")
            return self.value_block(e, env, expect)
        raise Unsupported(f"expression kind {k}")

    # ---- blocks as values --------------------------------------------------------------------
    def value_block(self, e, env, expect):
        """`if`/block used as a value and assigning nothing outside itself"""
        txt, ty = self.effect(e, env, [], expect)
        return "(" + txt + ")", ty

    # ---- statements --------------------------------------------------------------------------
    def effect(self, e, env, outs, expect=None):
        """Lean term for expression `e` evaluated for its effects on `outs` (names) and its value.
        Returns (text, value type or None).  The term has type  outs… × value  (flattened)."""
        k = e[0]
        if k == "block":
            return self.stmts(e[1], e[2], dict(env), outs, expect)
        if k == "match" and any(isinstance(q, tuple) or q == "None" for pats, _ in e[2] for q in pats):
            stxt, sty = self.ex0(e[1], env)
            if sty not in ("Elem", "OptNat", "OptF"):
                raise Unsupported("option match on a non-option")
            arms, tys = [], []
            for pats, body in e[2]:
                if len(pats) != 1:
                    raise Unsupported("or-pattern in an option match")
                q = pats[0]
                env_b = dict(env)
                if q == "None":
                    ptxt = "none"
                elif isinstance(q, tuple) and q[0] == "Some":
                    env_b[q[1]] = "Nat" if sty == "OptNat" else "Rat"
                    ptxt = f"some {lname(q[1])}"
                elif q == "_":
                    ptxt = "_"
                else:
                    raise Unsupported("option match pattern")
                btxt, bty = self.stmts(body[1], body[2], env_b, outs, expect)
                arms.append((ptxt, btxt))
                tys.append(bty)
            if any(t != tys[0] for t in tys):
                raise Unsupported("match arms of different types")
            return f"match {stxt} with\n" + "\n".join(f"| {p_} =>\n{indent(b_)}" for p_, b_ in arms), tys[0]
        if k == "match" and e[1][0] == "path" and isinstance(env.get(e[1][1]), tuple) and env[e[1][1]][0] == "enum":
            # `match method { Enum::A => …, Enum::B => … }` on an enum-typed parameter
            arms, tys = [], []
            for pats, body in e[2]:
                if len(pats) != 1 or not isinstance(pats[0], str) or pats[0] == "_":
                    raise Unsupported("enum match pattern")
                ctor = pats[0].split("::")[-1]
                btxt, bty = self.stmts(body[1], body[2], dict(env), outs, expect)
                arms.append(("." + ctor[0].lower() + ctor[1:], btxt))
                tys.append(bty)
            if any(t != tys[0] for t in tys):
                want = None
                if set(tys) <= {"Rat", "OptF", "Elem"}:
                    want = "OptF"
                if want is None:
                    raise Unsupported("match arms of different types")
                arms, tys = [], []
                for pats, body in e[2]:
                    ctor = pats[0].split("::")[-1]
                    btxt, bty = self.stmts(body[1], body[2], dict(env), outs, want)
                    arms.append(("." + ctor[0].lower() + ctor[1:], btxt))
                    tys.append(bty)
                if any(t != tys[0] for t in tys):
                    raise Unsupported("match arms of different types")
            return f"match {lname(e[1][1])} with\n" + "\n".join(f"| {p_} =>\n{indent(b_)}" for p_, b_ in arms), tys[0]
        if k == "match":
            stxt, sty = self.ex0(e[1], env)
            if sty != "Ord":
                raise Unsupported("match on a non-Ordering")
            omap = {"Ordering::Less": ".lt", "Ordering::Equal": ".eq", "Ordering::Greater": ".gt", "_": "_",
                    "Less": ".lt", "Equal": ".eq", "Greater": ".gt"}
            sel = {}
            tys = []
            for pats, body in e[2]:
                if any(q not in omap for q in pats):
                    raise Unsupported("match pattern")
                btxt, bty = self.stmts(body[1], body[2], dict(env), outs, expect)
                tys.append(bty)
                for q in pats:
                    for c in ([".lt", ".eq", ".gt"] if omap[q] == "_" else [omap[q]]):
                        sel.setdefault(c, btxt)
            if any(t != tys[0] for t in tys):
                raise Unsupported("match arms of different types")
            if set(sel) != {".lt", ".eq", ".gt"}:
                raise Unsupported("non-exhaustive match")
            # a named selector instead of an anonymous `match`: lemmas about it are reusable
            return (f"ordCases {stxt}\n" + "\n".join("  (" + sel[c].replace("\n", "\n   ") + ")" for c in (".lt", ".eq", ".gt"))), tys[0]
        if k == "matchg":
            # `match (c1, c2) { (true, false) => …, … }` over booleans: the conditions once, then the arms
            # in source order
            scr = e[1][1] if e[1][0] == "paren" else e[1]
            if scr[0] != "tuple":
                raise Unsupported("guarded match on a non-tuple")
            conds = []
            for c in scr[1]:
                ct, cty = self.ex0(c, env)
                if cty != "Bool":
                    raise Unsupported("match tuple component is not boolean")
                conds.append(ct)
            k_ = len(conds)
            covered = set()
            arms = []
            import itertools
            for pats, guard, body in e[2]:
                if guard is not None or len(pats) != 1:
                    raise Unsupported("guard / or-pattern in a boolean tuple match")
                q = pats[0]
                if q == "_":
                    q = ("tuplepat", ["_"] * k_)
                if not (isinstance(q, tuple) and q[0] == "tuplepat" and len(q[1]) == k_):
                    raise Unsupported("boolean tuple pattern")
                here = set(c for c in itertools.product((True, False), repeat=k_)
                           if all(p == "_" or (p == "true") == b for p, b in zip(q[1], c)))
                lits = [f"m{i}__" if p == "true" else f"!m{i}__" for i, p in enumerate(q[1]) if p != "_"]
                if body[0] == "block" and not body[1] and body[2] == ("tuple", []):
                    body = ("block", [], None)
                btxt, bty = self.stmts(body[1], body[2], dict(env), outs, expect)
                arms.append((" && ".join(lits) if lits else "true", btxt, bty, bool(here - covered)))
                covered |= here
            if len(covered) != 2 ** k_:
                raise Unsupported("non-exhaustive boolean tuple match")
            arms = [a for a in arms if a[3]]
            if any(a[2] != arms[0][2] for a in arms):
                raise Unsupported("match arms of different types")
            txt = ""
            for i, (c, btxt, _t, _r) in enumerate(arms):
                if i == len(arms) - 1:
                    txt += f"\n{indent(btxt)}"
                else:
                    txt += f"{'' if i == 0 else chr(10)}if ({c}) then\n{indent(btxt)}\nelse"
            lets = "".join(f"let m{i}__ := {c}\n" for i, c in enumerate(conds))
            return lets + txt, arms[0][2]
        if k == "mcall" and self.loop_kind(e) is not None:
            return self.loop(e, env, outs, expect)
        if k == "for":
            pat, it, body = e[1], e[2], e[3]
            if pat[0] != "pvar" or it[0] != "bin" or it[1] not in ("..=", ".."):
                raise Unsupported("for loop shape")
            a, ta = self.ex0(it[2], env)
            b, tb = self.ex0(it[3], env)
            if ta != "Nat" or tb != "Nat":
                raise Unsupported("for loop bounds")
            n_txt = f"({b} + 1 - {a})" if it[1] == "..=" else f"({b} - {a})"
            if not outs:
                return "()", None
            env_b = dict(env)
            env_b[pat[1]] = "Nat"
            btxt, bty = self.stmts(body[1], body[2], env_b, outs, None)
            if bty is not None:
                raise Unsupported("valued for body")
            acc = tuple_txt([lname(o) for o in outs])
            return (f"List.foldl (fun {acc if len(outs) > 1 else acc} {lname(pat[1])} =>\n{indent(btxt)})\n  {acc} (List.range' {a} {n_txt})"), None
        if k == "if":
            c = e[1]
            cc = c[1] if c[0] == "paren" else c
            if (cc[0] == "bin" and cc[1] in ("&&", "&") and cc[2][0] == "mcall" and cc[2][2] == "not_none"
                    and cc[2][1][0] == "path" and env.get(cc[2][1][1]) == "OptF" and e[3] is None):
                x = cc[2][1][1]
                env_t = dict(env)
                env_t[x] = "Rat"
                ctxt, cty = self.ex0(cc[3], env_t)
                if cty != "Bool":
                    raise Unsupported("condition is not boolean")
                t_txt, t_ty = self.stmts(e[2][1], e[2][2], env_t, outs, None)
                if t_ty is not None:
                    raise Unsupported("valued guarded block")
                keep = tuple_txt([f"(some {lname(o)})" if o == x else lname(o) for o in outs])
                rew = f"let {tuple_txt([lname(o) for o in outs])} :=\n{indent(t_txt)}\n{keep}" if x in outs else t_txt
                none_t = tuple_txt([lname(o) for o in outs])
                return (f"match {lname(x)} with\n| some {lname(x)} =>\n  if {ctxt} then\n{indent(rew, 4)}\n  else\n    {keep}\n| none =>\n  {none_t}"), None
            guard = self.null_guard(c, env)
            if guard is not None:
                names = guard
                env_t = dict(env)
                for n in names:
                    env_t[n] = "Bool" if env[n] == "OptBool" else "Rat"
                t_txt, t_ty = self.stmts(e[2][1], e[2][2], env_t, outs, expect)
                if e[3] is None:
                    e_txt, e_ty = self.stmts([], None, dict(env), outs, None)
                else:
                    e_txt, e_ty = self.effect(e[3], dict(env), outs, expect)
                t_txt, e_txt, ty = self.join(e, env, env_t, outs, t_txt, t_ty, e_txt, e_ty, expect)
                scrut = ", ".join(lname(n) for n in names)
                pats = ", ".join(f"some {lname(n)}" for n in names)
                wild = ", ".join("_" for _ in names)
                return f"match {scrut} with\n| {pats} =>\n{indent(t_txt)}\n| {wild} =>\n{indent(e_txt)}", ty
            ctxt, cty = self.ex0(c, env)
            if cty != "Bool":
                raise Unsupported("condition is not boolean")
            t_txt, t_ty = self.stmts(e[2][1], e[2][2], dict(env), outs, expect)
            if e[3] is None:
                e_txt, e_ty = self.stmts([], None, dict(env), outs, None)
            else:
                e_txt, e_ty = self.effect(e[3], dict(env), outs, expect)
            t_txt, e_txt, ty = self.join(e, env, env, outs, t_txt, t_ty, e_txt, e_ty, expect)
            return f"if {ctxt} then\n{indent(t_txt)}\nelse\n{indent(e_txt)}", ty
        if (k == "iflet" and e[1][0] == "psome" and e[1][1][0] == "ppath" and e[2][0] == "mcall"
                and e[2][2] == "partial_cmp" and len(e[2][3]) == 1):
            # `if let Some(Ordering::X) = a.partial_cmp(b)` on non-null inner values: `a cmp b = X`
            omap = {"Ordering::Less": ".lt", "Ordering::Equal": ".eq", "Ordering::Greater": ".gt",
                    "Less": ".lt", "Equal": ".eq", "Greater": ".gt"}
            if e[1][1][1] not in omap:
                raise Unsupported("ordering pattern")
            a, ta = self.ex0(e[2][1], env)
            b, tb = self.ex0(e[2][3][0], env)
            if ta != "Rat" or tb != "Rat":
                raise Unsupported("partial_cmp operands")
            t_txt, t_ty = self.stmts(e[3][1], e[3][2], dict(env), outs, expect)
            if e[4] is None:
                e_txt, e_ty = self.stmts([], None, dict(env), outs, None)
            else:
                e_txt, e_ty = self.effect(e[4], dict(env), outs, expect)
            if t_ty != e_ty:
                raise Unsupported("if let branches of different types")
            return f"if decide (cmpRat {a} {b} = {omap[e[1][1][1]]}) then\n{indent(t_txt)}\nelse\n{indent(e_txt)}", t_ty
        if k == "iflet":
            p, scrut = e[1], e[2]
            if p[0] != "psome":
                raise Unsupported("if let pattern")
            stxt, sty = self.ex0(scrut, env)
            if sty == "OptNat":
                sty = ("opt", "Nat")
            elif sty == "Elem":
                sty = ("opt", "Rat")
            if not (isinstance(sty, tuple) and sty[0] == "opt"):
                raise Unsupported("if let on a non-option")
            env_t = dict(env)
            ptxt = self.bind_pat(p[1], sty[1], env_t)
            t_txt, t_ty = self.stmts(e[3][1], e[3][2], env_t, outs, expect)
            if e[4] is None:
                e_txt, e_ty = self.stmts([], None, dict(env), outs, None)
            else:
                e_txt, e_ty = self.effect(e[4], dict(env), outs, expect)
            if t_ty != e_ty and "NoneLit" in (t_ty, e_ty) and e[4] is not None:
                want = e_ty if t_ty == "NoneLit" else t_ty
                env_t = dict(env)
                ptxt = self.bind_pat(p[1], sty[1], env_t)
                t_txt, t_ty = self.stmts(e[3][1], e[3][2], env_t, outs, want)
                e_txt, e_ty = self.effect(e[4], dict(env), outs, want)
            if t_ty != e_ty:
                raise Unsupported("if let branches of different types")
            return f"match {stxt} with\n| some {ptxt} =>\n{indent(t_txt)}\n| none =>\n{indent(e_txt)}", t_ty
        # a pure expression
        t, ty = self.ex(e, env, expect)
        return tuple_txt([lname(o) for o in outs] + [t]), ty

    def join(self, e, env, env_t, outs, t_txt, t_ty, e_txt, e_ty, expect):
        if t_ty == e_ty:
            return t_txt, e_txt, t_ty
        optish = lambda t: t in ("OptF", "Elem", "OptNat") or (isinstance(t, tuple) and t[0] == "opt")
        if (t_ty == "NoneLit" and optish(e_ty)) or (e_ty == "NoneLit" and optish(t_ty)) or \
                {t_ty, e_ty} <= {"Rat", "OptF", "Elem"} or (isinstance(t_ty, tuple) and isinstance(e_ty, tuple)):
            # re-translate with the wider type expected
            want = (e_ty if t_ty == "NoneLit" else t_ty) if "NoneLit" in (t_ty, e_ty) else self.wider(t_ty, e_ty)
            if e[0] == "if":
                t2, tt = self.stmts(e[2][1], e[2][2], dict(env_t), outs, want)
                if e[3] is None:
                    raise Unsupported("valued if without else")
                e2, et = self.effect(e[3], dict(env), outs, want)
                if tt == et:
                    return t2, e2, tt
        raise Unsupported(f"branches of different types: {t_ty} / {e_ty}")

    def wider(self, a, b):
        if a == b:
            return a
        if {a, b} <= {"Rat", "OptF", "Elem"}:
            return "OptF"
        if isinstance(a, tuple) and isinstance(b, tuple) and a[0] == b[0] == "tuple" and len(a[1]) == len(b[1]):
            return ("tuple", tuple(self.wider(x, y) for x, y in zip(a[1], b[1])))
        raise Unsupported(f"no common type for {a} and {b}")

    def ends_with_return(self, blk):
        if blk[2] is not None and blk[2][0] == "return":
            return True
        return bool(blk[1]) and blk[1][-1][0] == "expr" and blk[1][-1][1][0] == "return"

    def loop_kind(self, e):
        """self.vapply_n(cl) | self.vfold_n(init, cl) | self.vfold(init, cl) |
        self.into_iter().for_each(cl) | self.into_iter().zip(other).for_each(cl)"""
        if e[0] != "mcall":
            return None
        recv, name, args = e[1], e[2], e[3]
        if recv == ("path", "self") and name == "vapply_n" and len(args) == 1 and args[0][0] == "closure":
            return "vapply_n"
        if recv == ("path", "self") and name in ("vfold_n", "vfold") and len(args) == 2 and args[1][0] == "closure":
            return name
        if name == "for_each" and len(args) == 1 and args[0][0] == "closure":
            if recv == ("mcall", ("path", "self"), "into_iter", []):
                return "for_each"
            if (recv[0] == "mcall" and recv[2] == "zip" and recv[1] == ("mcall", ("path", "self"), "into_iter", [])
                    and recv[3] == [("path", "other")]):
                return "for_each2"
        return None

    def loop(self, e, env, outs, expect):
        kind = self.loop_kind(e)
        cl = e[3][-1]
        acc = tuple_txt([lname(o) for o in outs]) if outs else "()"
        accpat = acc if outs else "(_ : Unit)"

        def projs(base, k):
            """components of a right-nested k-tuple"""
            if k == 1:
                return [base]
            return [base + ".2" * i + (".1" if i < k - 1 else "") for i in range(k)]
        if kind == "vapply_n":
            if len(cl[1]) != 1 or cl[1][0][0] != "pvar":
                raise Unsupported("vapply_n closure")
            env_b = dict(env)
            env_b[cl[1][0][1]] = "Rat"
            btxt, bty = self.stmts(cl[2][1], cl[2][2], env_b, outs, None)
            if bty is not None:
                raise Unsupported("valued vapply_n closure")
            call = f"vapplyN (fun {accpat} {lname(cl[1][0][1])} =>\n{indent(btxt)})\n  {acc} xs"
            parts = projs("r__.1", len(outs)) if outs else []
            return f"let r__ := {call}\n{tuple_txt(parts + ['r__.2'])}", "Nat"
        if kind in ("for_each", "for_each2"):
            env_b = dict(env)
            p0 = cl[1][0] if len(cl[1]) == 1 else None
            if kind == "for_each":
                if p0 is None or p0[0] != "pvar":
                    raise Unsupported("for_each closure")
                env_b[p0[1]] = "Rat" if getattr(self, "plain", False) else "Elem"
                ptxt = lname(p0[1])
                src = "xs"
            else:
                if p0 is None or p0[0] != "ptuple" or len(p0[1]) != 2 or any(q[0] != "pvar" for q in p0[1]):
                    raise Unsupported("zip for_each closure")
                for q in p0[1]:
                    env_b[q[1]] = "Elem"
                ptxt = "(" + ", ".join(lname(q[1]) for q in p0[1]) + ")"
                src = "(xs.zip ys)"
            btxt, bty = self.stmts(cl[2][1], cl[2][2], env_b, outs, None)
            if bty is not None:
                raise Unsupported("valued for_each closure")
            return f"List.foldl (fun {accpat} {ptxt} =>\n{indent(btxt)})\n  {acc} {src}", None
        # vfold / vfold_n: pure accumulator closures
        if outs:
            raise Unsupported("vfold closure that assigns captured variables")
        if len(cl[1]) != 2 or any(q[0] != "pvar" for q in cl[1]):
            raise Unsupported("vfold closure")
        itxt, ity = self.ex(e[3][0], env, "Elem" if e[3][0] == ("path", "None") else None)
        env_b = dict(env)
        env_b[cl[1][0][1]] = ity
        env_b[cl[1][1][1]] = getattr(self, "elem_inner", "Rat")
        btxt, bty = self.effect(cl[2], env_b, [], ity if ity in ("Elem", "OptF") else None)
        if bty != ity:
            raise Unsupported(f"vfold closure result {bty} for accumulator {ity}")
        fn = "vfoldN" if kind == "vfold_n" else "vfold"
        if getattr(self, "elem_inner", "Rat") == "Bool":
            if kind != "vfold":
                raise Unsupported("vfold_n over boolean elements")
            fn = "vfoldB"
        body = "(" + btxt + ")" if "\n" not in btxt else "(\n" + indent(btxt) + ")"
        txt = f"{fn} (fun {lname(cl[1][0][1])} {lname(cl[1][1][1])} => {body}) {itxt} xs"
        return txt, (("tuple", ("Nat", ity)) if kind == "vfold_n" else ity)

    def null_guard(self, c, env):
        """`a.not_none()` or `a.not_none() && b.not_none()` over nullable elements -> [names]"""
        def one(x):
            if x[0] == "mcall" and x[2] in ("not_none", "is_some") and not x[3] and x[1][0] == "path" and env.get(x[1][1]) in ("Elem", "OptBool"):
                return x[1][1]
            return None
        if c[0] == "paren":
            c = c[1]
        n = one(c)
        if n:
            return [n]
        if c[0] == "bin" and c[1] in ("&&", "&"):
            a, b = one(c[2]), one(c[3])
            if a and b:
                return [a, b]
        return None

    def bind_pat(self, p, ty, env):
        if p[0] == "pvar":
            env[p[1]] = ty
            return lname(p[1])
        if p[0] == "ptuple":
            if not (isinstance(ty, tuple) and ty[0] == "tuple" and len(ty[1]) == len(p[1])):
                raise Unsupported("tuple pattern against a non-tuple")
            return "(" + ", ".join(self.bind_pat(q, t, env) for q, t in zip(p[1], ty[1])) + ")"
        raise Unsupported("pattern")

    def stmts(self, ss, tail, env, outs, expect=None):
        """statement list followed by an optional tail expression; the term's value is
        (outs…, tail).  `env` is mutated (callers pass a copy)."""
        lines = []
        for s in ss:
            if s[0] == "let":
                p, e = s[1], s[3]
                ann = ann_type(s[4]) if len(s) > 4 else None
                if e is None:              # `let x: f64;` — assigned later; a float may become NaN
                    if p[0] != "pvar" or ann not in ("Rat", "Nat"):
                        raise Unsupported("uninitialised let")
                    if ann == "Rat":
                        lines.append(f"let {lname(p[1])} : Option Rat := none")
                        env[p[1]] = "OptF"
                    else:
                        lines.append(f"let {lname(p[1])} : Nat := 0")
                        env[p[1]] = "Nat"
                    continue
                inner = [o for o in assigned_outer(e) if o in env]
                if (inner and e[0] == "mcall" and e[2] == "fold" and len(e[3]) == 2 and e[3][1][0] == "closure"
                        and e[1] == ("mcall", ("path", "self"), "into_iter", []) and p[0] == "pvar"):
                    cl = e[3][1]
                    if len(cl[1]) != 2 or any(q[0] != "pvar" for q in cl[1]):
                        raise Unsupported(".fold() closure")
                    itxt, ity = self.ex0(e[3][0], env)
                    if ity not in ("Nat", "Rat"):
                        raise Unsupported(".fold() accumulator")
                    env2 = dict(env)
                    env2[cl[1][0][1]] = ity
                    env2[cl[1][1][1]] = "Rat" if getattr(self, "plain", False) else "Elem"
                    b, tb = self.stmts(cl[2][1], cl[2][2], env2, inner, None)
                    if tb != ity:
                        raise Unsupported(".fold() closure result")
                    acc = tuple_txt([lname(o) for o in inner] + [lname(cl[1][0][1])])
                    lines.append(f"let {tuple_txt([lname(o) for o in inner] + [lname(p[1])])} :=\n"
                                 + indent(f"List.foldl (fun {acc} {lname(cl[1][1][1])} =>\n{indent(b)})\n  "
                                          f"{tuple_txt([lname(o) for o in inner] + [itxt])} xs"))
                    env[p[1]] = ity
                    continue
                if inner:
                    txt, ty = self.effect(e, env, inner, None)
                    if ty is None:
                        raise Unsupported("let of a unit value")
                    tmp = dict(env)
                    ptxt = self.bind_pat(p, ty, tmp)
                    lines.append(f"let {tuple_txt([lname(o) for o in inner] + [ptxt])} :=\n{indent(txt)}")
                    env.update(tmp)
                else:
                    want = ann if ann in ("Elem", "OptNat", "OptF") else None
                    if p[0] == "pvar" and p[1] in self.nan_vars and s[2]:
                        want = "OptF"
                    if want is None and p[0] == "pvar" and p[1] in getattr(self, "none_types", {}) \
                            and (e == ("path", "None") or e[0] in ("if", "iflet")):
                        want = self.none_types[p[1]]
                    txt, ty = self.ex(e, env, want)
                    if ty == "NoneLit":
                        raise Unsupported("let of an untyped None")
                    if want in ("Elem", "OptNat") and txt == "none":
                        txt = f"(none : {ty_lean(want)})"
                    tmp = dict(env)
                    ptxt = self.bind_pat(p, ty, tmp)
                    lines.append(f"let {ptxt} := {txt}")
                    env.update(tmp)
            elif s[0] == "assign" and s[2][0] == "tuple":
                op, tgt, rhs = s[1], s[2], s[3]
                if op != "=" or rhs[0] != "tuple" or len(rhs[1]) != len(tgt[1]):
                    raise Unsupported("tuple assignment shape")
                names = []
                for t in tgt[1]:
                    if t[0] != "path" or t[1] not in env:
                        raise Unsupported("assignment target")
                    names.append(t[1])
                parts = [self.ex(x, env, env[n]) for x, n in zip(rhs[1], names)]
                for (r, tr), n in zip(parts, names):
                    if tr != env[n]:
                        raise Unsupported(f"assignment of {tr} to {env[n]} variable {n}")
                lines.append(f"let {tuple_txt([lname(n) for n in names])} := {tuple_txt([r for r, _ in parts])}")
            elif s[0] == "assign":
                op, tgt, rhs = s[1], s[2], s[3]
                if tgt[0] != "path" or tgt[1] not in env:
                    raise Unsupported("assignment target")
                n = tgt[1]
                r, tr = self.ex(rhs, env, env[n] if env[n] in ("Elem", "OptNat", "OptF") else None)
                if tr != env[n]:
                    raise Unsupported(f"assignment of {tr} to {env[n]} variable {n}")
                if op == "=":
                    lines.append(f"let {lname(n)} := {r}")
                elif env[n] == "OptF":
                    lines.append(f"let {lname(n)} := lift2 (· {op[0]} ·) {lname(n)} ({r})")
                else:
                    lines.append(f"let {lname(n)} := {lname(n)} {op[0]} {r}")
            elif s[0] == "expr":
                e = s[1]
                inner = [o for o in assigned_outer(e) if o in env]
                if e[0] == "return":
                    if e[1] is None:
                        raise Unsupported("bare return")
                    txt, ty = self.ex(e[1], env, expect)
                    lines.append(tuple_txt([lname(o) for o in outs] + [txt]))
                    return "\n".join(lines), ty
                if e[0] == "if" and e[3] is None and self.ends_with_return(e[2]):
                    # `if c { …; return X; }` followed by the rest of the block
                    ctxt, cty = self.ex0(e[1], env)
                    if cty != "Bool":
                        raise Unsupported("condition is not boolean")
                    idx = ss.index(s)
                    r_txt, r_ty = self.stmts(e[2][1], e[2][2], dict(env), outs, expect)
                    rest_txt, rest_ty = self.stmts(ss[idx + 1:], tail, dict(env), outs, expect)
                    if r_ty != rest_ty:
                        want = self.wider(r_ty, rest_ty)
                        r_txt, r_ty = self.stmts(e[2][1], e[2][2], dict(env), outs, want)
                        rest_txt, rest_ty = self.stmts(ss[idx + 1:], tail, dict(env), outs, want)
                        if r_ty != rest_ty:
                            raise Unsupported(f"early return of {r_ty} in a block of {rest_ty}")
                    lines.append(f"if {ctxt} then\n{indent(r_txt)}\nelse\n{indent(rest_txt)}")
                    return "\n".join(lines), rest_ty
                if e[0] not in ("if", "iflet", "block", "match", "matchg", "for") and self.loop_kind(e) is None:
                    raise Unsupported("expression statement")
                if not inner:
                    continue            # no effect on the state
                txt, ty = self.effect(e, env, inner, None)
                if ty is not None:
                    raise Unsupported("valued expression used as a statement")
                lines.append(f"let {tuple_txt([lname(o) for o in inner])} :=\n{indent(txt)}")
        ret = [lname(o) for o in outs]
        ty = None
        if tail is not None and tail[0] in ("if", "iflet", "block", "match", "matchg", "for") and is_unit(tail):
            inner = [o for o in assigned_outer(tail) if o in env]
            if inner:
                txt, ty0 = self.effect(tail, env, inner, None)
                lines.append(f"let {tuple_txt([lname(o) for o in inner])} :=\n{indent(txt)}")
            tail = None
        if tail is not None and tail[0] == "return":
            tail = tail[1]
        if tail is not None:
            if tail[0] in ("if", "iflet", "block", "match"):
                inner = [o for o in assigned_outer(tail) if o in env]
                if inner:
                    txt, ty = self.effect(tail, env, inner, expect)
                    lines.append(f"let {tuple_txt([lname(o) for o in inner] + ['tail__'])} :=\n{indent(txt)}")
                    ret.append("tail__")
                else:
                    txt, ty = self.effect(tail, env, [], expect)
                    ret.append("(" + txt + ")" if "\n" not in txt else "(\n" + indent(txt) + ")")
            else:
                txt, ty = self.ex(tail, env, expect)
                ret.append(txt)
        if not ret:
            ret = ["()"]
        lines.append(tuple_txt(ret))
        return "\n".join(lines), ty


def ann_type(txt):
    """type annotation text -> translator type"""
    t = (txt or "").replace(" ", "")
    if not t:
        return None
    if t in ("f64", "f32"):
        return "Rat"
    if t in ("usize", "i32", "i64", "u64", "isize"):
        return "Nat"
    if t == "Option<usize>":
        return "OptNat"
    if re.fullmatch(r"Option<T(::Inner)?>", t):
        return "Elem"
    if t == "bool":
        return "Bool"
    return None


def indent(s, n=2):
    return "\n".join(" " * n + l for l in s.split("\n"))


# ------------------------------------------------------------------------------------------
# one entry point
# ------------------------------------------------------------------------------------------
def fn_bodies(src):
    """(name, body-token-list) for every `fn ts_*` with a body, tests excluded"""
    src = src.split("#[cfg(test)]")[0]
    for m in re.finditer(r"\bfn (ts_\w+)\s*<", src):
        # find the body's opening brace: first `{` after the signature's `)`/where clause that is
        # followed by a statement; signatures here contain no `{`
        i = src.index("{", m.end())
        sig = src[m.end(): i]
        depth, j = 0, i
        while j < len(src):
            if src[j] == "{":
                depth += 1
            elif src[j] == "}":
                depth -= 1
                if depth == 0:
                    break
            j += 1
        yield m.group(1), src[i: j + 1], sig


def translate_idx_fn(name, body_src, sig_src):
    """entry points over `rolling_apply_idx`: closure `|start, end, v|` that reads the series
    through `self.uget(i)`.  Only `step` is emitted (no decomposition)."""
    blk = P(tokenize(body_src)).block()
    stmts, tail = blk[1], blk[2]
    if tail is None and stmts and stmts[-1][0] == "expr":
        tail = stmts[-1][1]
        stmts = stmts[:-1]
    call = tail
    if not (call and call[0] == "mcall" and call[1] == ("path", "self") and call[2] in ("rolling_apply_idx", "rolling2_apply_idx")):
        raise Unsupported("driver call shape")
    two = call[2] == "rolling2_apply_idx"
    clos = [a for a in call[3] if a[0] == "closure"]
    if len(clos) != 1:
        raise Unsupported("driver call without exactly one closure")
    clos = clos[0]
    em = Emit()
    em.allow_len = True
    env = {"window": "Nat", "min_periods": "OptNat"}
    bools = re.findall(r"\b(\w+)\s*:\s*bool\b", sig_src)
    for b in bools:
        env[b] = "Bool"
    state, pre, L = [], [], []          # pre: every non-`mut` let, in order (may shadow `window`)
    seen_mp = False
    for st in stmts:
        if st[0] != "let" or st[1][0] != "pvar" or st[3] is None:
            raise Unsupported("statement before the driver call")
        n, mut, e = st[1][1], st[2], st[3]
        ann = ann_type(st[4]) if len(st) > 4 else None
        txt, ty = em.ex(e, env, ann if ann in ("Elem", "OptNat", "OptF") else None)
        if ty == "NoneLit":
            raise Unsupported("untyped None")
        if mut:
            state.append((n, ty, txt, len(pre)))
        else:
            pre.append((n, ty, txt))
            if n == "min_periods":
                if ty != "Nat":
                    raise Unsupported("min_periods is not an integer")
                seen_mp = True
        env[n] = ty
    if not seen_mp:
        raise Unsupported("no min_periods binding")
    params = clos[1]
    if len(params) != 3 or any(q[0] != "pvar" for q in params[:2]):
        raise Unsupported("closure parameters")
    cenv = dict(env)
    cenv[params[0][1]] = "OptNat"
    cenv[params[1][1]] = "Nat"
    if two:
        if params[2][0] != "ptuple" or len(params[2][1]) != 2 or any(q[0] != "pvar" for q in params[2][1]):
            raise Unsupported("closure parameters")
        for q in params[2][1]:
            cenv[q[1]] = "Elem"
        cur_decl = "(cur__ : Option Rat × Option Rat)"
        cur_pat = "(" + ", ".join(lname(q[1]) for q in params[2][1]) + ")"
    else:
        if params[2][0] != "pvar":
            raise Unsupported("closure parameters")
        cenv[params[2][1]] = "Elem"
        cur_decl = f"({lname(params[2][1])} : Option Rat)"
        cur_pat = None
    outs = [n for n, _, _, _ in state]
    body = clos[2]
    em.nan_vars = nan_assigned(body)
    btxt, bty = em.stmts(body[1], body[2], dict(cenv), outs, "OptF")
    if bty in ("Rat",):
        btxt, bty = em.stmts(body[1], body[2], dict(cenv), outs, "OptF")
    if bty not in ("OptF", "Elem"):
        raise Unsupported(f"closure result type {bty}")
    bparams = "".join(f" ({lname(b)} : Bool)" for b in bools)
    L.append(f"namespace {name}")
    L.append(f"/-- captured `let mut` state of `{name}` -/")
    L.append("structure St where")
    for n, ty, _, _ in state:
        L.append(f"  {lname(n)} : {ty_lean(ty)}")
    L.append("deriving DecidableEq, Repr")

    def prelets(upto=None, skip_mp=False):
        out_ = []
        for n, ty, txt in (pre if upto is None else pre[:upto]):
            if n == "min_periods":
                if skip_mp:
                    continue
                out_.append(f"  let min_periods : Nat := {txt}")
            else:
                out_.append(f"  let {lname(n)} : {ty_lean(ty)} := {txt}")
        return out_
    L.append("def init (len window : Nat) : St :=")
    L.append("  let _ := len; let _ := window")
    # the state initialisers may read the lets before them
    L += [l for l in prelets() if "min_periods" not in l]
    L.append("  { " + ", ".join(f"{lname(n)} := {txt}" for n, _, txt, _ in state) + " }")
    L.append("/-- the entry point's effective window (`let window = …` before the driver call) -/")
    L.append("def effWindow (len window : Nat) : Nat :=")
    L.append("  let _ := len")
    wl = [i for i, (n, _, _) in enumerate(pre) if n == "window"]
    if wl:
        L += prelets(upto=wl[-1] + 1, skip_mp=True)
    L.append("  window")
    L.append("def minPeriods (len window : Nat) (min_periods : Option Nat) : Nat :=")
    L.append("  let _ := len")
    L += prelets()
    L.append("  min_periods")
    L.append(f"def driver : String := \"{call[2]}\"")
    L.append("/-- the whole closure body, in source order; `window` is the requested window, `min_periods` the")
    L.append("value of the `let min_periods` binding -/")
    ysp = " (ys : List (Option Rat))" if two else ""
    L.append(f"def step (sqrt : Rat → Rat) (xs : List (Option Rat)){ysp} (len window min_periods : Nat){bparams} (s : St) "
             f"({lname(params[0][1])} : Option Nat) ({lname(params[1][1])} : Nat) {cur_decl} : St × Option Rat :=")
    L.append("  let _ := sqrt; let _ := xs; let _ := len; let _ := window; let _ := min_periods")
    if cur_pat:
        L.append(f"  let {cur_pat} := cur__")
    L += prelets(skip_mp=True)
    for n, _, _, _ in state:
        L.append(f"  let {lname(n)} := s.{lname(n)}")
    L.append(f"  let {tuple_txt([lname(o) for o in outs] + ['res__'])} :=")
    L.append(indent(btxt, 4))
    L.append("  ({ " + ", ".join(f"{lname(n)} := {lname(n)}" for n in outs) + " }, res__)")
    L.append("def decomposed : Bool := false")
    L.append("def split3 : Bool := false")
    L.append("def parsed : Bool := true")
    L.append(f"end {name}")
    return "\n".join(L)


def translate_fn(name, body_src, sig_src=""):
    if re.search(r"self\s*\.\s*rolling2?_apply_idx\s*\(", body_src):
        return translate_idx_fn(name, body_src, sig_src)
    if not re.search(r"self\s*\.\s*(rolling_apply|rolling2_apply)\s*\(", body_src):
        return None
    blk = P(tokenize(body_src)).block()
    stmts, tail = blk[1], blk[2]
    if tail is None and stmts and stmts[-1][0] == "expr":
        tail = stmts[-1][1]
        stmts = stmts[:-1]
    # the driver call:  self.rolling_apply(window, closure, out)   [.unwrap()]
    call = tail
    while call is not None and call[0] == "mcall" and call[2] in ("unwrap",):
        call = call[1]
    if not (call and call[0] == "mcall" and call[1] == ("path", "self") and call[2] in DRIVERS):
        return None
    arity = DRIVERS[call[2]]
    args = call[3]
    clos = [a for a in args if a[0] == "closure"]
    if len(clos) != 1:
        raise Unsupported("driver call without exactly one closure")
    clos = clos[0]
    em = Emit()
    env = {"window": "Nat", "min_periods": "OptNat"}
    state, consts, L = [], [], []
    mp_txt = None
    for s in stmts:
        if s[0] != "let" or s[1][0] != "pvar":
            raise Unsupported("statement before the driver call")
        n, mut, e = s[1][1], s[2], s[3]
        txt, ty = em.ex(e, env)
        if n == "min_periods":
            if ty != "Nat":
                raise Unsupported("min_periods is not an integer")
            mp_txt = txt
            env[n] = "Nat"
        elif mut:
            state.append((n, ty, txt))
            env[n] = ty
        else:
            consts.append((n, ty, txt))
            env[n] = ty
    if mp_txt is None:
        raise Unsupported("no min_periods binding")
    # closure parameters
    params = clos[1]
    if len(params) != 2:
        raise Unsupported("closure arity")
    body_txt = body_src
    def elem_ty(n):
        return "Elem" if re.search(r"\b" + re.escape(n) + r"\s*\.\s*not_none\s*\(", body_txt) else "Rat"
    cenv = dict(env)
    rm, cur = params
    if rm[0] != "pvar":
        raise Unsupported("first closure parameter")
    if arity == 1:
        if cur[0] != "pvar":
            raise Unsupported("second closure parameter")
        et = elem_ty(cur[1])
        cenv[cur[1]] = et
        cenv[rm[1]] = ("opt", et)
        cur_bind, cur_ty, rm_ty = lname(cur[1]), ty_lean(et), "Option (" + ty_lean(et) + ")"
        cur_pat = None
    else:
        if cur[0] != "ptuple" or len(cur[1]) != 2 or any(q[0] != "pvar" for q in cur[1]):
            raise Unsupported("second closure parameter")
        ets = [elem_ty(q[1]) for q in cur[1]]
        for q, et in zip(cur[1], ets):
            cenv[q[1]] = et
        cenv[rm[1]] = ("opt", ("tuple", tuple(ets)))
        cur_bind = "cur__"
        cur_ty = "(" + " × ".join(ty_lean(t) for t in ets) + ")"
        rm_ty = "Option " + cur_ty
        cur_pat = "(" + ", ".join(lname(q[1]) for q in cur[1]) + ")"
    outs = [n for n, _, _ in state]
    # the closure's result is a float (or tuple of floats) that may be NaN
    body = clos[2]
    try:
        btxt, bty = em.stmts(body[1], body[2], dict(cenv), outs, "OptF")
    except Unsupported:
        raise
    if bty == "Rat":
        btxt, bty = em.stmts(body[1], body[2], dict(cenv), outs, "OptF")
    if isinstance(bty, tuple) and bty[0] == "tuple":
        want = ("tuple", ("OptF",) * len(bty[1]))
        if bty != want:
            btxt, bty = em.stmts(body[1], body[2], dict(cenv), outs, want)
    if bty not in ("OptF",) and not (isinstance(bty, tuple) and all(t == "OptF" for t in bty[1])):
        raise Unsupported(f"closure result type {bty}")
    res_ty = ty_lean(bty)
    L.append(f"namespace {name}")
    L.append(f"/-- captured `let mut` state of `{name}` -/")
    L.append("structure St where")
    for n, ty, _ in state:
        L.append(f"  {lname(n)} : {ty_lean(ty)}")
    L.append("deriving DecidableEq, Repr")
    L.append("def init (window : Nat) : St :=")
    L.append("  let _ := window")
    for n, ty, txt in consts:
        L.append(f"  let {lname(n)} : {ty_lean(ty)} := {txt}")
    L.append("  { " + ", ".join(f"{lname(n)} := {txt}" for n, _, txt in state) + " }")
    L.append("def minPeriods (window : Nat) (min_periods : Option Nat) : Nat :=")
    L.append(f"  {mp_txt}")
    L.append(f"def driver : String := \"{call[2]}\"")
    mk_st = "{ " + ", ".join(f"{lname(n)} := {lname(n)}" for n in outs) + " }"

    def prologue(use_cur=True):
        P_ = ["  let _ := window"]
        for n, ty, txt in consts:
            P_.append(f"  let {lname(n)} : {ty_lean(ty)} := {txt}")
        for n, _, _ in state:
            P_.append(f"  let {lname(n)} := s.{lname(n)}")
        if cur_pat and use_cur:
            P_.append(f"  let {cur_pat} := cur__")
        return P_

    L.append(f"/-- the whole closure body, in source order -/")
    L.append(f"def step (sqrt : Rat → Rat) (window min_periods : Nat) (s : St) ({lname(rm[1])} : {rm_ty}) ({cur_bind} : {cur_ty}) : St × {res_ty} :=")
    L.append("  let _ := sqrt; let _ := min_periods")
    L += prologue()
    L.append(f"  let {tuple_txt([lname(o) for o in outs] + ['res__'])} :=")
    L.append(indent(btxt, 4))
    L.append(f"  ({mk_st}, res__)")

    # ---- decomposition  step = (post ∘ pre).  `post` is the closure's last statement when that is
    # `if let Some(..) = <removed>`; `pre` is everything before it plus the tail expression, which
    # must not read anything `post` assigns.
    ss, tl = body[1], body[2]
    decomposed = False
    split3 = False
    if ss and ss[-1][0] == "expr" and ss[-1][1][0] == "iflet" and ss[-1][1][2] == ("path", rm[1]) and tl is not None:
        post_stmt = ss[-1]
        pre_ss = ss[:-1]
        post_assigned = assigned_outer(post_stmt[1])
        if not (set(free_names(tl)) & set(post_assigned)) and rm[1] not in free_names(("block", pre_ss, tl)):
            want = bty
            pre_txt, pre_ty = em.stmts(pre_ss, tl, dict(cenv), outs, want)
            post_txt, post_ty = em.stmts([post_stmt], None, dict(cenv), outs, None)
            if pre_ty == bty and post_ty is None:
                decomposed = True
                L.append("/-- everything before the removal statement, and the closure's result -/")
                L.append(f"def pre (sqrt : Rat → Rat) (window min_periods : Nat) (s : St) ({cur_bind} : {cur_ty}) : St × {res_ty} :=")
                L.append("  let _ := sqrt; let _ := min_periods")
                L += prologue()
                L.append(f"  let {tuple_txt([lname(o) for o in outs] + ['res__'])} :=")
                L.append(indent(pre_txt, 4))
                L.append(f"  ({mk_st}, res__)")
                L.append("/-- the removal statement (last statement of the closure) -/")
                L.append(f"def post (window : Nat) (s : St) ({lname(rm[1])} : {rm_ty}) : St :=")
                L += prologue(use_cur=False)
                L.append(f"  let {tuple_txt([lname(o) for o in outs])} :=")
                L.append(indent(post_txt, 4))
                L.append(f"  {mk_st}")
                # case splits that make both sides reduce
                if arity == 1:
                    cs_v = f"rcases {cur_bind} with _ | _" if cenv[cur[1]] == "Elem" else "skip"
                    cs_rm = f"rcases {lname(rm[1])} with _ | _ | _" if cenv[cur[1]] == "Elem" else f"rcases {lname(rm[1])} with _ | _"
                else:
                    pv = ", ".join("_ | _" if t == "Elem" else "_" for t in ets)
                    cs_v = f"rcases cur__ with ⟨{pv}⟩"
                    cs_rm = f"rcases {lname(rm[1])} with _ | ⟨{pv}⟩"
                L.append(f"theorem step_eq (sqrt : Rat → Rat) (window min_periods : Nat) (s : St) ({lname(rm[1])} : {rm_ty}) ({cur_bind} : {cur_ty}) :")
                L.append(f"    step sqrt window min_periods s {lname(rm[1])} {cur_bind} =")
                L.append(f"      (post window (pre sqrt window min_periods s {cur_bind}).1 {lname(rm[1])}, (pre sqrt window min_periods s {cur_bind}).2) := by")
                L.append(f"  {cs_v} <;> {cs_rm} <;> rfl")
                # ---- pre = (add, emit): the last statement of `pre` is a `let` that assigns no state
                if pre_ss and pre_ss[-1][0] == "let" and not [o for o in assigned_outer(pre_ss[-1][3]) if o in outs] \
                        and not (set(declared(pre_ss[:-1])) & set(free_names(("block", [pre_ss[-1]], tl)))):
                    add_txt, add_ty = em.stmts(pre_ss[:-1], None, dict(cenv), outs, None)
                    emit_txt, emit_ty = em.stmts([pre_ss[-1]], tl, dict(cenv), [], want)
                    if add_ty is None and emit_ty == bty:
                        split3 = True
                        L.append("/-- the statements before the result is computed -/")
                        L.append(f"def add (window : Nat) (s : St) ({cur_bind} : {cur_ty}) : St :=")
                        L += prologue()
                        L.append(f"  let {tuple_txt([lname(o) for o in outs])} :=")
                        L.append(indent(add_txt, 4))
                        L.append(f"  {mk_st}")
                        L.append("/-- the result, computed from the state after `add` -/")
                        L.append(f"def emit (sqrt : Rat → Rat) (window min_periods : Nat) (s : St) ({cur_bind} : {cur_ty}) : {res_ty} :=")
                        L.append("  let _ := sqrt; let _ := min_periods")
                        L += prologue()
                        L.append(indent(emit_txt, 2))
                        L.append(f"theorem pre_eq (sqrt : Rat → Rat) (window min_periods : Nat) (s : St) ({cur_bind} : {cur_ty}) :")
                        L.append(f"    pre sqrt window min_periods s {cur_bind} =")
                        L.append(f"      (add window s {cur_bind}, emit sqrt window min_periods (add window s {cur_bind}) {cur_bind}) := by")
                        L.append(f"  {cs_v} <;> rfl")
    L.append(f"def decomposed : Bool := {'true' if decomposed else 'false'}")
    L.append(f"def split3 : Bool := {'true' if split3 else 'false'}")
    L.append("def parsed : Bool := true")
    L.append(f"end {name}")
    return "\n".join(L)


def free_names(node):
    acc = []

    def walk(x):
        if isinstance(x, tuple):
            if x and x[0] == "path":
                acc.append(x[1])
                return
            for y in x[1:]:
                walk(y)
        elif isinstance(x, list):
            for y in x:
                walk(y)
    walk(node)
    return acc


def main():
    out = ["/- GENERATED by translator/closures.py from the Rust sources — do not edit. -/",
           "import Tv.GenPrelude", "import Tv.GenAgg", "set_option linter.unusedVariables false", "namespace Tv.Gen", ""]
    m = re.search(r"pub const EPS:\s*f64\s*=\s*([0-9.eE+-]+)\s*;",
                  open(os.path.join(repo, "tea-core/src/prelude.rs"), encoding="utf-8").read())
    from fractions import Fraction
    eps = Fraction(m.group(1)) if m else Fraction(0)
    out.append(f"def EPS : Rat := ({eps.numerator} : Rat) / {eps.denominator}\n")
    names = []
    for rel in FILES:
        try:
            src = open(os.path.join(repo, rel), encoding="utf-8", errors="replace").read()
        except FileNotFoundError:
            continue
        for name, body, sig in fn_bodies(src):
            try:
                txt = translate_fn(name, body, sig)
            except Unsupported as ex:
                reason = str(ex).replace('"', "'")
                txt = (f"namespace {name}\n/- UNPARSED: {reason} -/\ndef parsed : Bool := false\n"
                       f"def reason : String := \"{reason}\"\nend {name}")
            except Exception as ex:     # tokenizer / parser crash: fail closed as well
                reason = (type(ex).__name__ + ": " + str(ex)).replace('"', "'")
                txt = (f"namespace {name}\n/- UNPARSED: {reason} -/\ndef parsed : Bool := false\n"
                       f"def reason : String := \"{reason}\"\nend {name}")
            if txt is None:
                continue
            names.append(name)
            out.append(f"/-! `{name}` ({rel}) -/")
            out.append(txt)
            out.append("")
    out.append("def closures : List String := [" + ", ".join(f'"{n}"' for n in names) + "]")
    out.append("\nend Tv.Gen")
    new = "\n".join(out) + "\n"
    try:
        old = open(outp, encoding="utf-8").read()
    except FileNotFoundError:
        old = None
    if old != new:
        open(outp, "w", encoding="utf-8").write(new)
    print(f"closures.py: {len(names)} closures -> {outp}")


if __name__ == "__main__":
    main()
