import Tv.Model.Basic
import Tv.Model.Features
import Tv.Spec.Stats
import Tv.Proto
import Tv.Lemmas.Driver
