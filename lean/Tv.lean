import Tv.Model.Basic
import Tv.Model.Features
import Tv.Spec.Stats
import Tv.Proto
import Tv.Lemmas.Driver
import Tv.Model.C19Gen
import Tv.Spec.C19Gen
