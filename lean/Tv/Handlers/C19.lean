import Tv.Proto
import Tv.Model.C19Gen
import Tv.Spec.C19Gen
/-!
  driver handler for C19 (generators and collectors)

  requests
    range     t=<i32|i64|usize|f64> oc=<vec|deque|nd> a= b= step=
    linspace  t=..  oc=..  a= b= n=
    full      t=<i64|f64> oc=.. len= v=
    empty     oc=..
    collect   m=<plain|trusted|withlen|opt> oc=.. xs=<items, `_` = None for m=opt>
    try_collect m=<plain|trusted> oc=.. xs=<items, `E<k>` = Err(k)>
    write     oc=<log|vec|deque|nd> len= xs=
-/
namespace Tv.Handlers
open Tv Tv.Proto Tv.C19

namespace C19H

def contOf : String → Cont
  | "deque" => .deque
  | "nd" => .nd
  | _ => .vec

def elemSizeOf : String → Nat
  | "i32" => 4
  | _ => 8

def showOutcome (f : α → String) : Outcome (List α) → String
  | .ok l => showList f l
  | .panic => "P"
  | .ub => "UB"

def showInt (i : Int) : String := toString i

/-- items of a fallible source: `E<k>` is `Err(k)`, anything else a value -/
def parseTry (s : String) : List (Except String Rat) :=
  (splitList s).map fun t =>
    if t.startsWith "E" then .error (t.drop 1).toString
    else .ok ((parseRat t).getD 0)

def showTry (r : Except String (List Rat)) (consumed : Nat) : String :=
  (match r with
   | .ok l => showList showRat l
   | .error e => "E:" ++ e) ++ ";" ++ toString consumed

def showStatus : WStatus → String
  | .ok => "ok"
  | .err => "err"
  | .panic => "P"

def showSlot : Option Rat → String
  | none => "U"
  | some q => showRat q

/-- `D` marks a slot written more than once -/
def bufferOf (len : Nat) (ws : List (Nat × Rat)) : String :=
  showList id ((List.range len).map fun i =>
    match ws.filter (·.1 = i) with
    | [] => "U"
    | [(_, v)] => showRat v
    | _ => "D")

def orderOf (ws : List (Nat × Rat)) : String :=
  if ws.isEmpty then "e" else String.intercalate "." (ws.map fun w => toString w.1)

end C19H
open C19H

def c19 (fn : String) (r : Req) : Option (String × String) :=
  let c := contOf (r.str "oc")
  let t := r.str "t" "f64"
  let es := elemSizeOf t
  match fn with
  | "C19rng" => some ("OK", "OK")   -- relational run judged by the harness in the element type's own arithmetic
  | "range" =>
    if t = "f64" || t = "f32" then
      let a := r.rat "a"; let b := r.rat "b"; let st := r.rat "step"
      some (showOutcome showRat (createRange ratOps c es a b st), showList showRat (Spec.rangeRat a b st))
    else
      let a := r.int "a"; let b := r.int "b"; let st := r.int "step"
      some (showOutcome showInt (createRange intOps c es a b st), showList showInt (Spec.rangeInt a b st))
  | "range_pinned" =>
    if t = "f64" then
      let a := r.rat "a"; let b := r.rat "b"; let st := r.rat "step"
      some (showOutcome showRat (createRangePinned ratOps es a b st), showList showRat (Spec.rangeRat a b st))
    else
      let a := r.int "a"; let b := r.int "b"; let st := r.int "step"
      some (showOutcome showInt (createRangePinned intOps es a b st), showList showInt (Spec.rangeInt a b st))
  | "linspace" =>
    let n := r.nat "n"
    if t = "f64" then
      let a := r.rat "a"; let b := r.rat "b"
      some (showOutcome showRat (createLinspace ratOps c es a b n), showList showRat (Spec.linspaceRat a b n))
    else
      let a := r.int "a"; let b := r.int "b"
      some (showOutcome showInt (createLinspace intOps c es a b n), showList showInt (Spec.linspaceInt a b n))
  | "full" =>
    let len := r.nat "len"; let v := r.rat "v"
    some (showOutcome showRat (full c es len v), showList showRat (Spec.full len v))
  | "empty" =>
    some (showList showRat (empty c), "[]")
  | "collect" =>
    let xs := r.series "xs"
    match r.str "m" with
    | "opt" =>
      -- element type `Option Rat` with null `none`; the source yields `Option<T>`
      let src : Iter (Option (Option Rat)) := Iter.exact (xs.map fun o => o.map some)
      some (showList showOptRat (collectFromOptIter c none src),
            showList showOptRat (Spec.optEncode none (xs.map fun o => o.map some)))
    | "plain" =>
      -- the harness feeds a source whose upper bound is unknown (`filter`)
      some (showList showOptRat (collectFromIter c ⟨xs, none⟩), showList showOptRat xs)
    | "trusted" =>
      some (showOutcome showOptRat (collectFromTrusted c es (Iter.exact xs)), showList showOptRat xs)
    | "withlen" =>
      some (showOutcome showOptRat (collectWithLen c es ⟨xs, none⟩ xs.length), showList showOptRat xs)
    | _ => none
  | "try_collect" =>
    let xs := parseTry (r.str "xs")
    match r.str "m" with
    | "plain" =>
      let res := tryCollectFromIter c ⟨xs, none⟩
      some (showTry res.result res.consumed, showTry (Spec.tryCollect xs) (Spec.consumed xs))
    | "trusted" =>
      let s := showTry (Spec.tryCollect xs) (Spec.consumed xs)
      match tryCollectFromTrusted c es (Iter.exact xs) with
      | .ok res => some (showTry res.result res.consumed, s)
      | .panic => some ("P", s)
      | .ub => some ("UB", s)
    | _ => none
  | "write" =>
    let xs : List Rat := (r.series "xs").map (·.getD 0)
    let len := r.nat "len"
    let res := writeTrustIter len (Iter.exact xs)
    let sp := Spec.write len xs
    let isLog := r.str "oc" = "log"
    let buf := if isLog ∨ res.status = .ok then bufferOf len res.writes else "?"
    let sbuf := if isLog ∨ sp.1 = .ok then showList showSlot sp.2 else "?"
    some (showStatus res.status ++ ";" ++ buf ++ (if isLog then ";" ++ orderOf res.writes else ""),
          showStatus sp.1 ++ ";" ++ sbuf ++
            (if isLog then ";" ++ (if sp.1 = .ok ∧ len > 0 then String.intercalate "." ((List.range len).map toString) else "e") else ""))
  | _ => none

end Tv.Handlers
