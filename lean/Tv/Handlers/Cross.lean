import Tv.Proto
/-! cross-cutting handlers (C06 relational requests) built on top of the per-function handlers -/
namespace Tv.Handlers
open Tv Tv.Proto

abbrev Handler := String → Req → Option (String × String)

def callBase (base : List Handler) (fn : String) (r : Req) : Option (String × String) :=
  base.findSome? (fun h => h fn r)

def setKey (r : Req) (k v : String) : Req := (r.filter (·.1 ≠ k)) ++ [(k, v)]

def firstGroup (s : String) : List String := splitList ((s.splitOn ";").headD "")

def joinToks (l : List String) : String := showList id l

def cmpPrefix (whole pre : String) (k n : Nat) : String :=
  let a := firstGroup whole
  let b := firstGroup pre
  if b.length ≠ k ∨ a.length ≠ n then s!"LEN:{a.length}:{b.length}"
  else
    match (List.range k).find? (fun i => a[i]? ≠ b[i]?) with
    | some i => s!"DIFF:{i}"
    | none => "EQ"

def c06 (base : List Handler) (fn : String) (r : Req) : Option (String × String) :=
  let f := r.str "f"
  let xs := splitList (r.str "xs")
  let ys := splitList (r.str "ys")
  let two := (r.get "ys").isSome
  let mk (x y : List String) : Req :=
    let q := setKey r "xs" (joinToks x)
    if two then setKey q "ys" (joinToks y) else q
  match fn with
  | "C06pre" =>
    let k := min (r.nat "k") xs.length
    match callBase base f (mk xs ys), callBase base f (mk (xs.take k) (ys.take k)) with
    | some (m1, s1), some (m2, s2) => some (cmpPrefix m1 m2 k xs.length, cmpPrefix s1 s2 k xs.length)
    | _, _ => none
  | "C06hist" =>
    let ha := splitList (r.str "ha")
    let hb := splitList (r.str "hb")
    let ga := splitList (r.str "ga")
    let gb := splitList (r.str "gb")
    let w := r.nat "w" 1
    let from_ := ha.length + (w - 1)
    let tail (o : String) : String := joinToks ((firstGroup o).drop from_)
    match callBase base f (mk (ha ++ xs) (ga ++ ys)), callBase base f (mk (hb ++ xs) (gb ++ ys)) with
    | some (m1, s1), some (m2, s2) =>
      some (if tail m1 = tail m2 then tail m1 else "MODELDIFF", if tail s1 = tail s2 then tail s1 else "SPECDIFF")
    | _, _ => none
  | _ => none

/-- interleave nulls (and, for the other series of a pair, the arbitrary value 7) into a base
series as the mask says: '0' next base element, 'x' null in the first series, 'y' null in the
second, anything else null in both -/
def insertNulls (first : Bool) : List String → List Char → List String
  | base, [] => base
  | base, c :: cs =>
    if c = '0' then
      match base with
      | v :: rest => v :: insertNulls first rest cs
      | [] => insertNulls first [] cs
    else if c = 'x' then (if first then "_" else "7") :: insertNulls first base cs
    else if c = 'y' then (if first then "7" else "_") :: insertNulls first base cs
    else "_" :: insertNulls first base cs

/-- `C08ins f=<fn> ins=<mask> ...`: the model on the base series, provided it agrees with the model
on the series with nulls inserted (`MODELDIFF` otherwise: transparency would be false in the model) -/
def c08 (base : List Handler) (fn : String) (r : Req) : Option (String × String) :=
  -- `C08enc`: the implementation compares its own results under the two input encodings; the
  -- expected answer does not depend on the request
  if fn = "C08enc" then some ("EQ", "EQ") else
  if fn ≠ "C08ins" then none else
  let f := r.str "f"
  let xs := splitList (r.str "xs")
  -- the second series of a pair: `ys`, or the mask `ms` of a masked aggregation
  let k2 := if (r.get "ms").isSome then "ms" else "ys"
  let ys := splitList (r.str k2)
  let two := (r.get k2).isSome
  let mask := (r.str "ins").toList
  let mk (x y : List String) : Req :=
    let q := setKey r "xs" (joinToks x)
    if two then setKey q k2 (joinToks y) else q
  -- position-wise results (vrank): only the entries of the valid elements are compared
  let dropNulls (t : String) : String :=
    if f = "vrank" then joinToks ((splitList t).filter (· ≠ "_")) else t
  let bar (t : String) : String := String.intercalate "|" ((dropNulls t).splitOn ";")
  match callBase base f (mk xs ys), callBase base f (mk (insertNulls true xs mask) (insertNulls false ys mask)) with
  | some (m1, s1), some (m2, s2) =>
    some (if bar m1 = bar m2 then bar m1 else "MODELDIFF:" ++ bar m1 ++ ":" ++ bar m2,
          if bar s1 = bar s2 then bar s1 else "SPECDIFF:" ++ bar s1 ++ ":" ++ bar s2)
  | _, _ => none

end Tv.Handlers
