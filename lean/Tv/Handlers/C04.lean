import Tv.Proto
import Tv.Model.C04
import Tv.Spec.C04
/-! driver handlers: rolling covariance / correlation / regressions (C04) -/
namespace Tv.Handlers
open Tv Tv.Proto Tv.C04

def fn2Of : String → Option Fn2
  | "ts_vcov" => some .cov
  | "ts_vcorr" => some .corr
  | "ts_vregx_alpha" => some .alpha
  | "ts_vregx_beta" => some .beta
  | "ts_vregx_resid_mean" => some .residMean
  | "ts_vregx_resid_std" => some .residStd
  | "ts_vregx_resid_skew" => some .residSkew
  | _ => none

def fn1Of : String → Option Fn1
  | "ts_vreg" => some .reg
  | "ts_vtsf" => some .tsf
  | "ts_vreg_slope" => some .slope
  | "ts_vreg_intercept" => some .intercept
  | "ts_vreg_resid_mean" => some .residMean
  | _ => none

def spec2 (f : Fn2) (m : Nat) : List (Rat × Rat) → Out :=
  match f with
  | .cov => C04.Spec.cov m
  | .corr => C04.Spec.corr m
  | .alpha => C04.Spec.regxAlpha m
  | .beta => C04.Spec.regxBeta m
  | .residMean => C04.Spec.regxResidMean m
  | .residStd => C04.Spec.regxResidStd m
  | .residSkew => C04.Spec.regxResidSkew m

def spec1 (f : Fn1) (m : Nat) : List Rat → Out :=
  match f with
  | .reg => C04.Spec.trendFitted m
  | .tsf => C04.Spec.trendForecast m
  | .slope => C04.Spec.trendSlope m
  | .intercept => C04.Spec.trendIntercept m
  | .residMean => C04.Spec.trendMsr m

def c04 (fn : String) (r : Req) : Option (String × String) :=
  -- relational run on windows of tens of thousands of observations, judged by the harness against a
  -- from-scratch fit on the implementation alone
  -- (`c05_i64`: the same kind of run for `ts_vminmaxnorm` on 64-bit integers above 2^53, C05)
  if fn = "c04_big" ∨ fn = "c05_i64" then some ("OK", "OK") else
  let xs := r.series "xs"
  let w := r.nat "w" 1
  let mp := r.optNat "mp"
  match fn1Of fn with
  | some f =>
    some (showOuts (ts1 f r.shape xs w mp),
          showOuts (C04.Spec.rolling1 (spec1 f (effMp mp w 0)) xs w))
  | none =>
    let ys := r.series "ys"
    match fn2Of fn with
    | some f =>
      some (showOuts (ts2 f r.shape xs ys w mp),
            showOuts (C04.Spec.rolling2 (spec2 f (effMp mp w f.minK)) xs ys w))
    | none =>
      match fn with
      | "ts_vregx_all" =>
        let m := tsRegxAll r.shape xs ys w mp
        let e := effMp mp w 0
        some (showOuts (m.map (·.1)) ++ ";" ++ showOuts (m.map (·.2.1)) ++ ";" ++ showOuts (m.map (·.2.2)),
              showOuts (C04.Spec.rolling2 (C04.Spec.regxAlpha e) xs ys w) ++ ";" ++
              showOuts (C04.Spec.rolling2 (C04.Spec.regxBeta e) xs ys w) ++ ";" ++
              showOuts (C04.Spec.rolling2 (C04.Spec.regxSse e) xs ys w))
      | "ts_vcov_pinned" =>
        some (match tsCovPinned r.shape xs ys w mp with
              | some o => showOuts o
              | none => "P", "-")
      | "ts_vreg_resid_mean_pinned" =>
        some (showOuts (tsResidMeanPinned r.shape xs w mp), "-")
      | _ => none

end Tv.Handlers
