import Tv.Proto
import Tv.Model.Features
import Tv.Spec.Stats
/-! driver handlers: rolling features (C01, also used by C05/C06/C07/C08) -/
namespace Tv.Handlers
open Tv Tv.Proto

def featOf : String → Option Feat
  | "ts_vsum" | "ts_sum" => some .sum
  | "ts_vmean" | "ts_mean" => some .mean
  | "ts_vewm" | "ts_ewm" => some .ewm
  | "ts_vwma" | "ts_wma" => some .wma
  | "ts_vstd" | "ts_std" => some .std
  | "ts_vvar" | "ts_var" => some .var
  | "ts_vskew" | "ts_skew" => some .skew
  | "ts_vkurt" | "ts_kurt" => some .kurt
  | _ => none

def specFeat (f : Feat) (w : Nat) (mp : Option Nat) (l : List Rat) : Out := Spec.feat f w mp l

/-- from-scratch evaluation of every window -/
def specRolling (xs : List (Option Rat)) (w : Nat) (F : List Rat → Out) : List Out :=
  (List.range xs.length).map fun i => F (vwin xs i w)

def c01 (fn : String) (r : Req) : Option (String × String) :=
  let xs := r.series "xs"
  let w := r.nat "w" 1
  let mp := r.optNat "mp"
  match featOf fn with
  | some f =>
    some (showOuts (tsFeat f r.shape xs w mp), showOuts (specRolling xs w (specFeat f w mp)))
  | none =>
    match fn with
    | "ts_vfdiff" =>
      let d := r.rat "d"
      some (showOuts (tsVfdiff r.shape d xs w mp),
            showOuts (specRolling xs w (Spec.tsVfdiff d (effMp mp w 0))))
    | "ts_fdiff" =>
      let d := r.rat "d"
      let ys := valid xs
      some (showOuts (tsFdiff r.shape d ys w),
            showOuts ((List.range ys.length).map fun i => Spec.tsFdiff d (window ys i w)))
    | _ => none

end Tv.Handlers
