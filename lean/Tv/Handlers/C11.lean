import Tv.Proto
import Tv.Model.C11
import Tv.Spec.C11
/-! driver handler: aggregations (C11). Request names are `agg_<method>`. The key `ps`
(permutation seed, used by the harness to shuffle the input of the symmetric aggregations
before calling the real code) is ignored here: model and spec are evaluated on the series
as given, which is what permutation invariance means. -/
namespace Tv.Handlers
open Tv Tv.Proto

namespace C11H

def bools (l : List (Option Rat)) : List (Option Bool) := l.map (·.map (· ≠ 0))

def showOptOut : Option Rat → String
  | none => "_"
  | some q => showRat q

def showOO : Option (Option Rat) → String
  | some (some q) => showRat q
  | _ => "_"

def pair (a b : Out) : String := showOut a ++ "," ++ showOut b

def nOut (p : Nat × Out) : String := toString p.1 ++ ";" ++ showOut p.2

end C11H

open C11H in
def c11 (fn : String) (r : Req) : Option (String × String) :=
  let xs := r.series "xs"
  let ys := r.series "ys"
  let mp := r.nat "mp"
  let v := r.optRat "v"
  let pl := valid xs        -- plain family: null-free input
  let bs := bools xs
  let ms := bools (r.series "ms")
  match fn with
  | "agg_count_valid" | "agg_count" => some (toString (C11.countValid xs), toString (C11.Spec.countValid xs))
  | "agg_count_none" => some (toString (C11.countNone xs), toString (C11.Spec.countNone xs))
  | "agg_vcount_value" => some (toString (C11.vcountValue v xs), toString (C11.Spec.countValue v xs))
  | "agg_vfirst" => some (showOO (C11.vfirst xs), showOptOut (C11.Spec.firstValid xs))
  | "agg_vlast" => some (showOO (C11.vlast xs), showOptOut (C11.Spec.lastValid xs))
  | "agg_vany" => some (showBool (C11.vany bs), showBool (C11.Spec.anyValid bs))
  | "agg_vall" => some (showBool (C11.vall bs), showBool (C11.Spec.allValid bs))
  | "agg_vsum" => some (showOut (C11.vsum xs), showOut (C11.Spec.vsum xs))
  | "agg_vmean" => some (showOut (C11.vmean xs), showOut (C11.Spec.vmean xs))
  | "agg_vmean_var" =>
    let m := C11.vmeanVar mp xs
    let s := C11.Spec.vmeanVar mp xs
    some (pair m.1 m.2, pair s.1 s.2)
  | "agg_vvar" => some (showOut (C11.vvar mp xs), showOut (C11.Spec.vvar mp xs))
  | "agg_vstd" => some (showOut (C11.vstd mp xs), showOut (C11.Spec.vstd mp xs))
  | "agg_vskew" => some (showOut (C11.vskew mp xs), showOut (C11.Spec.vskew mp xs))
  | "agg_vkurt" => some (showOut (C11.vkurt mp xs), showOut (C11.Spec.vkurt mp xs))
  | "agg_vmax" => some (showOptOut (C11.vmax xs), showOptOut (C11.Spec.vmax xs))
  | "agg_vmin" => some (showOptOut (C11.vmin xs), showOptOut (C11.Spec.vmin xs))
  | "agg_vargmax" => some (showOptNat (C11.vargmax xs), showOptNat (C11.Spec.vargmax xs))
  | "agg_vargmin" => some (showOptNat (C11.vargmin xs), showOptNat (C11.Spec.vargmin xs))
  | "agg_vcov" => some (showOut (C11.vcov mp xs ys), showOut (C11.Spec.vcov mp xs ys))
  | "agg_vcorr_pearson" => some (showOut (C11.vcorr mp xs ys), showOut (C11.Spec.vcorr mp xs ys))
  | "agg_n_vsum_filter" =>
    let m := C11.nVsumFilter xs ms
    let s := C11.Spec.nVsumFilter xs ms
    some (toString m.1 ++ ";" ++ showRat m.2, toString s.1 ++ ";" ++ showRat s.2)
  | "agg_n_sum_filter" => some (showOut (C11.nSumFilter xs ms), showOut (C11.Spec.nSumFilter xs ms))
  | "agg_vmean_filter" =>
    some (showOut (C11.vmeanFilter mp xs ms), showOut (C11.Spec.vmeanFilter mp xs ms))
  -- plain family
  | "agg_count_value" =>
    some (toString (C11.countValueP (v.getD 0) pl), toString (C11.Spec.countEq (v.getD 0) pl))
  | "agg_any" => some (showBool (C11.anyP (valid bs)), showBool ((valid bs).contains true))
  | "agg_all" => some (showBool (C11.allP (valid bs)), showBool (!(valid bs).contains false))
  | "agg_first" => some (showOptOut (C11.firstP pl), showOptOut pl.head?)
  | "agg_last" => some (showOptOut (C11.lastP pl), showOptOut pl.getLast?)
  | "agg_n_sum" => some (nOut (C11.nSumP pl), nOut (pl.length, C11.Spec.sumPlain pl))
  | "agg_sum" => some (showOut (C11.sumP pl), showOut (C11.Spec.sumPlain pl))
  | "agg_mean" => some (showOut (C11.meanP pl), showOut (C11.Spec.meanPlain pl))
  | "agg_max" => some (showOptOut (C11.maxP pl), showOptOut (C11.Spec.greatest pl))
  | "agg_min" => some (showOptOut (C11.minP pl), showOptOut (C11.Spec.least pl))
  | "agg_argmax" => some (showOptNat (C11.argmaxP pl), showOptNat (C11.Spec.argmax pl))
  | "agg_argmin" => some (showOptNat (C11.argminP pl), showOptNat (C11.Spec.argmin pl))
  | _ => none

end Tv.Handlers
