import Tv.Proto
/-! driver handlers: the eight rolling drivers with a recording callback (C02) -/
namespace Tv.Handlers
open Tv Tv.Proto

/-- out[i] = ordinal of the callback that wrote slot i (`U` if never written, `D` if twice) -/
def outOf (ws : List Nat) (len : Nat) : String :=
  showList id ((List.range len).map fun i =>
    match (ws.zipIdx.filter (·.1 = i)).map (·.2) with
    | [k] => toString k
    | [] => "U"
    | _ => "D")

/-- mask the start/removed component of the last call when `w > len` (unspecified) -/
def maskLast (w len : Nat) (toks : List (String × String)) : List String :=
  toks.zipIdx.map fun ((a, b), i) => (if w > len ∧ i + 1 = len then "?" else a) ++ ":" ++ b

def sliceTok (l : List Nat) : String := if l.isEmpty then "e" else String.intercalate "." (l.map toString)

def c02 (fn : String) (r : Req) : Option (String × String) :=
  if !(["rolling_apply", "rolling_apply_idx", "rolling2_apply", "rolling2_apply_idx", "rolling_custom",
        "rolling2_custom", "rolling_custom_iter"].contains fn) || (r.get "n").isNone then none else
  let n := r.nat "n"
  let w := r.nat "w" 1
  let sh := r.shape
  let xs : List Nat := (List.range n).map (· + 10)
  let n2 := match r.get "n2" with | some _ => r.nat "n2" | none => n
  let ys : List Nat := (List.range n2).map (· + 50)
  let specIdx := (List.range n).map fun i => (startAt w i, i)
  let out := outOf (writes sh n w) n
  let sout := outOf (List.range n) n
  let fin (m s : List String) := some (showList id m ++ ";" ++ out, showList id s ++ ";" ++ sout)
  match fn with
  | "rolling_apply" =>
    fin (maskLast w n ((applyCalls sh xs w).map fun (rm, v) => (showOptNat rm, toString v)))
        (maskLast w n (specIdx.map fun (s, i) => (showOptNat (s.map (· + 10)), toString (i + 10))))
  | "rolling_apply_idx" =>
    fin (maskLast w n ((idxCalls sh xs w).map fun (s, e, v) => (showOptNat s, s!"{e}:{v}")))
        (maskLast w n (specIdx.map fun (s, i) => (showOptNat s, s!"{i}:{i + 10}")))
  | "rolling2_apply" =>
    fin (maskLast w n ((apply2Calls sh xs ys w).map fun (rm, v) =>
          (match rm with | none => "_" | some (a, b) => s!"{a}.{b}", s!"{v.1}.{v.2}")))
        (maskLast w n (specIdx.map fun (s, i) =>
          (match s with | none => "_" | some k => s!"{k + 10}.{k + 50}", s!"{i + 10}.{i + 50}")))
  | "rolling2_apply_idx" =>
    fin (maskLast w n ((idx2Calls sh xs ys w).map fun (s, e, v) => (showOptNat s, s!"{e}:{v.1}.{v.2}")))
        (maskLast w n (specIdx.map fun (s, i) => (showOptNat s, s!"{i}:{i + 10}.{i + 50}")))
  | "rolling_custom_iter" =>
    some (showList sliceTok (customCalls .iter xs w) ++ ";" ++ outOf (writes .iter n w) n,
          showList sliceTok ((List.range n).map fun i => window xs i w) ++ ";" ++ sout)
  | "rolling_custom" =>
    some (showList sliceTok (customCalls sh xs w) ++ ";" ++ out,
          showList sliceTok ((List.range n).map fun i => window xs i w) ++ ";" ++ sout)
  | "rolling2_custom" =>
    some (showList (fun (p : List Nat × List Nat) => sliceTok p.1 ++ "&" ++ sliceTok p.2) (custom2Calls sh xs ys w) ++ ";" ++ out,
          showList (fun i => sliceTok (window xs i w) ++ "&" ++ sliceTok (window ys i w)) (List.range n) ++ ";" ++ sout)
  | _ => none

end Tv.Handlers
