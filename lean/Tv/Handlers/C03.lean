import Tv.Proto
import Tv.Model.C03Cmp
import Tv.Model.C03Norm
import Tv.Spec.C03Order
/-! driver handler: rolling extrema / arg-extrema / rank / min-max normalisation / z-score (C03) -/
namespace Tv.Handlers
open Tv Tv.Proto Tv.C03

/-- from-scratch evaluation of every window -/
def specWindows (xs : List (Option Rat)) (w : Nat) (F : List (Option Rat) → Out) : List Out :=
  (List.range xs.length).map fun i => F (window xs i w)

def c03 (fn : String) (r : Req) : Option (String × String) :=
  let xs := r.series "xs"
  let w := r.nat "w" 1
  let mp := r.optNat "mp"
  let sh := r.shape
  let cm := cmpMp mp w xs.length
  let nm := normMp mp w
  let fin (m s : List Out) := some (showOuts m, showOuts s)
  match fn with
  | "ts_vmin" => fin (tsVmin sh xs w mp) (specWindows xs w (Spec.tsMin cm))
  | "ts_vmax" => fin (tsVmax sh xs w mp) (specWindows xs w (Spec.tsMax cm))
  | "ts_vargmin" => fin (tsVargmin sh xs w mp) (specWindows xs w (Spec.tsArgmin cm))
  | "ts_vargmax" => fin (tsVargmax sh xs w mp) (specWindows xs w (Spec.tsArgmax cm))
  | "ts_vrank" =>
    let pct := r.str "pct" = "1"
    let rev := r.str "rev" = "1"
    fin (tsVrank sh xs w mp pct rev) (specWindows xs w (Spec.tsRank cm pct rev))
  | "ts_vminmaxnorm" => fin (tsVminmaxnorm sh xs w mp) (specWindows xs w (Spec.tsMinmaxnorm nm))
  | "ts_vzscore" => fin (tsVzscore sh xs w mp) (specWindows xs w (Spec.tsZscore nm))
  -- the pinned (pre-repair) arg functions, for replaying finding F24
  | "ts_vargmin_pinned" => fin (tsVargminPinned sh xs w mp) (specWindows xs w (Spec.tsArgmin cm))
  | "ts_vargmax_pinned" => fin (tsVargmaxPinned sh xs w mp) (specWindows xs w (Spec.tsArgmax cm))
  | _ => none

end Tv.Handlers
