import Tv.Proto
import Tv.Model.C16Time
import Tv.Spec.C16Calendar
/-! driver handler for C16: NaT absorption, unit conversion, calendar round trips
(request shapes are documented in harness/src/props/c16.rs) -/
namespace Tv.Handlers
open Tv Tv.Proto Tv.C16

namespace C16H

def unitOf : String → Option U
  | "s" => some .s | "ms" => some .ms | "us" => some .us | "ns" => some .ns | _ => none

/-- `_` is NaT -/
def rawOf (s : String) : Int := if s = "_" then NaT else s.toInt?.getD 0

def showRaw (x : Int) : String := if x = NaT then "_" else toString x

def showRes : Res Int → String
  | .ok x => showRaw x
  | .panic => "P"

def showTd (t : TD) : String := if t.isNat then "_" else s!"{t.months}:{t.inner}"

def showResTd : Res TD → String
  | .ok t => showTd t
  | .panic => "P"

def showOutcome : Spec.Outcome Int → String
  | .val x => toString x
  | .nat => "_"
  | .unrepresentable => "P"

def showOutcomeTd : Spec.Outcome (Int × Int) → String
  | .val (m, n) => s!"{m}:{n}"
  | .nat => "_"
  | .unrepresentable => "P"

def showFields (t : Int) : String :=
  let (y, m, d, h, mi, s) := Spec.fieldsAt t
  s!"{y}.{m}.{d}.{h}.{mi}.{s}"

def showOptFields : Option Int → String
  | none => "_"
  | some t => showFields t

/-- duration operand: months `mo` (`_` = NaT), length `ds` seconds + `d` nanoseconds -/
def tdOf (r : Req) (mo d : String) (withDs : Bool) : TD :=
  let inner := (if withDs then r.int "dsec" * 1000000000 else 0) + r.int d
  if r.str mo = "_" then ⟨i32Min, inner⟩ else ⟨r.int mo, inner⟩

/-- calendar-month shifts are outside this model (C17); the generator never asks for them on valid operands -/
def noMonths : Int → Int → Option Int := fun _ _ => none

/-- chrono as oracle, model side: `from_timestamp_*` then `timestamp_*` -/
def chronoModel (a b : U) (x : Int) : String :=
  if isNat x then "_" else
  match tryIntoCr a x with
  | none => "na"
  | some t =>
    match fromCr b t with
    | .ok v => toString v
    | .panic => "ovf"

/-- the same observable from the specification -/
def chronoSpec (a b : U) (x : Option Int) : String :=
  match x with
  | none => "_"
  | some v =>
    match Spec.toCalendar a (some v) with
    | none => "na"
    | some t =>
      let c := Spec.unitsAt b t
      if b = .ns ∧ ¬ (-2 ^ 63 ≤ c ∧ c < 2 ^ 63) then "ovf" else toString c

def b01 (b : Bool) : String := if b then "1" else "0"

end C16H
open C16H

def c16 (fn : String) (r : Req) : Option (String × String) :=
  if !fn.startsWith "c16_" then none else
  let u := (unitOf (r.str "ua")).getD .ns
  let x := rawOf (r.str "tx")
  let ox := optOf x
  match fn with
  | "c16_into_unit" =>
    let v := (unitOf (r.str "ub")).getD .ns
    some (s!"{showRes (intoUnit u v x)};{showRes (castUnit u v x)};{chronoModel u v x}",
          s!"{showOutcome (Spec.convert u v ox)};{showOutcome (Spec.convert u v ox)};{chronoSpec u v ox}")
  | "c16_opt_i64" =>
    let o := intoOptI64 x
    -- last field: is the cast to Option<i32>, Option<u64>, Option<usize>, Option<isize>, Option<u8>,
    -- Option<f32>, Option<f64> null? (impl_time_cast!: `if self.is_none() { None } else { Some(self.cast()) }`)
    let nulls (b : Bool) : String := String.intercalate "" (List.replicate 7 (b01 b))
    some (s!"{showOptInt o};{showOptInt o};{b01 (isNat x)};{showRaw (fromOptI64 o)};{showRaw (fromOptI64 o)};{b01 (!isNat x)};{nulls (isNat x)}",
          s!"{showOptInt ox};{showOptInt ox};{b01 ox.isNone};{showOptInt ox};{showOptInt ox};{b01 ox.isSome};{nulls ox.isNone}")
  | "c16_as_cr" =>
    let c := asCr u x
    let back := match c with
      | none => "_"
      | some t => showRes (fromCr u t)
    let sc := Spec.toCalendar u ox
    let sback := match sc with
      | none => "_"
      | some t => showOutcome (Spec.ofCalendar u t)
    some (s!"{showOptInt c};{showOptFields c};{back};{showOptFields c}",
          s!"{showOptInt sc};{showOptFields sc};{sback};{showOptFields sc}")
  | "c16_from_cr" =>
    let t := r.int "sec" * 1000000000 + r.int "nano"
    let m := match fromCr u t with
      | .panic => "P;P"
      | .ok v => s!"{showRaw v};{showOptInt (asCr u v)};{showRes (fromOptCr u (some t))};{showRes (fromOptCr u none)}"
    let s := match Spec.ofCalendar u t with
      | .val v => s!"{v};{showOptInt (Spec.toCalendar u (some v))};{v};_"
      | _ => if Spec.unitsAt u t = -2 ^ 63 then "_;_;_;_" else "P;P"
    some (m, s)
  | "c16_dt_add" | "c16_dt_sub" =>
    let d := tdOf r "mo" "dn" true
    let sgn : Int := if fn = "c16_dt_add" then 1 else -1
    some (showRes (dtShift noMonths sgn u x d), showOutcome (Spec.shift sgn u ox d.toDur))
  | "c16_dt_diff" =>
    let y := rawOf (r.str "ty")
    some (showResTd (dtDiff u x y), showOutcomeTd (Spec.diff u ox (optOf y)))
  | "c16_td_neg" =>
    let d := tdOf r "mo" "dn" true
    some (showResTd (tdNeg d), showOutcomeTd (Spec.neg d.toDur))
  | "c16_td_add" =>
    let d := tdOf r "mo" "dn" true
    let e := tdOf r "mo2" "dn2" false
    some (showResTd (tdAdd d e), showOutcomeTd (Spec.add d.toDur e.toDur))
  | "c16_td_sub" =>
    let d := tdOf r "mo" "dn" true
    let e := tdOf r "mo2" "dn2" false
    some (showResTd (tdSub d e), showOutcomeTd (Spec.sub d.toDur e.toDur))
  | "c16_td_mul" =>
    let d := tdOf r "mo" "dn" true
    some (showResTd (tdMul d (r.int "kf")), showOutcomeTd (Spec.scale d.toDur (r.int "kf")))
  | "c16_time_add" | "c16_time_sub" =>
    let d := tdOf r "mo" "dn" true
    let sgn : Int := if fn = "c16_time_add" then 1 else -1
    some (showRes (timeShift sgn x d), showOutcome (Spec.timeShift sgn ox d.toDur))
  | "c16_time_misc" =>
    let showSn : Option (Int × Int) → String := fun
      | none => "_"
      | some (s, n) => s!"{s}.{n}"
    let o := intoOptI64 x
    some (s!"{showSn (timeAsCr x)};{showOptInt o};{b01 (isNat x)};{showRaw (fromOptI64 o)}",
          s!"{showSn (Spec.timeOfDay ox)};{showOptInt ox};{b01 ox.isNone};{showOptInt ox}")
  | "c16_from_none" =>
    -- a missing number is NaT in every time type: 8 number types x (DateTime, TimeDelta, Time)
    let all := String.ofList (List.replicate 24 '1')
    some (all, all)
  | "c16_cr_range" =>
    some (s!"{crMinNs};{crMaxNs};{showFields crMinNs};{showFields crMaxNs}",
          s!"{Spec.calMinNs};{Spec.calMaxNs};{showFields Spec.calMinNs};{showFields Spec.calMaxNs}")
  | _ => none

end Tv.Handlers
