import Tv.Proto
import Tv.Model.C09Iter
import Tv.Spec.C09Len
/-!
  driver handler for C09 (trusted-length iterators).

  request : `c09 b=<backend> xs=.. ys=.. src=<base>[.<deop>]* ops=<op>[,<op>]* sched=<[FB]*> [bins=.. labels=..]`
  response: `<status>;<h:c:col>,...`  — one triple per point of the consumption schedule:
            upper hint, number of items still to come, outcome of the raw collector at that point
            (`ok` / `skip` = the collector would write out of bounds or expose uninitialised slots).
            status: `ok`, `E` (returned error), `P` (panic), `bad@j:h:c` (stage `j` of the pipeline
            already announces `h` but yields `c`; later stages are not built).
-/
namespace Tv.Handlers
open Tv Tv.Proto Tv.C09

namespace C09H

def optVal (s : String) : Option E :=        -- `Option<T>` argument: `N` = `None`
  if s = "N" then none else some (parseRat s)

def parseSrc (r : Req) (s : String) : Option Src :=
  let xs := r.series "xs"
  let ys := r.series "ys"
  if s = "it" then some (.titer xs)
  else if s = "ch" then some (.chain xs ys)
  else if s = "zp" then some (.zip xs ys)
  else if s.startsWith "lin" then (s.drop 3).toString.toNat?.map .linspace
  else if s.startsWith "rep" then (s.drop 3).toString.toNat?.map .repeatN
  else if s.startsWith "rng" then
    match ((s.drop 3).toString.splitOn ":").map String.toInt? with
    | [some a, some b, some st] => if st = 0 then none else some (.range a b st)
    | _ => none
  else none

def parseDe : String → Option DeOp
  | "rev" => some .rev | "map" => some .map
  | "trust" => some .trust | "nf" => some .next | "nb" => some .nextBack
  | _ => none

def parseBool : String → Option Bool
  | "1" => some true | "0" => some false | _ => none

def parseOp (r : Req) (s : String) : Option Op :=
  match s.splitOn ":" with
  | ["abs"] => some .abs
  | ["vabs"] => some .vabs
  | ["enum"] => some .enumerate
  | ["ffill", v] => some (.ffill (optVal v))
  | ["bfill", v] => some (.bfill (optVal v))
  | ["fill", v] => some (.fill (parseRat v))
  | ["vclip", lo, hi] => some (.vclip (parseRat lo) (parseRat hi))
  | ["shift", n, v] => n.toInt?.map fun n => .shift n (parseRat v)
  | ["vshift", n, v] => n.toInt?.map fun n => .vshift n (optVal v)
  | ["vcut", right, ab] => do
      let right ← parseBool right
      let ab ← parseBool ab
      pure (.vcut ((r.series "bins").filterMap id) ((r.series "labels").filterMap id) right ab)
  | ["take", k] => k.toNat?.map .take
  | ["nx"] => some .next
  | ["chy"] => some (.chainWith (r.series "ys"))
  | ["zpy"] => some (.zipWith (r.series "ys"))
  | ["vdiff", n, v] => n.toInt?.map fun n => .vdiff n (optVal v)
  | ["vpct", n] => n.toInt?.map .vpct
  | ["vargp", k, s, rv] => do pure (.vargPart (← k.toNat?) (← parseBool s) (← parseBool rv))
  | ["vpart", k, s, rv] => do pure (.vpart (← k.toNat?) (← parseBool s) (← parseBool rv))
  | ["wins", _] => some (.winsorize none)
  | ["roll", w] => w.toNat?.map .rolling
  | _ => none

def parsePipe (r : Req) : Option Pipe := do
  let srcToks := (r.str "src").splitOn "."
  let base ← srcToks.head?
  -- `TIter::map`, `iter_cast`, `to_opt_iter`: a `Map` over `titer()`
  let mapped := base = "itm" ∨ base = "itc" ∨ base = "ito"
  let src ← parseSrc r (if mapped then "it" else base)
  let de ← (srcToks.drop 1).mapM parseDe
  let de := if mapped then DeOp.map :: de else de
  let opsS := r.str "ops"
  let ops ← if opsS = "-" ∨ opsS = "" then some [] else (opsS.splitOn ",").mapM (parseOp r)
  pure ⟨src, de, ops⟩

def parseSched (s : String) : List Step :=
  if s = "-" then [] else s.toList.map fun c => if c = 'F' then .f else if c = 'N' then .n else .b

def showPoint (it : It E) (fb : Nat × Nat) : String :=
  let h := showOptNat (it.upper fb.1 fb.2)
  let c := it.len - fb.1 - fb.2
  let col := match collectAfter it fb.1 fb.2 with | .ok _ => "ok" | _ => "skip"
  s!"{h}:{c}:{col}"

/-- model side: evaluate stage by stage, stop at the first stage whose hint is not its count -/
def modelLine (p : Pipe) (sched : List Step) : String :=
  let bad (j : Nat) (it : It E) : Option String :=
    if it.upper 0 0 = some it.len then none else some s!"bad@{j}:{showOptNat (it.upper 0 0)}:{it.len};[]"
  let rec go (j : Nat) (it : It E) : List Op → String
    | [] => "ok;" ++ showList (showPoint it) (points3 it.len sched 0 0)
    | o :: os =>
      match o.eval it with
      | .error e => e ++ ";[]"
      | .ok it' => match bad (j + 1) it' with
        | some s => s
        | none => go (j + 1) it' os
  match bad 0 p.source with
  | some s => s
  | none => go 0 p.source p.ops

def specLine (p : Pipe) (sched : List Step) : String :=
  match p.specLen with
  | none => "E;[]"
  | some l => "ok;" ++ showList (fun (fb : Nat × Nat) => let e := l - fb.1 - fb.2; s!"{e}:{e}:ok") (points3 l sched 0 0)

end C09H

def c09 (fn : String) (r : Req) : Option (String × String) :=
  if fn ≠ "c09" then none else
  match C09H.parsePipe r with
  | none => some ("?", "?")
  | some p =>
    let sched := C09H.parseSched (r.str "sched" "-")
    some (C09H.modelLine p sched, C09H.specLine p sched)

end Tv.Handlers
