import Tv.Proto
import Tv.Model.C17
import Tv.Spec.C17
/-! driver handler for C17: date-time / duration / time-of-day arithmetic -/
namespace Tv.Handlers
open Tv Tv.Proto Tv.C17

namespace C17H

def unitOf (s : String) : TUnit :=
  if s = "s" then .s else if s = "ms" then .ms else if s = "us" then .us else .ns

def getI (r : Req) (k : String) : Int := if r.str k = "_" then nat64 else r.int k

def getTD (r : Req) (mk nk : String) : TD :=
  if r.str mk = "_" then TD.nat else ⟨r.int mk, r.int nk⟩

def showI (v : Int) : String := if v = nat64 then "_" else toString v

def showRes : Res Int → String
  | .ok v => showI v
  | .panic => "P"

def showTD (d : TD) : String := if d.isNat then "_" else s!"{d.months}:{d.inner}"

def showResTD : Res TD → String
  | .ok d => showTD d
  | .panic => "P"

def showDur (d : Spec.Dur) : String := s!"{d.1}:{d.2}"

def isNatS (r : Req) (k : String) : Bool := r.str k = "_"

/-- spec side of the duration laws: `none` = outside the representable range -/
def durSpec (law : String) (a b c : Spec.Dur) (k l : Int) : Option String :=
  let ok (ds : List Spec.Dur) (s : String) : Option String := if ds.all Spec.Dur.ok then some s else none
  let ab := a.add b
  match law with
  | "add" => ok [a, b, ab] (showDur ab)
  | "sub" => let v := a.add b.neg; ok [a, b, v] (showDur v ++ ";" ++ showDur v)
  | "neg" => ok [a] (showDur a.neg ++ ";0:0")
  | "mul" => let v := Spec.Dur.smul k a; ok [a, v] (showDur v)
  | "assoc" => let v := ab.add c; ok [a, b, c, ab, b.add c, v] (showDur v ++ ";" ++ showDur v)
  | "comm" => ok [a, b, ab] (showDur ab ++ ";" ++ showDur ab)
  | "zero" => ok [a] (showDur a ++ ";" ++ showDur a)
  | "distrib" =>
    let v := Spec.Dur.smul k ab
    ok [a, b, ab, Spec.Dur.smul k a, Spec.Dur.smul k b, v] (showDur v ++ ";" ++ showDur v)
  | "scale_add" =>
    let v := Spec.Dur.smul (k + l) a
    if -2147483648 ≤ k + l ∧ k + l ≤ 2147483647 then
      ok [a, Spec.Dur.smul k a, Spec.Dur.smul l a, v] (showDur v ++ ";" ++ showDur v)
    else none
  | _ => none

def durModel (law : String) (a b c : TD) (k l : Int) : String :=
  let two (x y : Res TD) := showResTD x ++ ";" ++ showResTD y
  match law with
  | "add" => showResTD (tdAdd a b)
  | "sub" => two (tdSub a b) (tdAdd a (tdNeg b))
  | "neg" => two (.ok (tdNeg a)) (tdAdd a (tdNeg a))
  | "mul" => showResTD (tdMul a k)
  | "assoc" => two ((tdAdd a b).bind (tdAdd · c)) ((tdAdd b c).bind (tdAdd a ·))
  | "comm" => two (tdAdd a b) (tdAdd b a)
  | "zero" => two (tdAdd a TD.zero) (tdAdd TD.zero a)
  | "distrib" =>
    two ((tdAdd a b).bind (tdMul · k)) ((tdMul a k).bind fun x => (tdMul b k).bind fun y => tdAdd x y)
  | "scale_add" =>
    two (if inI32 (k + l) then tdMul a (k + l) else .panic)
        ((tdMul a k).bind fun x => (tdMul a l).bind fun y => tdAdd x y)
  | _ => "?"

end C17H
open C17H

def c17 (fn : String) (r : Req) : Option (String × String) :=
  let us := r.str "tu" "ns"
  let u := unitOf us
  let M := Spec.mult us
  match fn with
  | "dt_add" | "dt_sub" =>
    let x := getI r "dx"
    let d := getTD r "mo" "ns"
    let sub := fn = "dt_sub"
    let m := showRes (if sub then dtSub u x d else dtAdd u x d)
    let s :=
      if isNatS r "dx" ∨ isNatS r "mo" then "_;_"
      else
        match (if sub then Spec.addInstant us x (-d.months) (-d.inner) else Spec.addInstant us x d.months d.inner) with
        | some v => s!"{v};{v}"
        | none => "-"
    some (m ++ ";" ++ m, s)
  | "dt_add_sub" =>
    let x := getI r "dx"
    let d := getTD r "mo" "ns"
    let m := showRes ((dtAdd u x d).bind (dtSub u · d))
    let s :=
      if isNatS r "dx" ∨ isNatS r "mo" then "_"
      else if d.months = 0 ∧ Spec.instantOk us (x * M) ∧ Spec.instantOk us (x * M + d.inner) then toString x
      else "-"
    some (m, s)
  | "dt_diff_add" =>
    let a := getI r "da"
    let b := getI r "db"
    let df := dtDiff u a b
    let m := showResTD df ++ ";" ++ showRes (df.bind (dtAdd u b ·))
    let s :=
      if isNatS r "da" ∨ isNatS r "db" then "_;_"
      else if Spec.instantOk us (a * M) ∧ Spec.instantOk us (b * M) ∧ Spec.Dur.ok (0, (a - b) * M) then
        s!"0:{(a - b) * M};{a}"
      else "-"
    some (m, s)
  | "td_law" =>
    let law := r.str "law"
    let a := getTD r "mo1" "ns1"
    let b := getTD r "mo2" "ns2"
    let c := getTD r "mo3" "ns3"
    let k := r.int "sk"
    let l := r.int "sl"
    let uses : List String :=
      match law with
      | "neg" | "mul" | "zero" | "scale_add" => ["mo1"]
      | "assoc" => ["mo1", "mo2", "mo3"]
      | _ => ["mo1", "mo2"]
    let anyNat := uses.any (isNatS r)
    let two := !(law = "add" ∨ law = "mul")
    -- NaT operands: the result is NaT provided the other operands stay in range
    let z (d : TD) : Spec.Dur := if d.isNat then (0, 0) else (d.months, d.inner)
    let s :=
      match durSpec law (z a) (z b) (z c) k l with
      | none => "-"
      | some v => if anyNat then (if two then "_;_" else "_") else v
    some (durModel law a b c k l, s)
  | "time_new" =>
    let kind := r.str "kind"
    let h := r.int "hh"
    let mi := r.int "mi"
    let sec := r.int "sec"
    let f := r.int "frac"
    let sub : Int := if kind = "milli" then 1000000 else if kind = "micro" then 1000 else 1
    let t : Res Int :=
      if kind = "hms" then timeFromHms h mi sec
      else if kind = "secs" then timeFromSecs sec f
      else timeFromHmsSub sub h mi sec f
    let m :=
      match t with
      | .panic => "P"
      | .ok t =>
        match timeFields t, timeAsCr t with
        | .ok (a, b, c, d), some p => s!"{t};{a},{b},{c},{d};{timeFromCr p}"
        | _, _ => s!"{t};P,P,P,P;P"
    let s :=
      if kind = "secs" then
        if 0 ≤ sec ∧ sec < 86400 ∧ 0 ≤ f ∧ f < 1000000000 then
          let t := sec * 1000000000 + f
          s!"{t};{sec / 3600},{sec / 60 % 60},{sec % 60},{f};{t}"
        else "-"
      else
        let f := if kind = "hms" then 0 else f * sub
        if 0 ≤ h ∧ h < 24 ∧ 0 ≤ mi ∧ mi < 60 ∧ 0 ≤ sec ∧ sec < 60 ∧ 0 ≤ f ∧ f < 1000000000 then
          let t := Spec.timeOf h mi sec f
          s!"{t};{h},{mi},{sec},{f};{t}"
        else "-"
    some (m, s)
  | "time_shift" =>
    let t := r.int "tod"
    let d := getTD r "mo" "ns"
    let neg := r.str "op" = "sub"
    let r1 := timeShift neg t d
    let back : String :=
      match r1 with
      | .ok v => if v = nat64 then "_" else showRes (timeShift (!neg) v d)
      | .panic => "P"
    let m := match r1 with | .panic => "P" | _ => showRes r1 ++ ";" ++ back
    let v := if neg then t - d.inner else t + d.inner
    let s :=
      if isNatS r "mo" then "_;_"
      else if d.months = 0 ∧ inI64 d.inner ∧ inI64 v ∧ v ≠ nat64 then s!"{v};{t}"
      else "-"
    some (m, s)
  | "dt_trunc" =>
    let x := getI r "dx"
    let d := getTD r "mo" "ns"
    let m := showRes (durationTrunc u x d)
    let t := x * M
    let s :=
      if isNatS r "dx" then "_"
      else if isNatS r "mo" then "-"
      else if d.months = 0 then
        if 0 < d.inner ∧ inI64 d.inner ∧ inI64 t ∧ Spec.instantOk us (Spec.truncFixed t d.inner) then
          showRat ((Spec.truncFixed t d.inner : Int) / (M : Rat))
        else "-"
      else if 0 < d.months ∧ d.inner = 0 ∧ 12 % d.months = 0 ∧ Spec.instantOk us t then
        let v := Spec.truncMonths t d.months
        if Spec.instantOk us v then toString (Spec.floorUnit M v) else "-"
      else "-"
    some (m, s)
  | "dt_trunc_pinned" =>
    -- replay of the pinned (pre-repair) body: model only
    let x := getI r "dx"
    let d := getTD r "mo" "ns"
    some (showRes (durationTruncPinned u x d), "-")
  | _ => none

end Tv.Handlers
