import Tv.Proto
import Tv.Model.C12
import Tv.Spec.C12
/-! driver handler: quantile / median / percentile-of-score / rank / partition / arg-partition (C12) -/
namespace Tv.Handlers
open Tv Tv.Proto Tv.C12

namespace C12H

def qMethod : String → QMethod × Spec.Interp
  | "lower" => (.lower, .lower)
  | "higher" => (.higher, .higher)
  | "midpoint" => (.midpoint, .midpoint)
  | _ => (.linear, .linear)

def pMethod : String → PMethod × Spec.PKind
  | "weak" => (.weak, .weak)
  | "strict" => (.strict, .strict)
  | _ => (.rank, .rank)

def showRes : Res → String
  | .err => "E"
  | .panic => "P"
  | .ok o => showOut o

def showSlot : Option Out → String
  | none => "U"
  | some o => showOut o

partial def isPow2 (n : Nat) : Bool := n = 1 ∨ (n ≠ 0 ∧ n % 2 = 0 ∧ isPow2 (n / 2))

/-- DESIGN 5.5: when `(n-1)·q` is an integer `t` but `q` is not a binary fraction, the f64 product may
fall on either side of `t`; the two neighbouring evaluations `(t-1, t, frac 1)` and `(t, t+1, frac 0)` -/
def nearAlts (xs : List Elem) (q : Rat) (m : Spec.Interp) : Option (Out × Out) :=
  let v := Spec.sortedValid xs false
  let n := v.length
  if n < 2 ∨ q < 0 ∨ q > 1 then none else
  let t : Rat := ((n - 1 : Nat) : Rat) * q
  if t.den ≠ 1 ∨ isPow2 q.den then none else
  let k := t.floor.toNat
  let ev (lo hi : Nat) (frac : Rat) : Out :=
    match v[lo]?, v[hi]? with
    | some a, some b =>
      (match m with
       | .linear => .val (a + (b - a) * frac)
       | .lower => .val a
       | .higher => .val b
       | .midpoint => .val ((a + b) / 2))
    | _, _ => .null
  let below := if k ≥ 1 then ev (k - 1) k 1 else ev k k 0
  let above := if k + 1 < n then ev k (k + 1) 0 else ev k k 0
  some (below, above)

/-- canonical form of an unordered result: ascending, nulls last -/
def canon (l : List Elem) : List Elem := isort (leE false) l

def showElems (l : List Elem) : String := showList showOptRat l

/-- checks on an arg-partition result: non-negative entries are in range, point at non-null elements,
are pairwise distinct, and every `-1` comes after them -/
def argOk (xs : List Elem) (idx : List Int) : Bool :=
  let nonneg := idx.filter (· ≥ 0)
  let inRange := nonneg.all fun i => (xs.getD i.toNat none).isSome ∧ i.toNat < xs.length
  let distinct := nonneg.eraseDups.length = nonneg.length
  let padLast := (idx.dropWhile (· ≥ 0)).all (· = -1)
  inRange && distinct && padLast

def argVals (xs : List Elem) (idx : List Int) : List Elem :=
  idx.map fun i => if i < 0 then none else xs.getD i.toNat none

end C12H

open C12H in
def c12 (fn : String) (r : Req) : Option (String × String) :=
  let xs := r.series "xs"
  let S := Std.exec
  match fn with
  | "vquantile" =>
    let q := r.rat "q"
    let (mm, sm) := qMethod (r.str "m")
    let model := showRes (vquantile S xs q mm)
    let spec := if 0 ≤ q ∧ q ≤ 1 then showOut (Spec.quantile xs q sm) else "E"
    match nearAlts xs q sm with
    | none => some (model, spec)
    | some (a, b) =>
      let alts := ";" ++ showOut a ++ ";" ++ showOut b
      some (model ++ alts, spec ++ alts)
  | "vmedian" =>
    some (showRes (vmedian S xs), showOut (Spec.median xs))
  | "vpercentile_of" =>
    let score := r.optRat "s"
    let (mm, sm) := pMethod (r.str "m")
    some (showOut (vpercentileOf xs score mm), showOut (Spec.percentileOf xs score sm))
  | "vrank" =>
    let pct := r.str "pct" = "1"
    let rev := r.str "rev" = "1"
    some (showList showSlot (vrank S xs pct rev), showOuts (Spec.rank xs pct rev))
  | "vpartition" =>
    let k := r.nat "k"
    let sort := r.str "sort" = "1"
    let rev := r.str "rev" = "1"
    let fix (l : List Elem) := if sort then l else canon l
    let model := match vpartition S xs k sort rev with
      | none => "P"
      | some l => showElems (fix l)
    some (model, showElems (fix (Spec.partition xs k rev)))
  | "varg_partition" =>
    let k := r.nat "k"
    let sort := r.str "sort" = "1"
    let rev := r.str "rev" = "1"
    let fix (l : List Elem) := if sort then l else canon l
    let model := match vargPartition S xs k sort rev with
      | none => "P"
      | some idx => showElems (fix (argVals xs idx)) ++ ";" ++ showBool (argOk xs idx)
    some (model, showElems (fix (Spec.partition xs k rev)) ++ ";1")
  | _ => none

end Tv.Handlers
