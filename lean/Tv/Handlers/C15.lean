import Tv.Proto
import Tv.Model.C15Cast
import Tv.Model.C15Ord
import Tv.Spec.C15
/-! driver handlers: null / cast algebra (C15). Requests `c15_null`, `c15_cast`, `c15_ord`;
value tokens are exact (floats `m·2^e` as `<m>p<e>`), see `harness/src/props/c15.rs`; a spec token
`*` means the property is silent at that position (wildcard of the C15 comparison hook). -/
namespace Tv.Handlers
open Tv Tv.Proto Tv.C15

namespace C15H

def parseFV (s : String) : Option FV :=
  if s == "nan" then some .nan
  else if s == "inf" then some (.inf false)
  else if s == "-inf" then some (.inf true)
  else match s.splitOn "p" with
    | [m, e] => do
      let m ← m.toInt?
      let e ← e.toInt?
      pure (.fin ((m : Rat) * pow2 e))
    | _ => none

/-- number of trailing zero bits (`fuel` ≥ bit length) -/
def tzBits : Nat → Nat → Nat
  | 0, _ => 0
  | fuel + 1, n => if n = 0 ∨ n % 2 = 1 then 0 else tzBits fuel (n / 2) + 1

def showFV : FV → String
  | .nan => "nan"
  | .inf false => "inf"
  | .inf true => "-inf"
  | .fin q =>
    if q = 0 then "0p0" else
    let k := Nat.log2 q.den
    if q.den ≠ 2 ^ k then s!"{q.num}/{q.den}"
    else if k > 0 then s!"{q.num}p-{k}"
    else
      let tz := tzBits (Nat.log2 q.num.natAbs + 1) q.num.natAbs
      s!"{q.num / (2 ^ tz : Int)}p{tz}"

def parseTok (b : Base) (s : String) : Option Val :=
  match b with
  | .f32 | .f64 => (parseFV s).map .flt
  | .bool => if s == "true" then some (.bool true) else if s == "false" then some (.bool false) else none
  | .str | .sref => some (.str s)
  | .dt | .time => if s == "nat" then some (.int i64Min) else s.toInt?.map .int
  | .td =>
    if s == "nat" then some (.td i32Min 0) else
    match s.splitOn "m" with
    | [m, n] => do
      let m ← m.toInt?
      let n ← n.toInt?
      pure (.td m n)
    | _ => none
  | _ => s.toInt?.map .int

def parseXV (t : Ty) (s : String) : Option XV :=
  if t.opt then
    if s == "_" then some (.o none) else (parseTok t.base s).map fun v => .o (some v)
  else (parseTok t.base s).map .v

def showTok (b : Base) : Val → String
  | .int i => if b.isTime && i == i64Min then "nat" else toString i
  | .flt v => showFV v
  | .bool x => if x then "true" else "false"
  | .str s => s
  | .td m n => if m == i32Min then "nat" else s!"{m}m{n}"

def showOptTok (b : Base) : Option Val → String
  | none => "_"
  | some v => showTok b v

def showXV (b : Base) : XV → String
  | .v a => showTok b a
  | .o a => showOptTok b a

def showRes (f : α → String) : Res α → String
  | .ok a => f a
  | .panic => "P"

def showS (f : α → String) : Spec.S α → String
  | .val a => f a
  | .panic => "P"
  | .any => "*"

def showOrd : Ordering → String
  | .lt => "lt" | .eq => "eq" | .gt => "gt"

def hasNumber (b : Base) : Bool := b == .f32 || b == .f64 || b == .i32 || b == .i64 || b == .u64 || b == .usize

/-- the 15 observations of one `IsNone` instance `R` (inner instance `Ri`) on `x` -/
def nullObs (R : NullRepr α Val) (Ri : NullRepr Val Val) (sa : α → String) (b : Base)
    (into : Option (String × String)) (x : α) : List String :=
  let si := showTok b
  let so := showOptTok b
  let abs := if hasNumber b then
      let r := R.vabs (absVal b) x
      [showRes (fun y => showBool (R.isNone y)) r, showRes sa r]
    else ["na", "na"]
  [ showBool (R.isNone x), showBool (R.notNone x), so (R.toOpt x), so (R.asOpt x),
    showRes sa (R.fromOpt (R.toOpt x)), showRes sa ((R.unwrap x).map R.fromInner),
    showRes sa R.noneV, showRes (fun y => showBool (R.isNone y)) R.noneV,
    showRes sa (R.map R .ok x), showRes so (R.map (optionRepr Ri) .ok x), showRes si (R.map Ri .ok x) ]
  ++ abs ++ (match into with | some (p, q) => [p, q] | none => ["na", "na"])

def specAbs (b : Base) (v : Val) : Spec.S Val :=
  match v, b.intTy with
  | .int i, some t => if t.signed && i == t.lo then .any else .val (.int (if i < 0 then -i else i))
  | .flt (.fin q), _ => .val (.flt (.fin (Spec.ratAbs q)))
  | .flt (.inf _), _ => .val (.flt (.inf false))
  | w, _ => .val w

def specNullObs (t : Ty) (x : XV) : List String :=
  let b := t.base
  let vw := Spec.view t x
  let sx := showXV b x
  let nullable := Spec.nullable t
  let abs : List String :=
    if hasNumber b then
      match vw with
      | none => ["1", sx]
      | some v =>
        match specAbs b v with
        | .val w => ["0", showS (showXV b) (Spec.build t (some w))]
        | _ => ["*", "*"]
    else ["na", "na"]
  let into : List String := if !t.opt && b != .sref then [sx, showOptTok b vw] else ["na", "na"]
  [ showBool vw.isNone, showBool vw.isSome, showOptTok b vw, showOptTok b vw,
    sx, (if vw.isSome then sx else "*"),
    showS (showXV b) (Spec.build t none), (if nullable then "1" else "*"),
    sx, showOptTok b vw,
    (match vw with
     | some v => showTok b v
     | none => match Spec.nullOf b with | some n => showTok b n | none => "*") ]
  ++ abs ++ into

end C15H
open C15H

def c15 (fn : String) (r : Req) : Option (String × String) :=
  match fn with
  | "c15_null" =>
    match Ty.ofName (r.str "ty") with
    | none => some ("?type", "?type")
    | some t =>
      match parseXV t (r.str "v") with
      | none => some ("?value", "?value")
      | some x =>
        let b := t.base
        let Ri := reprOf b
        let m : List String :=
          match x with
          | .v a =>
            let into := if b != .sref then some (showTok b (intoCastPlain a), showOptTok b (intoCastOpt Ri a)) else none
            nullObs Ri Ri (showTok b) b into a
          | .o a => nullObs (optionRepr Ri) Ri (showOptTok b) b none a
        let s := specNullObs t x
        some (String.intercalate ";" m, String.intercalate ";" s)
  | "c15_cast" =>
    match Ty.ofName (r.str "s"), Ty.ofName (r.str "d") with
    | some s, some d =>
      match parseXV s (r.str "v") with
      | none => some ("?value", "?value")
      | some x =>
        let cm := showRes (showXV d.base) (castModel s d x)
        let cs := showS (showXV d.base) (Spec.cast s d x)
        some (cm ++ ";" ++ cs, cs ++ ";" ++ cs)
    | _, _ => some ("?type", "?type")
  | "c15_tdopt" => some ("OK", "OK")   -- relational run judged by the harness on the implementation alone
  | "c15_negz" => some ("OK", "OK")    -- relational run (signed zero through the casts), judged likewise
  | "c15_ord" =>
    match Ty.ofName (r.str "ty") with
    | none => some ("?type", "?type")
    | some t =>
      match parseXV t (r.str "p"), parseXV t (r.str "q"), parseXV t (r.str "r") with
      | some a, some b, some c =>
        let l := [a, b, c]
        let pairs := l.flatMap fun x => l.map fun y => (x, y)
        let sh := showRes showOrd
        let g1 := pairs.map fun (x, y) => sh (sortCmpTy t x y)
        let g2 := pairs.map fun (x, y) => sh (sortCmpRevTy t x y)
        let st := showRes (fun (v : List XV) => String.intercalate "," (v.map (showXV t.base)))
        let m := [String.intercalate "," g1, String.intercalate "," g2, st (sortBy (sortCmpTy t) l), st (sortBy (sortCmpRevTy t) l)]
        let vw := Spec.view t
        let s1 := pairs.map fun (x, y) => showOrd (Spec.cmpAsc (vw x) (vw y))
        let s2 := pairs.map fun (x, y) => showOrd (Spec.cmpDesc (vw x) (vw y))
        let ss := fun (v : List XV) => String.intercalate "," (v.map (showXV t.base))
        let s := [String.intercalate "," s1, String.intercalate "," s2, ss (Spec.sorted t false l), ss (Spec.sorted t true l)]
        some (String.intercalate ";" m, String.intercalate ";" s)
      | _, _, _ => some ("?value", "?value")
  | _ => none

end Tv.Handlers
