import Tv.Proto
import Tv.Model.View
/-! accessor table of a coherent view of the logical sequence (C07) -/
namespace Tv.Handlers
open Tv Tv.Proto

def c07 (fn : String) (r : Req) : Option (String × String) :=
  -- `accmut`: the mutable contiguous view (when offered) is the logical sequence; sorting in place
  -- sorts that sequence (null-free series)
  if fn = "accmut" then
    let xs : List Rat := (r.series "xs").map (·.getD 0)
    let line := showList showRat xs ++ ";" ++ showList showRat (xs.mergeSort (fun a b => decide (a ≤ b)))
    some (line, line)
  else
  if fn ≠ "acc" then none else
  let xs := r.series "xs"
  let n := xs.length
  let v := vecView xs
  let gets := (List.range (n + 1)).map fun i => match v.get i with
    | some x => showOptRat x
    | none => "E"
  let slices := (List.range (n + 1)).flatMap fun a => ((List.range (n + 1)).filter (a ≤ ·)).map fun b =>
    let s := v.slice a b
    if s.isEmpty then "e" else String.intercalate "|" (s.map showOptRat)
  let line := String.intercalate ";" [toString v.len, showList id gets, showList showOptRat v.iter,
    showList showOptRat v.iter.reverse, s!"{n}:{n}", showList id slices,
    "S," ++ showList showOptRat xs]
  some (line, line)

end Tv.Handlers
