import Tv.Proto
import Tv.Model.Kernel
/-! driver handler for C10: predicted outcome class and (for the raw drivers on the
instrumented input) the predicted set of unchecked reads -/
namespace Tv.Handlers
open Tv Tv.Proto

def dedupSorted (l : List Nat) : List Nat :=
  (List.range ((l.foldl max 0) + 1)).filter (fun i => l.contains i)

def c10 (fn : String) (r : Req) : Option (String × String) :=
  if fn ≠ "C10" then none else
  let f := r.str "f"
  let len := (splitList (r.str "xs")).length
  let len2 := (splitList (r.str "ys")).length
  let w := r.nat "w" 1
  let isDriver := ["rolling_apply", "rolling_apply_idx", "rolling2_apply", "rolling2_apply_idx",
                   "rolling_custom", "rolling2_custom"].contains f
  let isKernel := ["vrank", "varg_partition", "vpartition", "vquantile"].contains f
  let two := ["rolling2_apply", "rolling2_apply_idx", "rolling2_custom"].contains f || (r.get "ys").isSome && !isDriver
  let toPath := r.str "p" = "out" || r.str "in" = "vec"
  let degenerate := (!isKernel && w = 0) || (two && len2 ≠ len)
  let outcome := if degenerate then "okP" else "ok"
  let rd :=
    if isDriver && r.str "in" = "log" && f ≠ "rolling_custom" && f ≠ "rolling2_custom" then
      if degenerate then ";rd:*"
      else if toPath then
        let s := dedupSorted (reads .to len w)
        ";rd:" ++ (if (reads .to len w).isEmpty then "e" else String.intercalate "." (s.map toString))
      else ";rd:e"
    else ""
  let line := outcome ++ ";R:ok;S:ok;W:ok" ++ rd
  some (line, line)

end Tv.Handlers
