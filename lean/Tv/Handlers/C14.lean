import Tv.Proto
import Tv.Model.C14Cut
import Tv.Model.C14Unique
import Tv.Spec.C14
/-!
  driver handler for C14: `vcut`, `vsorted_unique_idx`, `vsorted_unique`.

  Values are integers; the tokens `m`, `m1`, `M1`, `M` stand for the element type's minimum,
  its successor, the predecessor of the maximum and the maximum (`t=i32|oi32`: i32;
  `t=f64`: `f64::MIN`, next-up, next-down of `f64::MAX`, `f64::MAX` — all integers).
-/
namespace Tv.Handlers
open Tv Tv.Proto Tv.C14

/-- (MIN, MAX) of the element type -/
def c14Ext (t : String) : Int × Int :=
  if t = "f64" then (-((2:Int)^1024 - 2^971), (2:Int)^1024 - 2^971)
  else (-(2:Int)^31, (2:Int)^31 - 1)

def c14Val (t : String) (s : String) : Option Int :=
  let (mn, mx) := c14Ext t
  let step : Int := if t = "f64" then (2:Int)^971 else 1
  match s with
  | "_" => none
  | "m" => some mn
  | "m1" => some (mn + step)
  | "M1" => some (mx - step)
  | "M" => some mx
  -- the infinities of a float type: non-null values beyond the finite extremes
  | "ni" => some (mn - step)
  | "pi" => some (mx + step)
  | s => s.toInt?

def c14Vals (t : String) (r : Req) (k : String) : List (Option Int) :=
  (splitList (r.str k)).map (c14Val t)

def showItem : Item Int → String
  | .label l => toString l
  | .null => "_"
  | .outside => "E:outside"

def showOutcome : Spec.Outcome Int → String
  | .label l => toString l
  | .null => "_"
  | .outside => "E:outside"
  | .ambiguous => "E:ambiguous"

def c14 (fn : String) (r : Req) : Option (String × String) :=
  let t := r.str "t" "oi32"
  let xs := c14Vals t r "xs"
  match fn with
  | "vcut" =>
    let (mn, mx) := c14Ext t
    let bins := (c14Vals t r "bins").filterMap id
    let labels := r.ints "labels"
    let right := r.str "right" = "1"
    let ab := r.str "ab" = "1"
    let m := match vcut mn mx xs bins labels right ab with
      | none => "E:labels"
      | some l => showList showItem l
    let s := match Spec.cut xs bins labels right ab with
      | none => "E:labels"
      | some l => showList showOutcome l
    -- `oc=`: the items are collected by a fallible collector into an output container: the first
    -- per-element error is the result of the whole call
    let collapse (t : String) : String :=
      if (r.get "oc").isSome && (splitList t).contains "E:outside" then "E:outside" else t
    some (collapse m, collapse s)
  | "vcut_pinned" =>
    let (mn, mx) := c14Ext t
    let bins := (c14Vals t r "bins").filterMap id
    let m := match vcutPinned mn mx xs bins (r.ints "labels") (r.str "right" = "1") (r.str "ab" = "1") with
      | none => "E:labels"
      | some l => showList showItem l
    some (m, "-")
  | "vsorted_unique_idx" =>
    if r.str "keep" = "last" then
      some (showList toString (uniqueIdxLast xs), showList toString (Spec.runEnds xs))
    else
      some (showList toString (uniqueIdxFirst xs), showList toString (Spec.runStarts xs))
  | "vsorted_unique_idx_pinned" =>
    some (showList toString (uniqueIdxLastPinned xs), "-")
  | "vsorted_unique" =>
    some (showList showOptInt (uniqueVals xs), showList showOptInt (Spec.runValues xs))
  | _ => none

end Tv.Handlers
