import Tv.Proto
import Tv.Model.C13MapOps
import Tv.Spec.C13
/-!
  driver handler for C13 (element-wise mapping operations).

  requests (all answer with the output series):
    shift        lag=<int> v=<tok>            xs=..     v: `_` null or a number
    vshift       lag=<int> v=<tok|->          xs=..     v=- : value omitted (None)
    vdiff        lag=<int> v=<tok|->          xs=..
    vpct_change  lag=<int>                    xs=..
    ffill|bfill  v=<tok|->                  xs=..
    ffill_mask|bfill_mask m=<mask> v=<tok|-> xs=..
    fill         v=<tok>                    xs=..
    fill_mask    m=<mask> v=<tok>           xs=..
    vclip        lo=<tok> hi=<tok>          xs=..     `_` = null bound
    abs | vabs                              xs=..
  (the lag key is `lag`, not `n`: `n` is the series length of the C02 requests)
  masks: null, neg (non-null and < 0), nullneg, zero (= 0), all, never
-/
namespace Tv.Handlers
open Tv Tv.Proto

/-- named mask predicates shared with harness/src/props/c13.rs -/
def c13Mask (m : String) (v : Option Rat) : Bool :=
  match m with
  | "null" => v.isNone
  | "neg" => match v with | some x => x < 0 | none => false
  | "nullneg" => match v with | some x => x < 0 | none => true
  | "zero" => v == some 0
  | "all" => true
  | _ => false

/-- `v=-` (or absent): the optional value is omitted; `_`: present and null -/
def c13OptVal (r : Req) (k : String) : Option (Option Rat) :=
  match r.get k with
  | none => none
  | some "-" => none
  | some s => some (parseRat s)

def c13Val (r : Req) (k : String) : Option Rat :=
  match r.get k with
  | none => none
  | some s => parseRat s

def c13 (fn : String) (r : Req) : Option (String × String) :=
  let xs := r.series "xs"
  let n := r.int "lag"
  let fin (m s : List (Option Rat)) := some (showList showOptRat m, showList showOptRat s)
  match fn with
  | "shift" => fin (C13.shift n (c13Val r "v") xs) (C13.Spec.shiftS n (c13Val r "v") xs)
  | "vshift" => fin (C13.vshift n (c13OptVal r "v") xs) (C13.Spec.shiftS n ((c13OptVal r "v").getD none) xs)
  | "vdiff" => fin (C13.vdiff n (c13OptVal r "v") xs) (C13.Spec.diffS n ((c13OptVal r "v").getD none) xs)
  | "vpct_change" => fin (C13.vpctChange n xs) (C13.Spec.pctS n xs)
  | "ffill" => fin (C13.ffill (c13OptVal r "v") xs) (C13.Spec.ffillS Option.isNone ((c13OptVal r "v").getD none) xs)
  | "bfill" => fin (C13.bfill (c13OptVal r "v") xs) (C13.Spec.bfillS Option.isNone ((c13OptVal r "v").getD none) xs)
  | "ffill_mask" =>
    let m := c13Mask (r.str "m")
    fin (C13.ffillMask m (c13OptVal r "v") xs) (C13.Spec.ffillS m ((c13OptVal r "v").getD none) xs)
  | "bfill_mask" =>
    let m := c13Mask (r.str "m")
    fin (C13.bfillMask m (c13OptVal r "v") xs) (C13.Spec.bfillS m ((c13OptVal r "v").getD none) xs)
  | "fill" => fin (C13.fill (c13Val r "v") xs) (C13.Spec.fillS Option.isNone (c13Val r "v") xs)
  | "fill_mask" =>
    let m := c13Mask (r.str "m")
    fin (C13.fillMask m (c13Val r "v") xs) (C13.Spec.fillS m (c13Val r "v") xs)
  | "vclip" => fin (C13.vclip (c13Val r "lo") (c13Val r "hi") xs) (C13.Spec.clipS (c13Val r "lo") (c13Val r "hi") xs)
  | "abs" => fin (C13.abs xs) (C13.Spec.absS xs)
  | "vabs" => fin (C13.vabs xs) (C13.Spec.absS xs)
  | _ => none

end Tv.Handlers
