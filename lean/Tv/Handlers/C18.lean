import Tv.Proto
import Tv.Model.C18Parse
import Tv.Spec.C18Spec
/-!
  driver handlers for C18 (text parsers).  Strings travel as comma separated decimal code
  points (`s=49,100` is "1d", `s=[]` the empty string).

  * `td_parse s=..`    model: `TimeDelta::parse` (repaired scanner) → `V:<months>:<nanos>` | `E:<kind>` | `P`
                       spec : the sum of the terms when the text is a well-formed representable
                              duration string, `-` otherwise (only totality is demanded)
  * `td_total s=..`    `T` (a value or an error) | `P`; the spec is always `T`
  * `dt_parse u=.. s=.. [f=..] cdt=.. cd=..`   `DateTime::<U>::parse`; `cdt`/`cd` are chrono's own
                       answers for this text (NaiveDateTime as `secs:nanos`, NaiveDate as days, `_` = Err)
                       per format — the chrono parameter of the model, supplied by the harness
  * `dt_total ..`      `T` | `P`
  * `dt_rt u=.. v=.. f=<0..10|d> cdt=.. cd=..` format then parse; spec: `v` floored to the format's resolution
  * `dt_rtl u=.. v=.. f=<0..10> cdt=.. cd=..` format with listed rule `f`, parse with the format list
  * `time_parse s=.. [f=..] ct=..`  `Time::parse`; spec for strict `HH:MM:SS[.f]` texts
  * `time_total ..`    `T` | `P`
-/
namespace Tv.Handlers
open Tv Tv.Proto Tv.C18

def c18Chars (r : Req) (k : String) : List Char :=
  (r.ints k).map fun i => Char.ofNat i.toNat

def c18ErrTok : ErrKind → String
  | .num => "E:num" | .nounit => "E:nounit" | .badunit => "E:badunit"
  | .overflow => "E:overflow" | .parse => "E:parse" | .range => "E:range"

def c18ResTok : Res → String
  | .ok m n => s!"V:{m}:{n}"
  | .err k => c18ErrTok k
  | .panic _ => "P"

def c18DtTok : DtRes → String
  | .ok t => s!"V:{t}"
  | .err k => c18ErrTok k
  | .panic _ => "P"

def c18Unit : String → DUnit
  | "s" => .s | "ms" => .ms | "us" => .us | _ => .ns

/-- `secs:nanos` -/
def c18Instant (t : String) : Option Instant :=
  match t.splitOn ":" with
  | [a, b] => do
    let s ← a.toInt?
    let n ← b.toNat?
    pure ⟨s, n⟩
  | _ => none

/-- the chrono parameter: answers per format of `TIME_RULE_VEC` (or the single explicit format) -/
def c18Chrono (r : Req) (fmts : List String) : Chrono :=
  let dts := (splitList (r.str "cdt")).map c18Instant
  let ds := (splitList (r.str "cd")).map (·.toInt?)
  let idx (f : String) : Nat := (fmts.findIdx? (· = f)).getD fmts.length
  { dateTime := fun f => (dts[idx f]?).join
    date := fun f => (ds[idx f]?).join }

def c18Dt (r : Req) : DtRes :=
  let u := c18Unit (r.str "u" "ns")
  match r.get "f" with
  | some f =>
    if f = "d" then dtParse .repaired u (c18Chrono r timeRuleVec) none
    else match f.toNat? with
      | some i =>
        -- one of the listed formats, by index
        let fmt := timeRuleVec.getD i ""
        dtParse .repaired u (c18Chrono r [fmt]) (some fmt)
      | none =>
        -- an explicit format given as code points
        let fmt := String.ofList ((splitList f |>.filterMap (·.toInt?)).map fun i => Char.ofNat i.toNat)
        dtParse .repaired u (c18Chrono r [fmt]) (some fmt)
  | none => dtParse .repaired u (c18Chrono r timeRuleVec) none

def c18Time (r : Req) : DtRes :=
  timeParse (match (r.str "ct").splitOn ":" with
    | [a, b] => do
      let s ← a.toNat?
      let n ← b.toNat?
      pure (s, n)
    | _ => none)

def c18 (fn : String) (r : Req) : Option (String × String) :=
  match fn with
  | "td_parse" =>
    let s := c18Chars r "s"
    let spec := match Spec.expected s with
      | some (m, n) => s!"V:{m}:{n}"
      | none => "-"
    some (c18ResTok (tdParse .repaired s), spec)
  | "td_total" =>
    some (if (tdParse .repaired (c18Chars r "s")).isPanic then "P" else "T", "T")
  | "dt_parse" => some (c18DtTok (c18Dt r), "-")
  | "dt_total" => some (if (c18Dt r).isPanic then "P" else "T", "T")
  | "dt_rt" =>
    let u := c18Unit (r.str "u" "ns")
    let v := r.int "v"
    let fmt := match (r.str "f").toNat? with
      | some i => timeRuleVec.getD i ""
      | none => "%Y-%m-%d %H:%M:%S.%f"
    let step := Spec.fmtStep u.perSec fmt
    some (c18DtTok (c18Dt r),
      if !Spec.rtApplies fmt (v / u.perSec) then "-" else
      match Spec.rtExpected v step with
      | some x => s!"V:{x}"
      | none => "E:range")
  | "dt_rtl" =>
    -- format with the listed rule `f`, parse with the whole format list (`FromStr` / `parse(s, None)`):
    -- the instant floored to the format's resolution must come back whenever the text is unambiguous,
    -- i.e. every listed rule that chrono accepts for it yields that same instant
    let u := c18Unit (r.str "u" "ns")
    let v := r.int "v"
    let fmt := timeRuleVec.getD (r.nat "f") ""
    let step := Spec.fmtStep u.perSec fmt
    let ch := c18Chrono r timeRuleVec
    let spec :=
      if !Spec.rtApplies fmt (v / u.perSec) then "-" else
      match Spec.rtExpected v step with
      | none => "-"
      | some x =>
        let agree := timeRuleVec.all fun f =>
          match tryFmt ch f with
          | none => true
          | some inst => decide (fromCr .repaired u inst = .ok x)
        let any := timeRuleVec.any fun f => (tryFmt ch f).isSome
        if agree && any then s!"V:{x}" else "-"
    some (c18DtTok (dtParse .repaired u ch none), spec)
  | "time_parse" =>
    let spec := if r.get "f" |>.isSome then "-" else
      match Spec.timeExpected (c18Chars r "s") with
      | some n => s!"V:{n}"
      | none => "-"
    some (c18DtTok (c18Time r), spec)
  | "time_total" => some (if (c18Time r).isPanic then "P" else "T", "T")
  | _ => none

end Tv.Handlers
