import Tv.Proto
import Tv.Model.C20
import Tv.Spec.C20
/-! driver handlers: composite analytics (C20): `half_life`, `winsorize`, `vcorr_spearman` -/
namespace Tv.Handlers
open Tv Tv.Proto Tv.C20

def showRes : Res → String
  | .ok n => toString n
  | .panic => "P"
  | .timeout => "T"

def methodOf : String → Option Method
  | "q" => some .quantile
  | "m" => some .median
  | "s" => some .sigma
  | _ => none

/-- strictly increasing test transforms of the harness: 0 identity, 1 `2x+1`, 2 `x³`,
3 `exp` (no rational image: any strictly increasing surrogate has the same ranks —
`Tv.C20.vrank_strictMono` — the model uses the identity) -/
def transform (k : Nat) (x : Rat) : Rat :=
  match k with
  | 1 => 2 * x + 1
  | 2 => x * x * x
  | _ => x

def showSeries (l : List (Option Rat)) : String := showList showOptRat l

def c20 (fn : String) (r : Req) : Option (String × String) :=
  match fn with
  | "half_life" =>
    let len := r.nat "len"
    let c := oracleOfString (r.str "c")
    let m := match r.str "v" with
      | "pinned" => halfLifeOld .pinned c len
      | "swapfixed" => halfLifeOld .swapFixed c len
      | _ => halfLife c len
    -- spec: for a threshold-shaped oracle the first not-above lag capped at len-1; for any other
    -- oracle the property only promises an admissible lag (in range, 0 iff len < 2, a
    -- down-crossing): the model's lag is passed through that guard
    let s :=
      if Spec.thresholdShaped c len then toString (Spec.halfLife c len)
      else match m with
        | .ok k => if Spec.admissible c len k then toString k else s!"inadmissible:{k}"
        | _ => "inadmissible"
    some (showRes m, s)
  | "winsorize" =>
    match methodOf (r.str "m") with
    | none => none
    | some meth =>
      let xs := r.series "xs"
      let p := r.optRat "p"
      let m :=
        if (r.get "lo").isSome then vclip (r.optRat "lo") (r.optRat "hi") xs
        else winsorize sqrtApprox meth p xs
      some (showSeries m, showSeries (Spec.winsorize sqrtApprox meth p xs))
  | "vcorr_spearman" =>
    let xs := r.series "xs"
    let ys := r.series "ys"
    let mp := r.optNat "mp"
    let tx := r.nat "tx"
    let ty := r.nat "ty"
    let xs' := xs.map (Option.map (transform tx))
    let ys' := ys.map (Option.map (transform ty))
    some (showOut (vcorrSpearman xs' ys' mp), showOut (Spec.spearman xs ys mp))
  | _ => none

end Tv.Handlers
