import Tv.Thm.C05
#print axioms Tv.C05.maskTable_matches
#print axioms Tv.C05.feat_len
#print axioms Tv.C05.feat_empty
#print axioms Tv.C05.spec_null_iff
#print axioms Tv.C05.feat_null_iff
#print axioms Tv.C05.minK_le_eff
#print axioms Tv.C05.c03_spec_null_below
#print axioms Tv.C05.c03_minmax_nonnull
#print axioms Tv.C05.c03_len
#print axioms Tv.C05.c03_cmp_null_below
#print axioms Tv.C05.c03_norm_null_below
#print axioms Tv.C05.c03_minmax_nonnull_at
