import Tv.Thm.C05
#print axioms Tv.C05.maskTable_matches
#print axioms Tv.C05.feat_len
#print axioms Tv.C05.feat_empty
#print axioms Tv.C05.spec_null_iff
#print axioms Tv.C05.feat_null_iff
#print axioms Tv.C05.minK_le_eff
