import Tv.Thm.C01
#print axioms Tv.C01.tsFeat_exact
#print axioms Tv.C01.tsFeat_length
#print axioms Tv.C01.tsFeat_shape_indep
#print axioms Tv.C01.mom_state_is_window
#print axioms Tv.C01.specVar_textbook
#print axioms Tv.C01.eps_matches
#print axioms Tv.C01.minK_in_table
#print axioms Tv.C01.tsVfdiff_exact
#print axioms Tv.C01.tsFdiff_exact
#print axioms Tv.C01.gbinom_product
#print axioms Tv.C01.fdiffCoef_spec
