import Tv.Thm.C06
#print axioms Tv.C06.feat_prefix
#print axioms Tv.C06.feat_prewindow
#print axioms Tv.windowed_prefix
#print axioms Tv.window_congr
