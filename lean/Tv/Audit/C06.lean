import Tv.Thm.C06
#print axioms Tv.C06.feat_prefix
#print axioms Tv.C06.feat_prewindow
#print axioms Tv.windowed_prefix
#print axioms Tv.window_congr
#print axioms Tv.C06.prefix_of_windowed
#print axioms Tv.C06.local_of_windowed
#print axioms Tv.C06.c03_cmp_prefix
#print axioms Tv.C06.c03_vmin_prefix_none
#print axioms Tv.C06.c03_norm_prefix
#print axioms Tv.C06.c03_prewindow
