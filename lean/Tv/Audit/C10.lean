import Tv.Thm.C10
import Tv.Thm.C10Gen
import Tv.Thm.C10GenB
import Tv.Thm.C10GenC
#print axioms Tv.C10.reads_in_bounds
#print axioms Tv.C10.writes_once
#print axioms Tv.C10.kernel_range_in_bounds
#print axioms Tv.C10.slices_ok
#print axioms Tv.C10.degenerate_clean
#print axioms Tv.C10.second_series_reads
#print axioms Tv.C10Gen.rolling_apply_to_safe
#print axioms Tv.C10Gen.rolling2_apply_to_safe
#print axioms Tv.C10Gen.rolling_apply_idx_to_safe
#print axioms Tv.C10Gen.rolling2_apply_idx_to_safe
#print axioms Tv.C10Gen.rolling_custom_to_safe
#print axioms Tv.C10GenB.good_snoc
#print axioms Tv.C10GenB.forBreak_inv
#print axioms Tv.C10GenB.loop_inv
#print axioms Tv.C10GenB.write_loop
#print axioms Tv.C10GenB.perm_range_facts
#print axioms Tv.C10GenB.trace_in_bounds
#print axioms Tv.C10GenB.trace_present
#print axioms Tv.C10GenC.reads_le_end
#print axioms Tv.C10GenC.idx_calls_ok
#print axioms Tv.C10GenC.idx2_calls_ok
#print axioms Tv.C10GenC.kernel_reads_in_bounds
#print axioms Tv.C10GenC.kernel2_reads_in_bounds
#print axioms Tv.C10GenC.reads_present
