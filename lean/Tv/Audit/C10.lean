import Tv.Thm.C10
#print axioms Tv.C10.reads_in_bounds
#print axioms Tv.C10.writes_once
#print axioms Tv.C10.kernel_range_in_bounds
#print axioms Tv.C10.slices_ok
#print axioms Tv.C10.degenerate_clean
#print axioms Tv.C10.second_series_reads
