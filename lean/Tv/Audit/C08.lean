import Tv.Thm.C08
import Tv.Thm.C08Gen
#print axioms Tv.C08.decode_float
#print axioms Tv.C08.decode_opt
#print axioms Tv.C08.encodings_agree
#print axioms Tv.C08.isNone_iff_toOpt
#print axioms Tv.C08.vfold_factors
#print axioms Tv.C08.vfold_factors_opt
#print axioms Tv.C08.out_encodings
#print axioms Tv.C08.feat_encoding_indep
#print axioms Tv.C08.feat_valid_only
#print axioms Tv.C08Gen.vapplyN_valid
#print axioms Tv.C08Gen.vfoldN_valid
#print axioms Tv.C08Gen.vfold_valid
#print axioms Tv.C08Gen.vsum_nulls
#print axioms Tv.C08Gen.vmean_nulls
#print axioms Tv.C08Gen.vmean_var_nulls
#print axioms Tv.C08Gen.vvar_nulls
#print axioms Tv.C08Gen.vstd_nulls
#print axioms Tv.C08Gen.vskew_nulls
#print axioms Tv.C08Gen.vmax_nulls
#print axioms Tv.C08Gen.vmin_nulls
#print axioms Tv.C08Gen.fold_complete
#print axioms Tv.C08Gen.vcov_nulls
#print axioms Tv.C08Gen.vcorr_nulls
#print axioms Tv.C08Gen.count_valid_nulls
#print axioms Tv.C08Gen.vquantile_nulls
#print axioms Tv.C08Gen.vmedian_nulls
