import Tv.Thm.C08
#print axioms Tv.C08.decode_float
#print axioms Tv.C08.decode_opt
#print axioms Tv.C08.encodings_agree
#print axioms Tv.C08.isNone_iff_toOpt
#print axioms Tv.C08.vfold_factors
#print axioms Tv.C08.vfold_factors_opt
#print axioms Tv.C08.out_encodings
#print axioms Tv.C08.feat_encoding_indep
#print axioms Tv.C08.feat_valid_only
