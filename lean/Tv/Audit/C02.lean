import Tv.Thm.C02
import Tv.Thm.C02Gen
#print axioms Tv.C02.idx_spec
#print axioms Tv.C02.writes_eq_range
#print axioms Tv.C02.start_spec
#print axioms Tv.C02.start_none_in_warmup
#print axioms Tv.C02.applyCalls_spec
#print axioms Tv.C02.applyCalls_length
#print axioms Tv.C02.idxCalls_spec
#print axioms Tv.C02.customCalls_spec
#print axioms Tv.C02.custom2Calls_spec
#print axioms Tv.C02.reads_in_bounds
#print axioms Tv.C02.stateful_output
#print axioms Tv.run_refines
#print axioms Tv.run_last_rm_irrelevant
#print axioms Tv.C02Gen.rolling_apply_to_eq
#print axioms Tv.C02Gen.rolling_apply_to_panics
#print axioms Tv.C02Gen.rolling2_apply_to_eq
#print axioms Tv.C02Gen.rolling_apply_idx_to_eq
#print axioms Tv.C02Gen.rolling2_apply_idx_to_eq
#print axioms Tv.C02Gen.rolling_custom_to_eq
#print axioms Tv.C02Gen.rolling_apply_to_calls
#print axioms Tv.C02Gen.rolling_apply_to_safe
#print axioms Tv.C02Gen.functions_present
