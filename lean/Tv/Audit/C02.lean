import Tv.Thm.C02
#print axioms Tv.C02.idx_spec
#print axioms Tv.C02.writes_eq_range
#print axioms Tv.C02.start_spec
#print axioms Tv.C02.start_none_in_warmup
#print axioms Tv.C02.applyCalls_spec
#print axioms Tv.C02.applyCalls_length
#print axioms Tv.C02.idxCalls_spec
#print axioms Tv.C02.customCalls_spec
#print axioms Tv.C02.custom2Calls_spec
#print axioms Tv.C02.reads_in_bounds
#print axioms Tv.C02.stateful_output
#print axioms Tv.run_refines
#print axioms Tv.run_last_rm_irrelevant
