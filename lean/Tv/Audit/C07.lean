import Tv.Thm.C07
import Tv.Thm.C07Gen
#print axioms Tv.C07.coherent_vec
#print axioms Tv.C07.coherent_vecdeque
#print axioms Tv.C07.coherent_ndarray
#print axioms Tv.C07.ndarray_pinned_wrong
#print axioms Tv.C07.coherent_arc
#print axioms Tv.C07.coherent_opt
#print axioms Tv.C07.get_spec
#print axioms Tv.C07.algo_view_indep
#print axioms Tv.C07.feat_path_indep
#print axioms Tv.C07Gen.same_reference
#print axioms Tv.C07Gen.ts_vsum_path_indep
#print axioms Tv.C07Gen.ts_vkurt_path_indep
#print axioms Tv.C07Gen.ts_vmax_path_indep
#print axioms Tv.C07Gen.ts_vrank_path_indep
#print axioms Tv.C07Gen.ts_vcov_path_indep
#print axioms Tv.C07Gen.ts_vreg_path_indep
