import Tv.Thm.C07
#print axioms Tv.C07.coherent_vec
#print axioms Tv.C07.coherent_vecdeque
#print axioms Tv.C07.coherent_ndarray
#print axioms Tv.C07.ndarray_pinned_wrong
#print axioms Tv.C07.coherent_arc
#print axioms Tv.C07.coherent_opt
#print axioms Tv.C07.get_spec
#print axioms Tv.C07.algo_view_indep
#print axioms Tv.C07.feat_path_indep
