import Tv.Lemmas.C18Scan
/-! C18 — the scanner on rendered term sequences (`parse_wellformed`). -/
namespace Tv.C18
open Spec

/-! ### character facts -/

theorem digitChar_isDigit (d : Fin 10) : (digitChar d).isDigit = true := by revert d; decide
theorem digitChar_not_alpha (d : Fin 10) : (digitChar d).isAlpha = false := by revert d; decide
theorem digitChar_val (d : Fin 10) : (digitChar d).toNat - 48 = d.val := by revert d; decide
theorem digitChar_ne_minus (d : Fin 10) : digitChar d ≠ '-' := by revert d; decide
theorem digitChar_ne_plus (d : Fin 10) : digitChar d ≠ '+' := by revert d; decide

/-- the characters of the number of a term: sign and digits -/
def numChars (t : Term) : List Char := t.sign.chars ++ (t.d0 :: t.ds).map digitChar

theorem render_eq (t : Term) : t.render = numChars t ++ t.unit.name := rfl

/-- unit names: a first letter and further letters, none of them a digit -/
theorem name_shape (u : TUnit) :
    ∃ l ls, u.name = l :: ls ∧ l.isAlpha = true ∧ l.isDigit = false ∧ ∀ c ∈ ls, c.isAlpha = true := by
  cases u <;> exact ⟨_, _, rfl, by decide, by decide, by decide⟩

/-- the number of a term: a first character followed by digits only -/
theorem numChars_shape (t : Term) :
    ∃ c tl, numChars t = c :: tl ∧ c.isAlpha = false ∧ ∀ x ∈ tl, x.isDigit = true := by
  unfold numChars
  cases h : t.sign
  · refine ⟨digitChar t.d0, t.ds.map digitChar, by simp [Sign.chars], digitChar_not_alpha _, ?_⟩
    intro x hx
    obtain ⟨d, _, rfl⟩ := List.mem_map.mp hx
    exact digitChar_isDigit d
  · refine ⟨'+', (t.d0 :: t.ds).map digitChar, by simp [Sign.chars], by decide, ?_⟩
    intro x hx
    obtain ⟨d, _, rfl⟩ := List.mem_map.mp hx
    exact digitChar_isDigit d
  · refine ⟨'-', (t.d0 :: t.ds).map digitChar, by simp [Sign.chars], by decide, ?_⟩
    intro x hx
    obtain ⟨d, _, rfl⟩ := List.mem_map.mp hx
    exact digitChar_isDigit d

/-! ### `i64::from_str` on a rendered number -/

theorem digitsAcc_map (ds : List (Fin 10)) (acc : Nat) :
    digitsAcc acc (ds.map digitChar) = some (ds.foldl (fun a d => a * 10 + d.val) acc) := by
  induction ds generalizing acc with
  | nil => rfl
  | cons d ds ih =>
    simp only [List.map_cons, digitsAcc, digitChar_isDigit, ↓reduceIte, digitChar_val, List.foldl_cons]
    exact ih _

theorem inI64_eq_i64Ok (x : Int) : inI64 x = i64Ok x := rfl
theorem inI32_eq_i32Ok (x : Int) : inI32 x = i32Ok x := rfl

theorem parseI64_num (t : Term) :
    parseI64 (numChars t) = if inI64 t.value then some t.value else none := by
  unfold numChars Term.value
  cases h : t.sign
  · have h1 := digitChar_ne_minus t.d0
    have h2 := digitChar_ne_plus t.d0
    have := digitsAcc_map (t.d0 :: t.ds) 0
    simp only [List.map_cons] at this
    simp [Sign.chars, parseI64, h1, h2, this, natOf]
  · have := digitsAcc_map (t.d0 :: t.ds) 0
    simp only [List.map_cons] at this
    simp [Sign.chars, parseI64, this, natOf]
  · have := digitsAcc_map (t.d0 :: t.ds) 0
    simp only [List.map_cons] at this
    simp [Sign.chars, parseI64, this, natOf]

/-! ### the inner loop on a unit name -/

theorem unitLoop_nonalpha (ch : Char) (unit : List Char) (start off : Nat) (rest : List Char)
    (h : ch.isAlpha = false) : unitLoop ch unit start off rest = (unit, start, off, rest) := by
  cases rest <;> simp [unitLoop, h]

/-- a run of letters followed by a non-letter: the unit buffer receives the run, the
    non-letter is consumed and `start` points at it -/
theorem unitLoop_run (ls : List Char) :
    ∀ (ch : Char) (acc : List Char) (start off : Nat) (c' : Char) (tl : List Char),
      ch.isAlpha = true → (∀ c ∈ ls, c.isAlpha = true) → c'.isAlpha = false →
      unitLoop ch acc start off (ls ++ c' :: tl) =
        (acc ++ ch :: ls, off + utf8Len ls, off + utf8Len ls + c'.utf8Size, tl) := by
  induction ls with
  | nil =>
    intro ch acc start off c' tl hch _ hc'
    simp only [List.nil_append, unitLoop, hch, ↓reduceIte]
    rw [unitLoop_nonalpha _ _ _ _ _ hc']
    simp [utf8Len]
  | cons l ls ih =>
    intro ch acc start off c' tl hch hls hc'
    simp only [List.cons_append, unitLoop, hch, ↓reduceIte]
    rw [ih l (acc ++ [ch]) off (off + l.utf8Size) c' tl (hls l (by simp))
      (fun c hc => hls c (by simp [hc])) hc']
    simp [utf8Len, Nat.add_assoc]

/-- a run of letters at the end of the text -/
theorem unitLoop_run_end (ls : List Char) :
    ∀ (ch : Char) (acc : List Char) (start off : Nat),
      ch.isAlpha = true → (∀ c ∈ ls, c.isAlpha = true) →
      ∃ start' off', unitLoop ch acc start off ls = (acc ++ ch :: ls, start', off', []) := by
  induction ls with
  | nil =>
    intro ch acc start off hch _
    exact ⟨start, off, by simp [unitLoop, hch]⟩
  | cons l ls ih =>
    intro ch acc start off hch hls
    simp only [unitLoop, hch, ↓reduceIte]
    obtain ⟨s', o', h⟩ := ih l (acc ++ [ch]) off (off + l.utf8Size) (hls l (by simp))
      (fun c hc => hls c (by simp [hc]))
    exact ⟨s', o', by rw [h]; simp⟩

/-! ### skipping digits -/

theorem scan_skip_digits (v : Version) (s : List Char) (st : St) (ds : List Char) :
    ∀ (off : Nat) (rest : List Char), (∀ c ∈ ds, c.isDigit = true) →
      scan v s st off (ds ++ rest) = scan v s st (off + utf8Len ds) rest := by
  induction ds with
  | nil => intro off rest _; simp [utf8Len]
  | cons d ds ih =>
    intro off rest h
    rw [List.cons_append, scan_skip v s st off d _ (Or.inl (h d (by simp)))]
    rw [ih _ _ (fun c hc => h c (by simp [hc]))]
    simp [utf8Len, Nat.add_assoc]

/-! ### the accumulation over a term list, as the scanner performs it -/

/-- what the repaired scanner computes on a rendered term list: per term the `i64` parse,
    the unit arm, and `finish` at the end -/
def runTerms (st : St) : List Term → Res
  | [] => finish .repaired st
  | t :: ts =>
    if inI64 t.value then
      match applyUnit .repaired st t.value t.unit.name with
      | .error e => e
      | .ok st' => runTerms st' ts
    else .err .num

theorem applyUnit_start (st : St) (x : Nat) (n : Int) (u : List Char) :
    applyUnit .repaired { st with start := x } n u =
      match applyUnit .repaired st n u with
      | .error e => .error e
      | .ok s => .ok { s with start := x } := by
  unfold applyUnit
  split
  · rfl
  · simp only
    unfold applyRepaired
    split <;> simp only <;> split <;> rfl

theorem runTerms_start (ts : List Term) :
    ∀ (st : St) (x : Nat), runTerms { st with start := x } ts = runTerms st ts := by
  induction ts with
  | nil => intro st x; rfl
  | cons t ts ih =>
    intro st x
    simp only [runTerms]
    split
    · rw [applyUnit_start]
      cases h : applyUnit .repaired st t.value t.unit.name with
      | error e => rfl
      | ok s => exact ih s x
    · rfl

theorem scan_terms (ts : List Term) :
    ∀ (t : Term) (s pre : List Char) (st : St) (c : Char) (tl : List Char),
      numChars t = c :: tl →
      s = pre ++ t.render ++ render ts →
      st.start = utf8Len pre →
      scan .repaired s st (utf8Len pre + c.utf8Size) (tl ++ t.unit.name ++ render ts)
        = runTerms st (t :: ts) := by
  induction ts with
  | nil =>
    intro t s pre st c tl hnum hs hstart
    obtain ⟨cX, tlX, hshape, hc0, htl0⟩ := numChars_shape t
    rw [hnum] at hshape
    obtain ⟨rfl, rfl⟩ := List.cons.inj hshape
    obtain ⟨l, ls, hname, hl, hld, hls⟩ := name_shape t.unit
    have hcpos := Char.utf8Size_pos c
    rw [List.append_assoc, scan_skip_digits _ _ _ _ _ _ htl0]
    simp only [render, List.append_nil] at hs ⊢
    rw [hname]
    have hsl : slice s st.start (utf8Len pre + c.utf8Size + utf8Len tl) = some (c :: tl) := by
      have := slice_mid pre (c :: tl) t.unit.name
      rw [hs, render_eq, hnum, hstart, ← List.append_assoc]
      simpa [utf8Len, Nat.add_assoc] using this
    have hp := parseI64_num t
    rw [hnum] at hp
    simp only [runTerms]
    by_cases hv : inI64 t.value = true
    · simp only [hv, ↓reduceIte] at hp ⊢
      obtain ⟨s', o', hloop⟩ := unitLoop_run_end ls l [] st.start
        (utf8Len pre + c.utf8Size + utf8Len tl + l.utf8Size) hl hls
      rw [scan_trigger .repaired s st _ l ls (c :: tl) t.value (l :: ls) s' o' []
        hld (by omega) hsl hp (by simpa using hloop) (by simp)]
      rw [hname]
      cases happ : applyUnit .repaired st t.value (l :: ls) with
      | error e => rfl
      | ok st' => simp only [scan_nil]; rfl
    · simp only [hv, Bool.false_eq_true, ↓reduceIte] at hp ⊢
      exact scan_trigger_numfail s st _ l ls (c :: tl) hld (by omega) hsl hp
  | cons t' ts' ih =>
    intro t s pre st c tl hnum hs hstart
    obtain ⟨cX, tlX, hshape, hc0, htl0⟩ := numChars_shape t
    rw [hnum] at hshape
    obtain ⟨rfl, rfl⟩ := List.cons.inj hshape
    obtain ⟨l, ls, hname, hl, hld, hls⟩ := name_shape t.unit
    obtain ⟨c', tl', hnum', hc', _⟩ := numChars_shape t'
    have hcpos := Char.utf8Size_pos c
    rw [List.append_assoc, scan_skip_digits _ _ _ _ _ _ htl0]
    have hr : render (t' :: ts') = c' :: (tl' ++ t'.unit.name ++ render ts') := by
      simp [render, render_eq, hnum']
    rw [hname, hr]
    have hsl : slice s st.start (utf8Len pre + c.utf8Size + utf8Len tl) = some (c :: tl) := by
      have := slice_mid pre (c :: tl) (t.unit.name ++ render (t' :: ts'))
      rw [hs, render_eq, hnum, hstart]
      simpa [utf8Len, Nat.add_assoc] using this
    have hp := parseI64_num t
    rw [hnum] at hp
    simp only [runTerms]
    by_cases hv : inI64 t.value = true
    · simp only [hv, ↓reduceIte] at hp ⊢
      have hloop := unitLoop_run ls l [] st.start
        (utf8Len pre + c.utf8Size + utf8Len tl + l.utf8Size) c'
        (tl' ++ t'.unit.name ++ render ts') hl hls hc'
      rw [List.cons_append, scan_trigger .repaired s st _ l _ (c :: tl) t.value (l :: ls) _ _ _
        hld (by omega) hsl hp (by simpa using hloop) (by simp)]
      rw [hname]
      cases happ : applyUnit .repaired st t.value (l :: ls) with
      | error e => rfl
      | ok st' =>
        simp only
        have hpre : utf8Len (pre ++ t.render)
            = utf8Len pre + c.utf8Size + utf8Len tl + l.utf8Size + utf8Len ls := by
          simp [render_eq, hnum, hname, utf8Len_append, utf8Len, Nat.add_assoc]
        rw [← hpre]
        have := ih t' s (pre ++ t.render) { st' with start := utf8Len (pre ++ t.render) } c' tl' hnum'
          (by rw [hs]; simp [render]) rfl
        rw [List.append_assoc] at this
        rw [this, runTerms_start (t' :: ts') st' _]
        simp only [runTerms]
    · simp only [hv, Bool.false_eq_true, ↓reduceIte] at hp ⊢
      exact scan_trigger_numfail s st _ l _ (c :: tl) hld (by omega) hsl hp

/-- the repaired parser on any rendered term list -/
theorem tdParse_render (ts : List Term) : tdParse .repaired (render ts) = runTerms {} ts := by
  cases ts with
  | nil => simp [tdParse, render, scan_nil, runTerms]
  | cons t ts =>
    obtain ⟨c, tl, hnum, _, _⟩ := numChars_shape t
    have hr : render (t :: ts) = c :: (tl ++ t.unit.name ++ render ts) := by
      simp [render, render_eq, hnum]
    unfold tdParse
    rw [hr, scan_skip _ _ _ _ _ _ (Or.inr rfl), ← hr]
    have := scan_terms ts t (render (t :: ts)) [] {} c tl hnum (by simp [render]) rfl
    simpa [utf8Len] using this

end Tv.C18
