import Tv.Lemmas.C12Part
import Mathlib.Tactic.FieldSimp
import Mathlib.Tactic.Ring
/-!
C12 helper lemmas, part 4: `vquantile`. Floor / ceiling of the fractional index, the mirrored index
of the `q > 0.5` branch, extreme of the selected head, and the two branches of the kernel.
-/
set_option linter.unusedSimpArgs false
namespace Tv.C12
open Tv

/-! ### floor / ceiling of a non-negative rational as naturals -/

theorem floor_toNat_cast {t : Rat} (ht : 0 ≤ t) : ((t.floor.toNat : Nat) : Int) = t.floor := by
  apply Int.toNat_of_nonneg
  rw [Rat.le_floor_iff]; simpa using ht

theorem ceil_toNat_cast {t : Rat} (ht : 0 ≤ t) : ((t.ceil.toNat : Nat) : Int) = t.ceil := by
  apply Int.toNat_of_nonneg
  have h1 : (0 : Int) ≤ t.floor := by rw [Rat.le_floor_iff]; simpa using ht
  have h2 : t.floor ≤ t.ceil := by
    have : ((t.floor : Int) : Rat) ≤ ((t.ceil : Int) : Rat) := le_trans (Rat.floor_le t) Rat.le_ceil
    exact_mod_cast this
  omega

theorem natCast_floor {t : Rat} (ht : 0 ≤ t) : ((t.floor.toNat : Nat) : Rat) = ((t.floor : Int) : Rat) :=
  (Int.cast_natCast _).symm.trans (congrArg Int.cast (floor_toNat_cast ht))

theorem natCast_ceil {t : Rat} (ht : 0 ≤ t) : ((t.ceil.toNat : Nat) : Rat) = ((t.ceil : Int) : Rat) :=
  (Int.cast_natCast _).symm.trans (congrArg Int.cast (ceil_toNat_cast ht))

/-- either the index is an integer (`floor = ceil = t`) or `ceil = floor + 1` strictly around `t` -/
theorem floor_ceil_cases {t : Rat} (ht : 0 ≤ t) :
    (t.floor.toNat = t.ceil.toNat ∧ t = (t.floor.toNat : Rat)) ∨
    (t.ceil.toNat = t.floor.toNat + 1 ∧ (t.floor.toNat : Rat) < t ∧ t < (t.floor.toNat : Rat) + 1) := by
  have hf := floor_toNat_cast ht
  have hc := ceil_toNat_cast ht
  have h1 : ((t.floor : Int) : Rat) ≤ t := Rat.floor_le t
  have h2 : t < ((t.floor + 1 : Int) : Rat) := Rat.lt_floor_add_one t
  have h3 : t ≤ ((t.ceil : Int) : Rat) := Rat.le_ceil
  have h4 : ((t.ceil : Int) : Rat) < t + 1 := Rat.ceil_lt
  have h5 : t.floor ≤ t.ceil := by
    have : ((t.floor : Int) : Rat) ≤ ((t.ceil : Int) : Rat) := le_trans h1 h3
    exact_mod_cast this
  have h6 : t.ceil ≤ t.floor + 1 := by
    have : ((t.ceil : Int) : Rat) < ((t.floor + 1 + 1 : Int) : Rat) := by
      push_cast at h2 ⊢; linarith
    have : t.ceil < t.floor + 1 + 1 := by exact_mod_cast this
    omega
  rw [natCast_floor ht]
  by_cases h : t.floor = t.ceil
  · left
    refine ⟨by omega, ?_⟩
    rw [h] at h1 ⊢
    exact le_antisymm h3 h1
  · right
    have hce : t.ceil = t.floor + 1 := by omega
    refine ⟨by omega, ?_, by push_cast at h2; exact h2⟩
    rcases lt_or_eq_of_le h1 with h' | h'
    · exact h'
    · exfalso
      have : t.ceil = t.floor := by rw [← h']; exact Rat.ceil_intCast _
      omega

/-- mirrored index: for a natural `L ≥ t ≥ 0`, `⌊L - t⌋ = L - ⌈t⌉` and `⌈L - t⌉ = L - ⌊t⌋` -/
theorem mirror_index (L : Nat) {t : Rat} (ht : 0 ≤ t) (htL : t ≤ (L : Rat)) :
    ((L : Rat) - t).floor.toNat = L - t.ceil.toNat ∧ ((L : Rat) - t).ceil.toNat = L - t.floor.toNat := by
  have hf := floor_toNat_cast ht
  have hc := ceil_toNat_cast ht
  have e : (L : Rat) - t = -t + ((L : Int) : Rat) := by push_cast; ring
  have hfl : ((L : Rat) - t).floor = -t.ceil + (L : Int) := by
    rw [e, Rat.floor_add_intCast, Rat.ceil_eq_neg_floor_neg t]; simp
  have hcl : ((L : Rat) - t).ceil = -t.floor + (L : Int) := by
    rw [e, Rat.ceil_add_intCast, Rat.ceil_eq_neg_floor_neg (-t)]; simp
  have hcL : t.ceil ≤ (L : Int) := by rw [Rat.ceil_le_iff]; simpa using htL
  have hfL : t.floor ≤ (L : Int) := by
    have : ((t.floor : Int) : Rat) ≤ ((L : Int) : Rat) := le_trans (Rat.floor_le t) (by simpa using htL)
    exact_mod_cast this
  constructor
  · rw [hfl]; omega
  · rw [hcl]; omega

/-! ### extreme of the selected head -/

theorem valid_map_some (M : List Rat) : valid (M.map some) = M := by
  induction M with
  | nil => rfl
  | cons a M ih => simpa [valid] using ih

theorem valid_perm {l₁ l₂ : List Elem} (h : l₁.Perm l₂) : (valid l₁).Perm (valid l₂) := by
  unfold valid; exact h.filterMap _

theorem foldl_max_spec (l : List Rat) (a : Rat) :
    ∃ v, l.foldl maxStep (some a) = some v ∧ v ∈ a :: l ∧ ∀ x ∈ a :: l, x ≤ v := by
  induction l generalizing a with
  | nil => exact ⟨a, rfl, by simp, by simp⟩
  | cons b l ih =>
    simp only [List.foldl_cons, maxStep]
    obtain ⟨v, hv, hm, hub⟩ := ih (if b > a then b else a)
    refine ⟨v, hv, ?_, ?_⟩
    · rcases List.mem_cons.mp hm with h | h
      · split at h <;> simp [h]
      · simp [h]
    · intro x hx
      have hab : a ≤ (if b > a then b else a) ∧ b ≤ (if b > a then b else a) := by
        split
        · rename_i h; exact ⟨le_of_lt h, le_refl _⟩
        · rename_i h; exact ⟨le_refl _, not_lt.mp h⟩
      have h0 := hub _ (List.mem_cons_self)
      rcases List.mem_cons.mp hx with rfl | hx
      · exact le_trans hab.1 h0
      · rcases List.mem_cons.mp hx with rfl | hx
        · exact le_trans hab.2 h0
        · exact hub x (List.mem_cons_of_mem _ hx)

theorem foldl_min_spec (l : List Rat) (a : Rat) :
    ∃ v, l.foldl minStep (some a) = some v ∧ v ∈ a :: l ∧ ∀ x ∈ a :: l, v ≤ x := by
  induction l generalizing a with
  | nil => exact ⟨a, rfl, by simp, by simp⟩
  | cons b l ih =>
    simp only [List.foldl_cons, minStep]
    obtain ⟨v, hv, hm, hlb⟩ := ih (if b < a then b else a)
    refine ⟨v, hv, ?_, ?_⟩
    · rcases List.mem_cons.mp hm with h | h
      · split at h <;> simp [h]
      · simp [h]
    · intro x hx
      have hab : (if b < a then b else a) ≤ a ∧ (if b < a then b else a) ≤ b := by
        split
        · rename_i h; exact ⟨le_of_lt h, le_refl _⟩
        · rename_i h; exact ⟨le_refl _, not_lt.mp h⟩
      have h0 := hlb _ (List.mem_cons_self)
      rcases List.mem_cons.mp hx with rfl | hx
      · exact le_trans h0 hab.1
      · rcases List.mem_cons.mp hx with rfl | hx
        · exact le_trans h0 hab.2
        · exact hlb x (List.mem_cons_of_mem _ hx)

/-- the valid maximum of a rearrangement of `M` is the (unique) upper bound of `M` that lies in `M` -/
theorem vmaxE_eq {h : List Elem} {M : List Rat} (hp : h.Perm (M.map some)) {b : Rat} (hb : b ∈ M)
    (hub : ∀ x ∈ M, x ≤ b) : vmaxE h = some b := by
  have hv : (valid h).Perm M := by simpa [valid_map_some] using valid_perm hp
  unfold vmaxE
  cases hvl : valid h with
  | nil => rw [hvl] at hv; have := hv.symm.mem_iff.mp hb; simp at this
  | cons a l =>
    rw [List.foldl_cons]
    obtain ⟨v, hv', hm, hu⟩ := foldl_max_spec l a
    simp only [maxStep]
    rw [hv']
    rw [hvl] at hv
    have h1 : v ≤ b := hub v (hv.mem_iff.mp hm)
    have h2 : b ≤ v := hu b (hv.mem_iff.mpr hb)
    rw [le_antisymm h1 h2]

theorem vminE_eq {h : List Elem} {M : List Rat} (hp : h.Perm (M.map some)) {b : Rat} (hb : b ∈ M)
    (hlb : ∀ x ∈ M, b ≤ x) : vminE h = some b := by
  have hv : (valid h).Perm M := by simpa [valid_map_some] using valid_perm hp
  unfold vminE
  cases hvl : valid h with
  | nil => rw [hvl] at hv; have := hv.symm.mem_iff.mp hb; simp at this
  | cons a l =>
    rw [List.foldl_cons]
    obtain ⟨v, hv', hm, hu⟩ := foldl_min_spec l a
    simp only [minStep]
    rw [hv']
    rw [hvl] at hv
    have h1 : b ≤ v := hlb v (hv.mem_iff.mp hm)
    have h2 : v ≤ b := hu b (hv.mem_iff.mpr hb)
    rw [le_antisymm h2 h1]

/-- in a list sorted by `R`, element `i` is `R`-above everything in the prefix of length `i+1` -/
theorem sorted_prefix_le {R : Rat → Rat → Prop} (hr : ∀ a, R a a) {l : List Rat} (hs : l.Pairwise R)
    {i : Nat} (hi : i < l.length) : l[i] ∈ l.take (i + 1) ∧ ∀ x ∈ l.take (i + 1), R x l[i] := by
  constructor
  · rw [List.take_succ_eq_append_getElem hi]
    exact List.mem_append_right _ (List.mem_singleton.mpr rfl)
  · intro x hx
    rw [List.mem_take_iff_getElem] at hx
    obtain ⟨k, hk, rfl⟩ := hx
    have hk' : k < i + 1 := by omega
    rcases Nat.lt_succ_iff_lt_or_eq.mp hk' with h | h
    · exact List.pairwise_iff_getElem.mp hs k i (by omega) hi h
    · subst h; exact hr _

/-! ### the spec's interpolation, evaluated -/

/-- value of the four interpolation kinds between `a` (lower) and `b` (upper) at fraction `f` -/
def interpVal (a b f : Rat) : Spec.Interp → Rat
  | .linear => a + (b - a) * f
  | .lower => a
  | .higher => b
  | .midpoint => (a + b) / 2

theorem interp_eval (v : List Rat) (t : Rat) (m : Spec.Interp) {lo hi : Nat} {a b : Rat}
    (hlo : t.floor.toNat = lo) (hhi : t.ceil.toNat = hi) (ha : v[lo]? = some a) (hb : v[hi]? = some b) :
    Spec.interp v t m = .val (interpVal a b (t - (lo : Rat)) m) := by
  unfold Spec.interp
  simp only [hlo, hhi, ha, hb]
  cases m <;> rfl

/-- correspondence of the method enums -/
def toInterp : QMethod → Spec.Interp
  | .linear => .linear
  | .lower => .lower
  | .higher => .higher
  | .midpoint => .midpoint

theorem interpVal_same (a f : Rat) (m : Spec.Interp) : interpVal a a f m = a := by
  cases m <;> simp [interpVal]

/-- the final `match method` of the kernel on the low branch (`j = i + 1`) -/
theorem qFinish_low (L : Nat) (hL : 0 < L) (q : Rat) (i : Nat) (a b : Rat) (m : QMethod) :
    qFinish (L : Rat) q i (i + 1) (some a) (some b) m
      = some (interpVal a b ((L : Rat) * q - (i : Rat)) (toInterp m)) := by
  have hL' : (L : Rat) ≠ 0 := by exact_mod_cast (Nat.pos_iff_ne_zero.mp hL)
  cases m <;> simp only [qFinish, map2, interpVal, toInterp]
  congr 2
  push_cast
  field_simp
  ring

/-- … and on the mirrored branch, where the roles of the two neighbours are exchanged -/
theorem qFinish_high (L : Nat) (hL : 0 < L) (q' : Rat) (i : Nat) (a b : Rat) :
    qFinish (L : Rat) q' i (i + 1) (some b) (some a) .linear
      = some (interpVal a b (1 - ((L : Rat) * q' - (i : Rat))) .linear) ∧
    qFinish (L : Rat) q' i (i + 1) (some b) (some a) .midpoint
      = some (interpVal a b (1 - ((L : Rat) * q' - (i : Rat))) .midpoint) := by
  have hL' : (L : Rat) ≠ 0 := by exact_mod_cast (Nat.pos_iff_ne_zero.mp hL)
  constructor
  · simp only [qFinish, map2, interpVal]
    congr 1
    push_cast
    field_simp
    ring
  · simp only [qFinish, map2, interpVal]
    congr 1
    ring

/-! ### lookups in the canonical sorted form -/

theorem sorted_prefix_le' {R : Rat → Rat → Prop} (hr : ∀ a, R a a) {l : List Rat} (hs : l.Pairwise R)
    {i : Nat} {a : Rat} (ha : l[i]? = some a) : a ∈ l.take (i + 1) ∧ ∀ x ∈ l.take (i + 1), R x a := by
  obtain ⟨hi, rfl⟩ := List.getElem?_eq_some_iff.mp ha
  exact sorted_prefix_le hr hs hi

theorem sortedE_get (rev : Bool) (xs : List Elem) {j : Nat} (hj : j < (valid xs).length) :
    (sortedE rev xs)[j]? = ((Spec.sortedValid xs rev)[j]?).map some := by
  unfold sortedE
  rw [List.getElem?_append_left (by simpa using hj), List.getElem?_map]

theorem sortedValid_rev_get (xs : List Elem) {j : Nat} (hj : j < (valid xs).length) :
    (Spec.sortedValid xs true)[j]? = (Spec.sortedValid xs false)[(valid xs).length - 1 - j]? := by
  rw [sortedValid_rev, List.getElem?_reverse (by simpa using hj), sortedValid_length]

theorem sortedValid_asc (xs : List Elem) : (Spec.sortedValid xs false).Pairwise (fun a b => a ≤ b) :=
  (sortedValid_pairwise xs false).imp (fun h => by simpa [leR] using h)

theorem sortedValid_desc (xs : List Elem) : (Spec.sortedValid xs true).Pairwise (fun a b => b ≤ a) :=
  (sortedValid_pairwise xs true).imp (fun h => by simpa [leR] using h)

/-! ### the kernel -/

theorem vquantile_one (xs : List Elem) (q : Rat) (m : QMethod) (hn : (valid xs).length = 1) :
    toOut (valid xs).head? = Spec.quantile xs q (toInterp m) := by
  obtain ⟨v, hv⟩ : ∃ v, valid xs = [v] := List.length_eq_one_iff.mp hn
  have hsv : Spec.sortedValid xs false = [v] := by
    have := sortedValid_perm xs false
    rw [hv] at this
    exact List.perm_singleton.mp this
  unfold Spec.quantile
  rw [hsv, hv]
  simp only [List.length_singleton, Nat.sub_self, Nat.cast_zero, zero_mul, List.head?_cons, toOut]
  rw [interp_eval [v] 0 (toInterp m) (lo := 0) (hi := 0) (a := v) (b := v) (by decide) (by decide) rfl rfl]
  simp [interpVal_same]

theorem vquantile_low {S : Std} (hS : S.Ok) (xs : List Elem) (q : Rat) (m : QMethod)
    (h0 : 0 ≤ q) (h1 : q ≤ 1) (hn : 2 ≤ (valid xs).length) :
    (match S.select (leE false) xs ((((valid xs).length - 1 : Nat) : Rat) * q).ceil.toNat with
      | none => Res.panic
      | some (head, mm, _) =>
        if (((((valid xs).length - 1 : Nat) : Rat) * q).floor.toNat ≠
            ((((valid xs).length - 1 : Nat) : Rat) * q).ceil.toNat) then
          Res.ok (toOut (qFinish (((valid xs).length - 1 : Nat) : Rat) q
            ((((valid xs).length - 1 : Nat) : Rat) * q).floor.toNat
            ((((valid xs).length - 1 : Nat) : Rat) * q).ceil.toNat (vmaxE head) mm m))
        else Res.ok (toOut mm))
      = .ok (Spec.interp (Spec.sortedValid xs false) ((((valid xs).length - 1 : Nat) : Rat) * q) (toInterp m)) := by
  generalize hnn : (valid xs).length = n at *
  have hLpos : 0 < n - 1 := by omega
  have hL0 : (0 : Rat) ≤ ((n - 1 : Nat) : Rat) := by positivity
  set t : Rat := ((n - 1 : Nat) : Rat) * q with ht
  have ht0 : 0 ≤ t := mul_nonneg hL0 h0
  have htL : t ≤ ((n - 1 : Nat) : Rat) := by
    have := mul_le_mul_of_nonneg_left h1 hL0
    simpa [ht] using this
  have hjn : t.ceil.toNat ≤ n - 1 := by
    have h := ceil_toNat_cast ht0
    have : t.ceil ≤ ((n - 1 : Nat) : Int) := by rw [Rat.ceil_le_iff]; simpa using htL
    omega
  have hlen := valid_length_le xs
  obtain ⟨h, mm, tl, hsel, hp, hjl, hh, hht⟩ :=
    hS.select_spec (leE false) (leE_total false) (leE_trans false) xs t.ceil.toNat (by omega)
  rw [hsel]
  simp only []
  have hjv : t.ceil.toNat < (valid xs).length := by omega
  obtain ⟨b, hb⟩ : ∃ b, (Spec.sortedValid xs false)[t.ceil.toNat]? = some b :=
    ⟨_, List.getElem?_eq_getElem (by simpa using hjv)⟩
  have hmm : mm = some b := by
    have h1 := select_nth false hp hjl hh hht
    rw [sortedE_get false xs hjv, hb] at h1
    simpa using h1.symm
  subst hmm
  rcases floor_ceil_cases ht0 with ⟨hij, hti⟩ | ⟨hji, hlt, hgt⟩
  · rw [if_neg (by simpa using hij)]
    rw [interp_eval _ t (toInterp m) hij rfl hb hb, interpVal_same]
    rfl
  · have hne : t.floor.toNat ≠ t.ceil.toNat := by omega
    rw [if_pos hne]
    have hiv : t.floor.toNat < (valid xs).length := by omega
    obtain ⟨a, ha⟩ : ∃ a, (Spec.sortedValid xs false)[t.floor.toNat]? = some a :=
      ⟨_, List.getElem?_eq_getElem (by simpa using hiv)⟩
    have hhead : h.Perm (((Spec.sortedValid xs false).take (t.floor.toNat + 1)).map some) := by
      have := select_head false hp hjl hh hht
      rwa [sortedE_take_le false xs (by omega), hji] at this
    have hpre := sorted_prefix_le' (R := fun a b => a ≤ b) (fun _ => le_refl _) (sortedValid_asc xs) ha
    rw [vmaxE_eq hhead hpre.1 hpre.2, hji, qFinish_low _ hLpos]
    rw [interp_eval _ t (toInterp m) rfl hji ha (hji ▸ hb)]
    rfl

theorem vquantile_high {S : Std} (hS : S.Ok) (xs : List Elem) (q : Rat) (m : QMethod)
    (h0 : 1 / 2 < q) (h1 : q ≤ 1) (hn : 2 ≤ (valid xs).length) :
    (match S.select (leE true) xs ((((valid xs).length - 1 : Nat) : Rat) * (1 - q)).ceil.toNat with
      | none => Res.panic
      | some (head, mm, _) =>
        if (((((valid xs).length - 1 : Nat) : Rat) * (1 - q)).floor.toNat ≠
            ((((valid xs).length - 1 : Nat) : Rat) * (1 - q)).ceil.toNat) then
          (match m with
          | .lower => Res.ok (toOut mm)
          | .higher => Res.ok (toOut (vminE head))
          | _ => Res.ok (toOut (qFinish (((valid xs).length - 1 : Nat) : Rat) (1 - q)
            ((((valid xs).length - 1 : Nat) : Rat) * (1 - q)).floor.toNat
            ((((valid xs).length - 1 : Nat) : Rat) * (1 - q)).ceil.toNat (vminE head) mm m)))
        else Res.ok (toOut mm))
      = .ok (Spec.interp (Spec.sortedValid xs false) ((((valid xs).length - 1 : Nat) : Rat) * q) (toInterp m)) := by
  have hlen := valid_length_le xs
  generalize hnn : (valid xs).length = n at *
  have hLpos : 0 < n - 1 := by omega
  have hL0 : (0 : Rat) ≤ ((n - 1 : Nat) : Rat) := by positivity
  set t : Rat := ((n - 1 : Nat) : Rat) * (1 - q) with ht
  have ht0 : 0 ≤ t := mul_nonneg hL0 (by linarith)
  have htL : t ≤ ((n - 1 : Nat) : Rat) := by
    have := mul_le_mul_of_nonneg_left (show 1 - q ≤ 1 by linarith) hL0
    simpa [ht] using this
  have hmir : ((n - 1 : Nat) : Rat) * q = ((n - 1 : Nat) : Rat) - t := by rw [ht]; ring
  obtain ⟨mfl, mcl⟩ := mirror_index (n - 1) ht0 htL
  have hjn : t.ceil.toNat ≤ n - 1 := by
    have h := ceil_toNat_cast ht0
    have : t.ceil ≤ ((n - 1 : Nat) : Int) := by rw [Rat.ceil_le_iff]; simpa using htL
    omega
  obtain ⟨h, mm, tl, hsel, hp, hjl, hh, hht⟩ :=
    hS.select_spec (leE true) (leE_total true) (leE_trans true) xs t.ceil.toNat (by omega)
  rw [hsel]
  simp only []
  have hjv : t.ceil.toNat < (valid xs).length := by omega
  obtain ⟨a, ha⟩ : ∃ a, (Spec.sortedValid xs true)[t.ceil.toNat]? = some a :=
    ⟨_, List.getElem?_eq_getElem (by simpa using hjv)⟩
  have hmm : mm = some a := by
    have h1 := select_nth true hp hjl hh hht
    rw [sortedE_get true xs hjv, ha] at h1
    simpa using h1.symm
  subst hmm
  have ha' : (Spec.sortedValid xs false)[n - 1 - t.ceil.toNat]? = some a := by
    rw [← ha, sortedValid_rev_get xs hjv, hnn]
  rw [hmir]
  rcases floor_ceil_cases ht0 with ⟨hij, hti⟩ | ⟨hji, hlt, hgt⟩
  · rw [if_neg (by simpa using hij)]
    rw [interp_eval _ _ (toInterp m) mfl (by rw [mcl, hij]) ha' ha', interpVal_same]
    rfl
  · have hne : t.floor.toNat ≠ t.ceil.toNat := by omega
    rw [if_pos hne]
    have hiv : t.floor.toNat < (valid xs).length := by omega
    obtain ⟨b, hb⟩ : ∃ b, (Spec.sortedValid xs true)[t.floor.toNat]? = some b :=
      ⟨_, List.getElem?_eq_getElem (by simpa using hiv)⟩
    have hb' : (Spec.sortedValid xs false)[n - 1 - t.floor.toNat]? = some b := by
      rw [← hb, sortedValid_rev_get xs hiv, hnn]
    have hhead : h.Perm (((Spec.sortedValid xs true).take (t.floor.toNat + 1)).map some) := by
      have := select_head true hp hjl hh hht
      rwa [sortedE_take_le true xs (by omega), hji] at this
    have hpre := sorted_prefix_le' (R := fun a b => b ≤ a) (fun _ => le_refl _) (sortedValid_desc xs) hb
    rw [vminE_eq hhead hpre.1 hpre.2]
    rw [interp_eval _ _ (toInterp m) mfl mcl ha' hb']
    have hfrac : ((n - 1 : Nat) : Rat) - t - ((n - 1 - t.ceil.toNat : Nat) : Rat)
        = 1 - (((n - 1 : Nat) : Rat) * (1 - q) - (t.floor.toNat : Rat)) := by
      rw [Nat.cast_sub hjn, hji, ← ht]; push_cast; ring
    rw [hfrac, hji]
    obtain ⟨hlin, hmid⟩ := qFinish_high (n - 1) hLpos (1 - q) t.floor.toNat a b
    cases m
    · simp only [hlin, toInterp, toOut]
    · simp only [toInterp, toOut, interpVal]
    · simp only [toInterp, toOut, interpVal]
    · simp only [hmid, toInterp, toOut]

/-- with at least one valid element the spec's quantile is a number -/
theorem spec_quantile_val (xs : List Elem) (q : Rat) (m : Spec.Interp) (h0 : 0 ≤ q) (h1 : q ≤ 1)
    (hn : 0 < (valid xs).length) : ∃ v, Spec.quantile xs q m = .val v := by
  unfold Spec.quantile
  simp only [sortedValid_length, Nat.pos_iff_ne_zero.mp hn, if_false]
  have hL0 : (0 : Rat) ≤ (((valid xs).length - 1 : Nat) : Rat) := by positivity
  set t : Rat := (((valid xs).length - 1 : Nat) : Rat) * q with ht
  have ht0 : 0 ≤ t := mul_nonneg hL0 h0
  have htL : t ≤ (((valid xs).length - 1 : Nat) : Rat) := by
    have := mul_le_mul_of_nonneg_left h1 hL0
    simpa [ht] using this
  have hjn : t.ceil.toNat ≤ (valid xs).length - 1 := by
    have h := ceil_toNat_cast ht0
    have : t.ceil ≤ (((valid xs).length - 1 : Nat) : Int) := by rw [Rat.ceil_le_iff]; simpa using htL
    omega
  have hin : t.floor.toNat ≤ t.ceil.toNat := by
    rcases floor_ceil_cases ht0 with ⟨h, _⟩ | ⟨h, _⟩ <;> omega
  obtain ⟨a, ha⟩ : ∃ a, (Spec.sortedValid xs false)[t.floor.toNat]? = some a :=
    ⟨_, List.getElem?_eq_getElem (by simp; omega)⟩
  obtain ⟨b, hb⟩ : ∃ b, (Spec.sortedValid xs false)[t.ceil.toNat]? = some b :=
    ⟨_, List.getElem?_eq_getElem (by simp; omega)⟩
  exact ⟨_, interp_eval _ t m rfl rfl ha hb⟩

end Tv.C12
