import Tv.Lemmas.C11Pair
import Tv.Lemmas.C11Ext
import Tv.Lemmas.C11Count
/-!
  C11 helper lemmas, part 7: the from-scratch definitions depend only on the multiset of
  observations (`List.Perm`-invariance).
-/
namespace Tv.C11
open Tv Tv.Spec

variable {l₁ l₂ : List Rat}

theorem mean_perm (h : l₁.Perm l₂) : Spec.mean l₁ = Spec.mean l₂ := by
  unfold Spec.mean; rw [sum_perm h, h.length_eq]

theorem cmom_perm (k : Nat) (h : l₁.Perm l₂) : cmom k l₁ = cmom k l₂ := by
  unfold cmom; rw [mean_perm h, csum_perm k _ h, h.length_eq]

theorem sampleVar_perm (h : l₁.Perm l₂) : Spec.sampleVar l₁ = Spec.sampleVar l₂ := by
  unfold Spec.sampleVar; rw [mean_perm h, csum_perm 2 _ h, h.length_eq]

theorem skewOf_perm (h : l₁.Perm l₂) : Spec.skewOf l₁ = Spec.skewOf l₂ := by
  unfold Spec.skewOf; rw [cmom_perm 2 h, cmom_perm 3 h, h.length_eq]

theorem kurtOf_perm (h : l₁.Perm l₂) : Spec.kurtOf l₁ = Spec.kurtOf l₂ := by
  unfold Spec.kurtOf; rw [cmom_perm 2 h, cmom_perm 4 h, h.length_eq]

theorem least_perm (h : l₁.Perm l₂) : Spec.least l₁ = Spec.least l₂ := by
  rw [least_eq, least_eq]; exact extFind_perm leR_good h

theorem greatest_perm (h : l₁.Perm l₂) : Spec.greatest l₁ = Spec.greatest l₂ := by
  rw [greatest_eq, greatest_eq]; exact extFind_perm geR_good h

theorem ccross_perm {p₁ p₂ : List (Rat × Rat)} (h : p₁.Perm p₂) :
    Spec.ccross p₁ = Spec.ccross p₂ := by
  unfold Spec.ccross
  rw [mean_perm (h.map _), mean_perm (h.map (·.2))]
  exact sum_perm (h.map _)

theorem pairsValid_perm {xs ys xs' ys' : List (Option Rat)}
    (h : (xs.zip ys).Perm (xs'.zip ys')) :
    (Spec.pairsValid xs ys).Perm (Spec.pairsValid xs' ys') := h.filterMap _

theorem selected_perm {xs xs' : List (Option Rat)} {ms ms' : List (Option Bool)}
    (h : (xs.zip ms).Perm (xs'.zip ms')) :
    (Spec.selected xs ms).Perm (Spec.selected xs' ms') := by
  rw [← valid_keepFlag, ← valid_keepFlag]
  exact valid_perm (h.filterMap _)

theorem contains_perm {a : Bool} {b₁ b₂ : List Bool} (h : b₁.Perm b₂) :
    b₁.contains a = b₂.contains a := by
  rw [Bool.eq_iff_iff]; simp [h.mem_iff]

theorem filter_length_perm {α : Type _} (p : α → Bool) {a b : List α} (h : a.Perm b) :
    (a.filter p).length = (b.filter p).length := (h.filter p).length_eq

end Tv.C11
