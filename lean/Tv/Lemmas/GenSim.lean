import Tv.Model.Basic
import Mathlib.Data.List.Forall2
/-!
  Simulation between a closure *regenerated from the Rust source* (`Tv.Gen.<fn>.step`, written by
  translator/closures.py on every run) and the hand-written model (`Roll`).

  `Agree sqrt o t` : the generated result `o` (`none` = the literal `f64::NAN`) is what the model
  token `t` denotes, reading `sqrt` as the square root; `degen` (a zero denominator: NaN or ±inf in
  Rust, a totalised `x / 0 = 0` in the generated `Rat` code) is exempt.
-/
namespace Tv.GenSim
open Tv

def Agree (sqrt : Rat → Rat) (o : Option Rat) : Out → Prop
  | .null => o = none
  | .val q => o = some q
  | .root s sq => o = some ((s : Rat) * sqrt sq)
  | .degen => True

/-- weak form for closed forms the model rewrote under the root sign: only the null mask, the
exact (`val`) outputs and the branch structure are compared -/
def AgreeW (o : Option Rat) : Out → Prop
  | .null => o = none
  | .val q => o = some q
  | .root _ _ => o.isSome
  | .degen => True

theorem Agree.weaken {sqrt : Rat → Rat} {o : Option Rat} {t : Out} (h : Agree sqrt o t) : AgreeW o t := by
  cases t <;> simp_all [Agree, AgreeW]

/-- run a generated step function over the driver's callback arguments -/
def genRun {σ α β : Type} (step : σ → Option α → α → σ × β) : σ → List (Option α × α) → List β
  | _, [] => []
  | s, (rm, v) :: cs => let p := step s rm v; p.2 :: genRun step p.1 cs

theorem genRun_length {σ α β : Type} (step : σ → Option α → α → σ × β) (s : σ) (cs : List (Option α × α)) :
    (genRun step s cs).length = cs.length := by
  induction cs generalizing s with
  | nil => rfl
  | cons c cs ih => obtain ⟨rm, v⟩ := c; simp [genRun, ih]

/-- how the model sees the callback arguments of a closure whose element type is embedded by `ι`
(`id` for the null-aware closures, `some` for the plain ones) -/
def mapCalls {α α' : Type} (ι : α → α') (cs : List (Option α × α)) : List (Option α' × α') :=
  cs.map fun c => (c.1.map ι, ι c.2)

theorem mapCalls_id {α : Type} (cs : List (Option α × α)) : mapCalls id cs = cs := by
  induction cs with
  | nil => rfl
  | cons c cs ih => obtain ⟨rm, v⟩ := c; cases rm <;> simp_all [mapCalls]

/-- **Simulation.** If a relation between generated and model state holds initially and every
step preserves it and produces agreeing results, the two runs agree position by position — for
every sequence of callback arguments, of any length. -/
theorem run_sim {σ τ α α' β γ : Type} (ι : α → α') (step : σ → Option α → α → σ × β) (r : Roll τ α' γ)
    (R : σ → τ → Prop) (A : β → γ → Prop)
    (hstep : ∀ g m rm v, R g m →
      R (step g rm v).1 (r.step m (rm.map ι) (ι v)).1 ∧ A (step g rm v).2 (r.step m (rm.map ι) (ι v)).2) :
    ∀ (cs : List (Option α × α)) (g : σ) (m : τ), R g m →
      List.Forall₂ A (genRun step g cs) (r.run m (mapCalls ι cs)) := by
  intro cs
  induction cs with
  | nil => intro g m _; exact List.Forall₂.nil
  | cons c cs ih =>
    intro g m h
    obtain ⟨rm, v⟩ := c
    obtain ⟨h1, h2⟩ := hstep g m rm v h
    exact List.Forall₂.cons h2 (ih _ _ h1)

/-- assemble the step obligation of `run_sim` from the three parts of a decomposed closure
(`step_eq` and `pre_eq` are proved in the generated file) -/
theorem hstep_of_parts {σ τ α α' β γ : Type} (ι : α → α') (step : σ → Option α → α → σ × β)
    (pre : σ → α → σ × β) (post : σ → Option α → σ) (add : σ → α → σ) (emit : σ → α → β)
    (r : Roll τ α' γ) (R : σ → τ → Prop) (A : β → γ → Prop)
    (hs : ∀ s rm v, step s rm v = (post (pre s v).1 rm, (pre s v).2))
    (hp : ∀ s v, pre s v = (add s v, emit (add s v) v))
    (hadd : ∀ g m v, R g m → R (add g v) (r.add m (ι v)))
    (hpost : ∀ g m x, R g m → R (post g (some x)) (r.remove m (ι x)))
    (hpost0 : ∀ g, post g none = g)
    (hemit : ∀ g m v, R g m → A (emit g v) (r.emit m)) :
    ∀ g m rm v, R g m →
      R (step g rm v).1 (r.step m (rm.map ι) (ι v)).1 ∧ A (step g rm v).2 (r.step m (rm.map ι) (ι v)).2 := by
  intro g m rm v h
  rw [hs, hp]
  have ha := hadd g m v h
  refine ⟨?_, hemit _ _ v ha⟩
  cases rm with
  | none => simpa [Roll.step, hpost0] using ha
  | some x => simpa [Roll.step] using hpost _ _ x ha

/-- same, for a closure that only decomposes into `pre` (everything up to the result) and `post` -/
theorem hstep_of_pre {σ τ α α' β γ : Type} (ι : α → α') (step : σ → Option α → α → σ × β)
    (pre : σ → α → σ × β) (post : σ → Option α → σ)
    (r : Roll τ α' γ) (R : σ → τ → Prop) (A : β → γ → Prop)
    (hs : ∀ s rm v, step s rm v = (post (pre s v).1 rm, (pre s v).2))
    (hpre : ∀ g m v, R g m → R (pre g v).1 (r.add m (ι v)) ∧ A (pre g v).2 (r.emit (r.add m (ι v))))
    (hpost : ∀ g m x, R g m → R (post g (some x)) (r.remove m (ι x)))
    (hpost0 : ∀ g, post g none = g) :
    ∀ g m rm v, R g m →
      R (step g rm v).1 (r.step m (rm.map ι) (ι v)).1 ∧ A (step g rm v).2 (r.step m (rm.map ι) (ι v)).2 := by
  intro g m rm v h
  rw [hs]
  obtain ⟨ha, he⟩ := hpre g m v h
  refine ⟨?_, he⟩
  cases rm with
  | none => simpa [Roll.step, hpost0] using ha
  | some x => simpa [Roll.step] using hpost _ _ x ha

/-- the drivers are natural in the element type: mapping the series maps the callback arguments -/
theorem applyCalls_map {α α' : Type} (ι : α → α') (sh : Shape) (xs : List α) (w : Nat) :
    applyCalls sh (xs.map ι) w = mapCalls ι (applyCalls sh xs w) := by
  unfold applyCalls mapCalls
  rw [List.length_map, List.map_filterMap]
  apply List.filterMap_congr
  rintro ⟨s, e⟩ _
  simp only [List.getElem?_map]
  cases h : xs[e]? with
  | none => simp
  | some v =>
    cases s with
    | none => simp
    | some s => cases h2 : xs[s]? <;> simp [h2]

theorem apply2Calls_map {α α' β β' : Type} (ι : α → α') (κ : β → β') (sh : Shape) (xs : List α) (ys : List β) (w : Nat) :
    apply2Calls sh (xs.map ι) (ys.map κ) w = mapCalls (Prod.map ι κ) (apply2Calls sh xs ys w) := by
  unfold apply2Calls mapCalls
  rw [List.length_map, List.map_filterMap]
  apply List.filterMap_congr
  rintro ⟨s, e⟩ _
  simp only [List.getElem?_map]
  cases h : xs[e]? <;> cases h' : ys[e]? <;> simp
  cases s with
  | none => simp
  | some s => cases h2 : xs[s]? <;> cases h3 : ys[s]? <;> simp [h2, h3]

end Tv.GenSim
